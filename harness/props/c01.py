"""C01 — providedBy/implementedBy report exactly the declared and inherited interfaces
(DESIGN.md section 5, C01)."""
import json
import os
from .. import common as C

ID = "C01"
COQ_TARGETS = ["Tie/C01.vo", "Properties/C01.vo"]
PROPERTY_FILE = "Properties/C01.v"
TIE = "Tie.C01"
DRIVER = "c01_driver.py"
SHARD = 40
THEOREMS = [
    "C01_provided_within_ledger", "C01_model_is_lower_bound",
    "C01_I_providedBy_iff", "C01_non_interference",
    "C01_history_non_interference", "C01_cache_entries_fresh",
    "C01_stale_cache_refuted_without_eviction", "C01_class_instance_no_leak",
    "C01_noLongerProvides_raises_iff", "C01_closure_is_reachability",
    "C01_ledger_impl_is_inheritance", "C01_super_within_ledger",
    "C01_generated_add_interfaces_to_cls_eq_model", "C01_generated_Provides_changed_eq_model",
    "C01_generated_classImplements_ordered_eq_model", "C01_generated_classImplements_eq_model",
    "C01_generated_classImplementsOnly_eq_model", "C01_generated_classImplementsFirst_eq_model",
    "C01_generated_implementedBy_class_provides_eq_model", "C01_generated_Provides_eq_model",
    "C01_generated_directlyProvidedBy_eq_model", "C01_generated_directlyProvides_eq_model",
    "C01_generated_alsoProvides_eq_model", "C01_generated_noLongerProvides_eq_model",
    "C01_generated_step_eq_model", "C01_generated_cache_keys_unique",
    "C01_lazy_answers_eq_eager", "C01_lazy_provided_within_ledger",
    "C01_lazy_invariant", "C01_generated_implementedBy_eq_model",
]
DECL_PY = os.path.join(C.REPO, "src", "zope", "interface", "declarations.py")
GEN = os.path.join(C.COQ, "Gen", "DeclKernel.v")


def regenerate(run):
    """Re-translate the declaration kernel of declarations.py into coq/Gen/DeclKernel.v (fail
    closed); Proofs/DeclKernel.v and the C01_generated_* theorems are re-checked against it."""
    from ..translate import decl as TR
    try:
        C.write_if_changed(GEN, TR.translate_file(DECL_PY))
        return []
    except Exception as e:  # refuse, report, keep the pipeline alive on the pinned kernel
        C.write_if_changed(GEN, TR.pinned())
        return ["harness/translate/decl.py refused %s (%s: %s); coq/Gen/DeclKernel.v holds the pinned kernel, so "
                "the C01_generated_* theorems of Properties/C01.v are NOT about the current source"
                % (DECL_PY, type(e).__name__, e)]

RULE = ("histories of 3-30 steps over <= 6 interfaces (random DAG), 0-2 metaclasses (possibly derived from each "
        "other, each implementing 0-2 interfaces), <= 5 classes (multiple inheritance, about half created with or "
        "inheriting a custom metaclass, created at any point, also after declarations on their bases), <= 6 instances (created and dropped at any point), all "
        "nine declaration calls on classes, instances and class objects, with arguments that are interfaces, "
        "directlyProvidedBy(t) / providedBy(t) objects and random nestings of them; built-in types (int, str, ...) and "
        "their instances as classes / objects (TypeError / AttributeError as data, BuiltinImplementationSpecifications "
        "cleaned per case); about 12% of the classes carry an old-style `__implemented__ = <interface | tuple | nested>` "
        "attribute (also as bases of new-style classes, with later classImplements / Only / First); 22% of the cases "
        "embed the before/after-split shape of classImplements on a class that inherits; classes made falsy by their "
        "metaclass (__bool__ / __len__) and falsy instances go through every call; super(B, x) proxies (instances and "
        "classes) are asked through implementedBy / providedBy / I.providedBy at random steps, and 14% of the cases "
        "are the sibling-leaves shape Leaf1(View, Mixin1) / Leaf2(View, Mixin2) / View(Root) queried in both orders; all four query forms + directlyProvidedBy "
        "for every live instance and class at every step (40% of the cases) or for a random SUBSET of the instances "
        "and classes at a random subset of steps (which first queries happen when is part of the history), and at "
        "60% of the steps the class objects alone are asked first (providedBy(cls), I.providedBy(cls), "
        "directlyProvidedBy(cls)), before anything computes implementedBy(cls); "
        "about half of the cases embed the stale-cache shape (instance declaration, class narrowing/widening on "
        "the class or on a base, new instance declared with the same arguments); a case is non-trivial when it "
        "contains an instance-level and a class-level declaration; distinct = distinct tag set x size bucket")
TRUSTED_BASE = ["'interfaces a specification implies = interfaces reachable through __bases__' (the subject of C02/C03) "
                "is the model's working definition of isOrExtends/flattened; validated by this correspondence",
                "class __bases__ are never reassigned; unique interface (name, module) keys",
                "harness/translate/decl.py (fail-closed Python-ast translator of the eleven kernel functions of "
                "declarations.py) and the primitives of coq/Model/DeclKernelPrims.v that stand for the object protocol "
                "(implementedBy, Specification.__setBases/changed notification, Provides.__init__, ClassProvides.__init__, "
                "_normalizeargs, Declaration.__sub__/interfaces(), getattr(ob,'__provides__'), providedBy): hand-written, "
                "validated by the correspondence"]
ASSUMPTIONS = ["declaration arguments are interfaces, Declaration / Provides / ClassProvides objects and nested tuples of them "
               "and `Interface` itself (interface 0 of every case) — all generated and modelled, including the *only* forms, "
               "which keep a Declaration argument un-normalised as one opaque element of `declared`; NOT generated, omitted "
               "from the model: Implements objects (class specifications, live nodes of the graph) as declaration arguments; "
               "an *only* form ALL of whose arguments are Declaration objects (HEAD keeps even an empty Declaration as an "
               "element, so `declared` is truthy while naming no interface — the model reads emptiness off the interfaces)",
               "metaclasses (custom, possibly falsy, implementing interfaces) are fixed during a history: no declaration "
               "calls on a metaclass; class __bases__ are never reassigned",
               "generated and modelled: lazy creation of specifications with queries at any point, built-in types and their "
               "instances, old-style __implemented__ class attributes, falsy classes and instances, super(B, x) proxies "
               "(their MRO remainder is taken from CPython)"]

BUILTIN_POOL = [int, str, float, list, dict, set, bytes, tuple, frozenset, complex, bytearray]  # = the driver's
CLASS_OPS = ["Implementer", "ImplementerOnly", "ClassImplements", "ClassImplementsOnly", "ClassImplementsFirst"]
OBJ_OPS = ["DirectlyProvides", "AlsoProvides", "NoLongerProvides", "Provider"]


class _Sim:
    """Just enough bookkeeping to generate valid, interesting histories (not an oracle)."""

    def __init__(self, rng, ni):
        self.rng = rng
        self.ni = ni
        self.ifaces = []
        # interface 0 is zope.interface.Interface itself; the others extend it (directly when they name no base)
        ni = ni + 1
        self.ni = ni
        self.ifaces.append([])
        for i in range(1, ni):
            k = rng.choice([0, 0, 1, 1, 1, 2]) if i > 1 else 0
            bs = sorted(rng.sample(range(1, i), min(k, i - 1)), reverse=rng.random() < 0.8)
            self.ifaces.append(bs or [0])
        self.up = []
        for i, bs in enumerate(self.ifaces):
            s = {i}
            for b in bs:
                s |= self.up[b]
            self.up.append(s)
        # 0-2 metaclasses, possibly a hierarchy, each implementing 0-2 interfaces
        self.tags = set()
        self.metas = []
        self.pym = []
        for k in range(rng.choice([0, 0, 1, 1, 2, 2])):
            bases = [0] if k == 1 and rng.random() < 0.5 else []
            l = [rng.randrange(1, self.ni) for _ in range(rng.choice([0, 1, 1, 2]))]
            falsy = rng.choice([None, None, "bool", "len"])
            self.metas.append({"bases": bases, "l": l, "call": bool(l) or rng.random() < 0.5, "falsy": falsy})
            self.pym.append(type("M", tuple(self.pym[b] for b in bases) or (type,), {}))
            if falsy:
                self.tags.add("falsy-class")
        self.cmeta = []     # effective metaclass id of each class (None = type)
        self.cbuiltin = []  # pool index of a built-in type used as a class, else None
        self.own = set()    # targets that certainly have their own __provides__ (("i", n) / ("c", n))
        self.pool_used = set()
        self.cbases = []
        self.pyc = []
        self.asked = []
        self.inherit = []
        self.inst = []      # class of instance
        self.live = []
        self.ops = []

    # -- helpers
    def impl(self, c):
        s = set(self.asked[c])
        if self.inherit[c]:
            for b in self.cbases[c]:
                s |= self.impl(b)
        return s

    def implied(self, c):
        out = set()
        for i in self.impl(c):
            out |= self.up[i]
        return out

    def chain(self, c):
        """c and the classes it currently inherits from"""
        out = [c]
        if self.inherit[c]:
            for b in self.cbases[c]:
                for x in self.chain(b):
                    if x not in out:
                        out.append(x)
        return out

    def ilist(self, maxn=3, dup=0.08, prefer=None):
        rng = self.rng
        n = rng.choice([0, 1, 1, 1, 2, 2, 3][: 4 + maxn])
        pool = list(range(1, len(self.ifaces))) + ([0] if rng.random() < 0.15 else [])
        out = []
        for _ in range(n):
            if prefer and rng.random() < 0.5:
                out.append(rng.choice(sorted(prefer)))
            else:
                out.append(rng.choice(pool))
        if out and rng.random() < dup:
            out.append(rng.choice(out))
        elif rng.random() > dup:
            seen = []
            for x in out:
                if x not in seen:
                    seen.append(x)
            out = seen
        return out

    def rif(self):
        """a random interface; ``Interface`` itself now and then"""
        return 0 if self.rng.random() < 0.05 else self.rng.randrange(1, self.ni)

    def live_insts(self):
        return [o for o, l in enumerate(self.live) if l]

    # -- ops
    def mdirect(self, m):
        """interfaces() of implementedBy(metaclass m): what implementer(*l)(M) kept of l (it elides
        what the metaclasses above already imply), then what those name"""
        if m is None:
            return None
        inherited = []
        for b in self.metas[m]["bases"]:
            for i in self.mdirect(b):
                if i not in inherited:
                    inherited.append(i)
        implied = set()
        for i in inherited:
            implied |= self.up[i]
        own = []
        if self.metas[m].get("call", True):
            for i in self.metas[m]["l"]:
                if i not in implied and i not in own:
                    own.append(i)
        return own + inherited

    def new_builtin(self):
        rng = self.rng
        free = [k for k in range(len(BUILTIN_POOL)) if k not in self.pool_used]
        k = rng.choice(free)
        self.pool_used.add(k)
        self.pyc.append(BUILTIN_POOL[k])
        self.cmeta.append(None)
        self.cbuiltin.append(k)
        self.cbases.append([])
        self.asked.append([])
        self.inherit.append(True)
        self.ops.append({"op": "NewClass", "bases": [], "m": None, "md": None, "bi": k})
        self.tags.add("builtin-type")
        return len(self.cbases) - 1

    def new_class(self, bases=None, plain=False):
        rng = self.rng
        n = len(self.cbases)
        if bases is None and n < 5 and rng.random() < 0.12 and len(self.pool_used) < 3:
            return self.new_builtin()
        for _ in range(8):
            if bases is None:
                k = rng.choice([0, 1, 1, 2, 2, 3]) if n else 0
                bs = rng.sample(range(n), min(k, n))
            else:
                bs = bases
            m = rng.randrange(len(self.metas)) if self.metas and rng.random() < 0.55 and not plain else None
            try:
                pb = tuple(self.pyc[b] for b in bs) or (object,)
                k = type("K", pb, {}) if m is None else self.pym[m]("K", pb, {})
                break
            except TypeError:
                bases = None
        else:
            bs, m = [], None
            k = type("K", (object,), {})
        self.pyc.append(k)
        em = self.pym.index(type(k)) if type(k) in self.pym else None
        self.cmeta.append(em)
        self.cbuiltin.append(None)
        self.cbases.append(bs)
        old, shape = None, None
        if rng.random() < 0.12 and not plain:
            # an old-style ``__implemented__ = ...`` attribute in the class body
            old = [self.rif() for _ in range(rng.choice([0, 1, 1, 1, 2, 2, 3]))]
            shape = rng.choice(["single", "tuple", "tuple", "nested"])
            self.tags.add("old-style")
            if any(self.asked[b] or not self.inherit[b] for b in bs):
                self.tags.add("old-style-over-declared-base")
        self.asked.append(list(old) if old is not None else [])
        self.inherit.append(old is None)
        ifalsy = rng.choice([None] * 5 + ["bool", "len"])
        if ifalsy:
            self.tags.add("falsy-instance")
        self.ops.append({"op": "NewClass", "bases": bs, "m": m, "md": self.mdirect(em), "old": old, "oldshape": shape,
                         "ifalsy": ifalsy})
        if len(bs) > 1:
            self.tags.add("multi-inherit")
        if em is not None:
            self.tags.add("metaclass" + ("-implements" if self.mdirect(em) else ""))
        if any(self.asked[b] for b in bs):
            self.tags.add("subclass-after-base-declared")
        return n

    def new_instance(self, c):
        self.inst.append(c)
        self.live.append(True)
        self.ops.append({"op": "NewInstance", "c": c})
        return len(self.inst) - 1

    def drop(self, o):
        self.live[o] = False
        self.ops.append({"op": "DropInstance", "o": o})
        self.tags.add("drop")

    def decorate(self, l, only=False):
        """mix declaration OBJECTS into an argument list and choose a nesting for the driver:
        directlyProvidedBy(t) of any live target; providedBy(t) of a target that has its own
        __provides__ (otherwise providedBy returns the live Implements of its class, which is
        outside the model); the *only* forms do not normalise their arguments: flat, no Provides"""
        rng = self.rng
        l = list(l)
        targets = [("i", o) for o in self.live_insts()] + [("c", c) for c in range(len(self.cbases))]
        # an *only* form keeps a Declaration argument as an element of ``declared`` even when it names no
        # interface (``declared`` is then truthy but empty of interfaces, which only matters for the
        # ``Interface`` special case): such a call gets a Declaration argument only next to an interface
        if targets and rng.random() < 0.22 and (l or not only):
            l.insert(rng.randrange(len(l) + 1), {"dpb": list(rng.choice(targets))})
            self.tags.add("arg-directlyProvidedBy")
        own = sorted(t for t in self.own if t[0] == "c" or self.live[t[1]])
        if own and not only and rng.random() < 0.15:
            l.insert(rng.randrange(len(l) + 1), {"prov": list(rng.choice(own))})
            self.tags.add("arg-providedBy-object")
        nest = None
        if l and not only and rng.random() < 0.25:
            nest, left = [], len(l)
            while left > 0:
                n = rng.randint(1, left)
                nest.append(n if rng.random() < 0.7 else -n)
                left -= n
            self.tags.add("nested-args")
        return l, nest

    def class_op(self, kind, c, l, plain=False):
        if kind == "ClassImplementsFirst":
            x = l[0] if l else self.rif()
            self.ops.append({"op": kind, "c": c, "x": x})
            self.asked[c] = self.asked[c] + [x]
        else:
            ints = list(l)
            l, nest = (list(l), None) if plain else self.decorate(l, only=kind.endswith("Only"))
            self.ops.append({"op": kind, "c": c, "l": l, "nest": nest})
            if kind.endswith("Only"):
                self.asked[c] = ints
                self.inherit[c] = False
                self.tags.add("only")
            else:
                self.asked[c] = self.asked[c] + ints
        self.tags.add("class-decl")

    def obj_op(self, kind, t, l, plain=False):
        if kind == "NoLongerProvides":
            x = l[0] if l else self.rif()
            self.ops.append({"op": kind, "t": list(t), "x": x})
            self.tags.add("nolonger")
        else:
            l, nest = (list(l), None) if plain else self.decorate(l)
            self.ops.append({"op": kind, "t": list(t), "l": l, "nest": nest})
        cls = self.inst[t[1]] if t[0] == "i" else t[1]
        if self.cbuiltin[cls] is None:
            self.own.add(tuple(t))
        self.tags.add("inst-decl" if t[0] == "i" else "classobj-decl")

    def random_op(self, protect=()):
        rng = self.rng
        nc, live = len(self.cbases), self.live_insts()
        if nc == 0:
            return self.new_class()
        w = []
        if nc < 5:
            w += ["class"] * 2
        if len(self.inst) < 6:
            w += ["inst"] * 3
        droppable = [o for o in live if o not in protect]
        if droppable:
            w += ["drop"]
        w += ["cdecl"] * 6 + ["cobj"] * (4 if self.metas else 2)
        if live:
            w += ["idecl"] * 9
        k = rng.choice(w)
        if k == "class":
            self.new_class()
        elif k == "inst":
            self.new_instance(rng.randrange(nc))
        elif k == "drop":
            self.drop(rng.choice(droppable))
        elif k == "cdecl":
            c = rng.randrange(nc)
            kind = rng.choice(CLASS_OPS + ["ClassImplements", "Implementer"])
            l = self.ilist(prefer=self.implied(c))
            if rng.random() < 0.45:
                # both halves of classImplements' before/after split are non-empty and survive
                # the elision, preferably on a class that inherits from its bases
                cands = [x for x in range(nc) if self.inherit[x] and self.cbases[x] and self.asked[x]]
                c2 = rng.choice(cands) if cands and rng.random() < 0.7 else c
                imp = self.implied(c2)
                ni = len(self.ifaces)
                subs = [x for d in self.asked[c2] if d for x in range(1, ni) if x != d and d in self.up[x] and x not in imp]
                rest = [x for x in range(1, ni) if x not in imp and not any(d in self.up[x] for d in self.asked[c2] if d)]
                if subs and rest:
                    c = c2
                    kind = rng.choice(["ClassImplements", "Implementer"])
                    l = [rng.choice(subs), rng.choice(rest)] + l[:1]
                    rng.shuffle(l)
                    self.tags.add("before-after-split")
            self.class_op(kind, c, l)
        elif k == "cobj":
            withmeta = [x for x in range(nc) if self.cmeta[x] is not None]
            c = rng.choice(withmeta) if withmeta and rng.random() < 0.6 else rng.randrange(nc)
            md = self.mdirect(self.cmeta[c]) or []
            imp = set()
            for i in md:
                imp |= self.up[i]
            self.obj_op(rng.choice(OBJ_OPS), ("c", c), self.ilist(prefer=imp))
        else:
            o = rng.choice(live)
            self.obj_op(rng.choice(OBJ_OPS + ["DirectlyProvides", "AlsoProvides"]), ("i", o),
                        self.ilist(prefer=self.implied(self.inst[o])))

    def maybe_super(self):
        if self.ops and self.rng.random() < 0.22 and "qs_fixed" not in self.ops[-1]:
            qs = self.super_queries(self.rng.choice([1, 1, 2, 3]))
            if qs:
                self.ops[-1]["qs_fixed"] = qs
                self.tags.add("super-proxy")

    def mro_rest(self, d, b):
        """ids of the classes after b in the MRO of class d (``object`` and foreign classes left out)"""
        mro = list(self.pyc[d].__mro__)
        if self.pyc[b] not in mro:
            return None
        tail = mro[mro.index(self.pyc[b]) + 1:]
        return [self.pyc.index(k) for k in tail if k in self.pyc]

    def super_queries(self, n=2):
        """random super(B, x) proxies over live instances / classes"""
        rng = self.rng
        out = []
        targets = [("i", o) for o in self.live_insts() if self.cbuiltin[self.inst[o]] is None] + \
                  [("c", c) for c in range(len(self.cbases)) if self.cbuiltin[c] is None]
        for _ in range(n):
            if not targets:
                break
            t = rng.choice(targets)
            d = self.inst[t[1]] if t[0] == "i" else t[1]
            cands = [self.pyc.index(k) for k in self.pyc[d].__mro__ if k in self.pyc and self.cbuiltin[self.pyc.index(k)] is None]
            b = rng.choice(cands)
            out.append([b, list(t), self.mro_rest(d, b)])
        return out

    def super_shape(self):
        """Leaf1(View, Mixin1), Leaf2(View, Mixin2), View(Root): super(View, leaf1) and
        super(View, leaf2) share View and the class after it but not the rest of the MRO"""
        rng = self.rng
        ni = len(self.ifaces)
        if len(self.cbases) > 1:
            return
        mk = lambda bases: self.new_class(bases, plain=True)
        root = mk([]); view = mk([root]); m1 = mk([]); m2 = mk([])
        for c in (root, view, m1, m2):
            if rng.random() < 0.85:
                self.class_op(rng.choice(["Implementer", "ClassImplements"]), c, [self.rif()], plain=True)
        l1 = mk([view, m1]); l2 = mk([view, m2])
        o1 = self.new_instance(l1); o2 = self.new_instance(l2)
        t1 = ("i", o1) if rng.random() < 0.6 else ("c", l1)
        t2 = ("i", o2) if rng.random() < 0.6 else ("c", l2)
        q1 = [view, list(t1), self.mro_rest(l1, view)]
        q2 = [view, list(t2), self.mro_rest(l2, view)]
        first, second = (q1, q2) if rng.random() < 0.5 else (q2, q1)
        self.ops[-1]["qs_fixed"] = [first]
        if rng.random() < 0.5:
            self.class_op(rng.choice(["Implementer", "ClassImplementsOnly", "ClassImplementsFirst"]),
                          rng.choice([m1, m2, root, view]), [self.rif()], plain=True)
        else:
            self.new_instance(rng.choice([l1, l2]))
        self.ops[-1]["qs_fixed"] = [second, first]
        self.tags.add("super-siblings")

    def split_shape(self, filler):
        """classImplements with both halves of its before/after split non-empty, on a class that
        inherits interfaces from a base: B implements X; C(B) declares d; classImplements(C, sub-of-d, y)"""
        rng = self.rng
        ni = len(self.ifaces)
        pairs = [(d, x) for d in range(1, ni) for x in range(1, ni) if x != d and d in self.up[x]]
        if not pairs or len(self.cbases) >= 4:
            return
        d, sub = rng.choice(pairs)
        b = self.new_class([])
        if self.cbuiltin[b] is not None or not self.inherit[b]:
            return
        xs = [x for x in range(1, ni) if x not in self.up[sub] and sub not in self.up[x]]
        inh = rng.choice(xs) if xs else self.rif()
        self.class_op(rng.choice(["Implementer", "ClassImplements"]), b, [inh], plain=True)
        filler()
        c = self.new_class([b])
        if self.cbuiltin[c] is not None or not self.inherit[c]:
            return
        self.class_op(rng.choice(["Implementer", "ClassImplements", "ClassImplementsFirst"]), c, [d], plain=True)
        filler()
        implied = self.implied(c)
        rest = [x for x in range(1, ni) if x not in implied and d not in self.up[x]]
        if sub in implied or not rest:
            return
        l = [sub, rng.choice(rest)]
        rng.shuffle(l)
        self.class_op(rng.choice(["Implementer", "ClassImplements"]), c, l, plain=True)
        self.tags.add("before-after-split")
        self.tags.add("split-shape")
        if rng.random() < 0.6 and len(self.inst) < 6:
            self.new_instance(c)

    def stale_shape(self, filler):
        """instance declaration; the class (or a class it inherits from) is narrowed or widened;
        another instance of the class is declared with the same arguments"""
        rng = self.rng
        nc = len(self.cbases)
        if nc == 0 or (nc < 5 and rng.random() < 0.4):
            c = self.new_class()
        else:
            with_base = [c for c in range(nc) if len(self.chain(c)) > 1]
            c = rng.choice(with_base) if with_base and rng.random() < 0.6 else rng.randrange(nc)
        chain = self.chain(c)
        k = rng.choice(chain[1:]) if len(chain) > 1 and rng.random() < 0.55 else c
        if k != c:
            self.tags.add("stale-shape-via-base")
        ni = len(self.ifaces)
        variant = rng.choice(["narrow", "narrow", "narrow", "widen"])
        implied = self.implied(c)
        if variant == "narrow":
            if implied - {0} and rng.random() < 0.7:
                i = rng.choice(sorted(implied - {0}))
            else:
                i = rng.randrange(1, ni)
                self.class_op(rng.choice(["Implementer", "ClassImplements", "ClassImplementsFirst"]), k, [i])
                # something a base of i extends is implied as well
                i = rng.choice(sorted(self.up[i] - {0}))
        else:
            free = [x for x in range(1, ni) if x not in implied]
            i = rng.choice(free) if free else rng.randrange(1, ni)
        args = [i] + [x for x in self.ilist(maxn=1) if x != i]
        rng.shuffle(args)
        filler()
        if len(self.inst) >= 5:
            cands = [o for o in self.live_insts() if self.inst[o] == c]
            a = rng.choice(cands) if cands else None
        else:
            a = None
        if a is None:
            if len(self.inst) >= 6:
                return
            a = self.new_instance(c)
        self.obj_op(rng.choice(["DirectlyProvides", "DirectlyProvides", "Provider"]), ("i", a), args, plain=True)
        filler(protect=(a,))
        if variant == "narrow":
            others = [x for x in range(1, ni) if i not in self.up[x]]
            kind = rng.choice(["ClassImplementsOnly", "ImplementerOnly"])
            l = [rng.choice(others)] if others and rng.random() < 0.7 else []
            self.class_op(kind, k, l)
            if k != c and rng.random() < 0.3:
                # the subclass itself stops inheriting instead
                pass
        else:
            self.class_op(rng.choice(["Implementer", "ClassImplements", "ClassImplementsFirst"]), k,
                          [rng.choice([x for x in range(1, ni) if i in self.up[x]])])
        filler(protect=(a,))
        cands = [o for o in self.live_insts() if self.inst[o] == c and o != a]
        if len(self.inst) < 6 and (not cands or rng.random() < 0.7):
            b = self.new_instance(c)
        elif cands:
            b = rng.choice(cands)
        else:
            return
        self.obj_op(rng.choice(["DirectlyProvides", "AlsoProvides"]) if b == len(self.inst) - 1 else "DirectlyProvides",
                    ("i", b), args, plain=True)
        self.tags.add("stale-shape-" + variant)
        if variant == "widen" and rng.random() < 0.7:
            filler(protect=(a, b))
            self.class_op(rng.choice(["ClassImplementsOnly", "ImplementerOnly"]), k, [])


def _gen_case(rng, tier):
    sim = _Sim(rng, rng.randint(2, 6))
    nops = rng.choice([3, 5, 8, 12, 16, 20, 25, 30])
    shape = rng.random() < 0.55

    def filler(protect=()):
        for _ in range(rng.choice([0, 0, 0, 1, 1, 2])):
            if len(sim.ops) < 28:
                sim.random_op(protect)

    if rng.random() < 0.14:
        sim.super_shape()
    else:
        sim.new_class([])
    if rng.random() < 0.22:
        sim.split_shape(filler)
    if shape:
        pre = rng.randint(0, max(0, nops - 8))
        while len(sim.ops) < pre:
            sim.random_op()
        sim.stale_shape(filler)
    while len(sim.ops) < nops:
        sim.random_op()
        sim.maybe_super()
    ops = sim.ops[:30]
    allq = rng.random() < 0.4
    ncls = ninst = 0
    for k, o in enumerate(ops):
        if o["op"] == "NewClass":
            ncls += 1
        if o["op"] == "NewInstance":
            ninst += 1
        last = k == len(ops) - 1
        if allq or last:
            o["q"] = True
        elif rng.random() < 0.5:
            # a subset: which first queries happen when is part of the history
            o["q"] = {"i": [x for x in range(ninst) if rng.random() < 0.4],
                      "c": [x for x in range(ncls) if rng.random() < 0.3]}
        else:
            o["q"] = False
        # the class objects alone, before anything at this step computes implementedBy(cls)
        # super proxies (random ones are chosen on a replay of the history's class / instance sets)
        if o.get("qs_fixed"):
            o["qs"] = o.pop("qs_fixed")
        r = rng.random()
        o["qp"] = True if r < 0.4 else ([x for x in range(ncls) if rng.random() < 0.5] if r < 0.65 else False)
    if not allq:
        sim.tags.add("sparse-queries")
    return {"ifaces": sim.ifaces, "metas": sim.metas, "ops": ops, "tags": sorted(sim.tags), "rooted": True}


WITNESS = {  # the 5-op history of the fixed finding F1 (with creations spelled out)
    "ifaces": [[], []],
    "ops": [{"op": "NewClass", "bases": [], "q": True}, {"op": "Implementer", "c": 0, "l": [0], "q": True},
            {"op": "NewInstance", "c": 0, "q": True}, {"op": "DirectlyProvides", "t": ["i", 0], "l": [0], "q": True},
            {"op": "ClassImplementsOnly", "c": 0, "l": [1], "q": True}, {"op": "NewInstance", "c": 0, "q": True},
            {"op": "DirectlyProvides", "t": ["i", 1], "l": [0], "q": True}],
    "tags": ["witness-F1"],
}


def generate(run, tier):
    rng = run.rng("gen")
    n = 1200 if tier == "quick" else 12000
    return [_gen_case(rng, tier) for _ in range(n)]


# ---------------------------------------------------------------- Coq terms

def _l(xs):
    return C.clist(["%d" % x for x in xs])


def _t(t):
    return "(TInst %d)" % t[1] if t[0] == "i" else "(TCls %d)" % t[1]


def _args(l):
    out = []
    for a in l:
        if isinstance(a, int):
            out.append("AI %d" % a)
        elif "dpb" in a:
            out.append("ADirectlyProvidedBy %s" % _t(a["dpb"]))
        else:
            out.append("AProvidedBy %s" % _t(a["prov"]))
    return C.clist(out)


def _op(o):
    k = o["op"]
    if k == "NewClass":
        md = o.get("md")
        old = o.get("old")
        return "(NewClass %s %s %s %s)" % (_l(o["bases"]), "None" if md is None else "(Some %s)" % _l(md),
                                           C.cbool(o.get("bi") is not None),
                                           "None" if old is None else "(Some %s)" % _l(old))
    if k == "NewInstance":
        return "(NewInstance %d)" % o["c"]
    if k == "DropInstance":
        return "(DropInstance %d)" % o["o"]
    if k == "ClassImplementsFirst":
        return "(ClassImplementsFirst %d %d)" % (o["c"], o["x"])
    if k in CLASS_OPS:
        return "(%s %d %s)" % (k, o["c"], _args(o["l"]))
    if k == "NoLongerProvides":
        return "(NoLongerProvides %s %d)" % (_t(o["t"]), o["x"])
    return "(%s %s %s)" % (k, _t(o["t"]), _args(o["l"]))


def _q(q):
    if q is None:
        return "None"
    inst = C.clist(["(%d, %d, %d, %s)" % (a[0], a[1], a[2], _l(a[3])) for a in q["inst"]])
    cls = C.clist(["(%d, %d, %d, %d, %d, %s)" % (a[0], a[1], a[2], a[3], a[4], _l(a[5])) for a in q["cls"]])
    return "(Some (%s, %s))" % (inst, cls)


def _cp(cp):
    if cp is None:
        return "None"
    return "(Some %s)" % C.clist(["(%d, %d, %d, %s)" % (a[0], a[1], a[2], _l(a[3])) for a in cp])


def _sp(sp):
    return C.clist(["(%s, %d, %d, %d)" % (_l(a[0]), a[1], a[2], a[3]) for a in (sp or [])])


def rooted(case):
    """cases written before ``Interface`` became interface 0 are renumbered (every interface + 1)"""
    if case.get("rooted"):
        return case
    c = json.loads(json.dumps(case))
    c["ifaces"] = [[]] + [[b + 1 for b in bs] or [0] for bs in c["ifaces"]]
    for m in c.get("metas", []):
        m["l"] = [i + 1 for i in m["l"]]
    for o in c["ops"]:
        if "l" in o:
            o["l"] = [a + 1 if isinstance(a, int) else a for a in o["l"]]
        if "x" in o:
            o["x"] += 1
        if o.get("old") is not None:
            o["old"] = [i + 1 for i in o["old"]]
        if o.get("md") is not None:
            o["md"] = [i + 1 for i in o["md"]]
    c["rooted"] = True
    return c


def coq_case(case, obs, mode):
    case = rooted(case)
    steps = obs.get("steps", [])
    ops = case["ops"]
    if len(steps) != len(ops):   # the driver lost the case: make both checks fail
        steps = [{"exc": 9, "q": None, "cp": None, "sp": []} for _ in ops]
    body = C.clist(["(%s, (%d, %s, %s, %s))" % (_op(o), s["exc"], _q(s["q"]), _cp(s.get("cp")), _sp(s.get("sp")))
                    for o, s in zip(ops, steps)])
    g = C.clist([_l(b) for b in case["ifaces"]])
    return "(%s, %s)" % (g, body)


def classify(case, obs):
    tags = set(case.get("tags", []))
    if not ({"inst-decl", "class-decl"} <= tags or "witness-F1" in tags):
        return None
    n = len(case["ops"])
    return (tuple(sorted(tags)), 0 if n <= 8 else 1 if n <= 16 else 2)


def kind(case, obs):
    tags = case.get("tags", [])
    if any(t.startswith("stale-shape-") and t != "stale-shape-via-base" for t in tags):
        return "stale-shape" + ("-via-base" if "stale-shape-via-base" in tags else "")
    return "random"


def _py_op(o):
    k = o["op"]
    T = lambda t: ("o%d" if t[0] == "i" else "C%d") % t[1]

    def A(a):
        if isinstance(a, int):
            return "I%d" % a
        return ("directlyProvidedBy(%s)" if "dpb" in a else "providedBy(%s)") % T(a.get("dpb") or a.get("prov"))

    def I(l):
        items = [A(a) for a in l]
        nest = o.get("nest")
        if nest:
            grouped, pos = [], 0
            for k, n in enumerate(nest):
                chunk = items[pos:pos + abs(n)]
                pos += abs(n)
                if n < 0:
                    grouped.extend(chunk)
                else:
                    tup = "(" + "".join(x + ", " for x in chunk) + ")"
                    grouped.append(tup if k % 2 else "[" + tup + "]")
            items = grouped + items[pos:]
        return ", ".join(items)
    if k == "NewClass":
        if o.get("bi") is not None:
            return "C%%d = %s    # %%d" % BUILTIN_POOL[o["bi"]].__name__
        body = {"bool": "{'__bool__': lambda self: False}", "len": "{'__len__': lambda self: 0}"}.get(o.get("ifalsy"), "{}")
        if o.get("old") is not None:
            items = ["I%d" % i for i in o["old"]]
            shape = o.get("oldshape", "tuple")
            if shape == "single" and len(items) == 1:
                v = items[0]
            elif shape == "nested":
                v = "((%s), [(%s)])" % ("".join(x + ", " for x in items[:1]), "".join(x + ", " for x in items[1:]))
            else:
                v = "(" + "".join(x + ", " for x in items) + ")"
            body = "{'__implemented__': %s%s" % (v, "}" if body == "{}" else ", " + body[1:])
        return "C%%d = %s('C%%d', (%s), %s)" % ("type" if o.get("m") is None else "M%d" % o["m"],
                                                "".join("C%d, " % b for b in o["bases"]) or "object,", body)
    if k == "NewInstance":
        return "o%%d = C%d()" % o["c"]
    if k == "DropInstance":
        return "del o%d; gc.collect()" % o["o"]
    if k == "Implementer":
        return "implementer(%s)(C%d)" % (I(o["l"]), o["c"])
    if k == "ImplementerOnly":
        return "implementer_only(%s)(C%d)" % (I(o["l"]), o["c"])
    if k == "ClassImplementsFirst":
        return "classImplementsFirst(C%d, I%d)" % (o["c"], o["x"])
    if k in ("ClassImplements", "ClassImplementsOnly"):
        return "%s(C%d%s)" % (k[0].lower() + k[1:], o["c"], "".join(", " + x for x in [I(o["l"])] if x))
    if k == "NoLongerProvides":
        return "noLongerProvides(%s, I%d)" % (T(o["t"]), o["x"])
    if k == "Provider":
        return "provider(%s)(%s)" % (I(o["l"]), T(o["t"]))
    return "%s(%s%s)" % (k[0].lower() + k[1:], T(o["t"]), "".join(", " + x for x in [I(o["l"])] if x))


def replay_text(case, obs, mode):
    lines = ["# PURE_PYTHON=%s" % ("1" if mode == "py" else "0"), "import gc",
             "from zope.interface import *", "from zope.interface.interface import InterfaceClass"]
    for i, bs in enumerate(case["ifaces"]):
        if i == 0:
            lines.append("I0 = Interface")
            continue
        lines.append("I%d = InterfaceClass('I%d', (%s), {})" % (i, i, "".join("I%d, " % b for b in bs) or "Interface,"))
    for k, m in enumerate(case.get("metas", [])):
        fb = {"bool": "{'__bool__': lambda self: False}", "len": "{'__len__': lambda self: 0}"}.get(m.get("falsy"), "{}")
        lines.append("M%d = type('M%d', (%s), %s)" % (k, k, "".join("M%d, " % b for b in m["bases"]) or "type,", fb))
        if m.get("call", True):
            lines.append("implementer(%s)(M%d)" % (", ".join("I%d" % i for i in m["l"]), k))
    nc = no = 0
    steps = obs.get("steps", [])
    for k, o in enumerate(case["ops"]):
        s = _py_op(o)
        if o["op"] == "NewClass":
            s = s % (nc, nc)
            nc += 1
        elif o["op"] == "NewInstance":
            s = s % no
            no += 1
        if k < len(steps):
            st = steps[k]
            s += "    # step %d" % k + (" raised %s" % st.get("excname") if st["exc"] else "")
            if st.get("sp"):
                s += "  super proxies %s -> [rest of MRO, implementedBy, providedBy, I.providedBy]=%s;" % (
                    ", ".join("super(C%d, %s)" % (b, ("o%d" if t[0] == "i" else "C%d") % t[1]) for b, t, _r in (o.get("qs") or [])),
                    json.dumps(st["sp"]))
            if st.get("cp") is not None:
                s += "  class objects first [c, providedBy(C), I.providedBy(C), directlyProvidedBy(C)]=%s;" % json.dumps(st["cp"])
            if st["q"] is not None:
                s += "  observed inst[o, providedBy, I.providedBy, directlyProvidedBy]=%s cls[c, implementedBy, I.implementedBy, providedBy(C), I.providedBy(C), directlyProvidedBy(C)]=%s (sets as bit masks)" % (
                    json.dumps(st["q"]["inst"]), json.dumps(st["q"]["cls"]))
        lines.append(s)
    return "\n".join(lines)


def finding_key(case, obs, mode):
    return None


# ---------------------------------------------------------------- shrinking of a violating history

def _arg_targets(x):
    return [a.get("dpb") or a.get("prov") for a in x.get("l", []) if isinstance(a, dict)]


def _renumber_args(x, kind, n):
    """drop nothing, shift the references above the removed object; None if it is referenced"""
    out = []
    for a in x.get("l", []):
        if isinstance(a, dict):
            key = "dpb" if "dpb" in a else "prov"
            t = a[key]
            if t[0] == kind:
                if t[1] == n:
                    return None
                if t[1] > n:
                    a = {key: [kind, t[1] - 1]}
        out.append(a)
    return out


def _renumber_qs(x, kind, n):
    """super queries of a step after object (kind, n) is removed; None if one refers to it"""
    out = []
    for b, t, rest in x.get("qs") or []:
        if kind == "i":
            if t[0] == "i":
                if t[1] == n:
                    continue
                if t[1] > n:
                    t = ["i", t[1] - 1]
        else:
            if b == n or n in rest or (t[0] == "c" and t[1] == n):
                return None
            b = b - 1 if b > n else b
            rest = [r - 1 if r > n else r for r in rest]
            if t[0] == "c" and t[1] > n:
                t = ["c", t[1] - 1]
        out.append([b, t, rest])
    return out


def _valid(ops):
    """providedBy(t) arguments need a t that already has its own __provides__"""
    own = set()
    for x in ops:
        for a in x.get("l", []):
            if isinstance(a, dict) and "prov" in a and tuple(a["prov"]) not in own:
                return False
        if x["op"] in OBJ_OPS:
            own.add(tuple(x["t"]))
    return True


def _remove(ops, k):
    """history without step k; removing a creation removes everything that refers to the
    created class / instance and renumbers the rest"""
    out = _remove0(ops, k)
    if out is None or not _valid(out):
        return None
    return out


def _remove0(ops, k):
    o = ops[k]
    rest = [dict(x) for j, x in enumerate(ops) if j != k]
    if o["op"] == "NewInstance":
        n = sum(1 for x in ops[:k] if x["op"] == "NewInstance")
        out = []
        for x in rest:
            if x.get("qs"):
                x["qs"] = _renumber_qs(x, "i", n)
            if "l" in x:
                x["l"] = _renumber_args(x, "i", n)
                if x["l"] is None:
                    return None
            if x["op"] == "DropInstance":
                if x["o"] == n:
                    continue
                if x["o"] > n:
                    x["o"] -= 1
            elif "t" in x and x["t"][0] == "i":
                if x["t"][1] == n:
                    continue
                if x["t"][1] > n:
                    x["t"] = ["i", x["t"][1] - 1]
            out.append(x)
        return out
    if o["op"] == "NewClass":
        n = sum(1 for x in ops[:k] if x["op"] == "NewClass")
        if any(x["op"] == "NewInstance" and x["c"] == n for x in rest):
            return None
        if any(x["op"] == "NewClass" and n in x["bases"] for x in rest):
            return None   # a subclass may inherit its metaclass from this class
        out = []
        for x in rest:
            if x.get("qs"):
                x["qs"] = _renumber_qs(x, "c", n)
                if x["qs"] is None:
                    return None
            if "l" in x:
                x["l"] = _renumber_args(x, "c", n)
                if x["l"] is None:
                    return None
            if x["op"] == "NewClass":
                x["bases"] = [b - 1 if b > n else b for b in x["bases"] if b != n]
            elif x["op"] == "NewInstance":
                if x["c"] > n:
                    x["c"] -= 1
            elif "c" in x:
                if x["c"] == n:
                    continue
                if x["c"] > n:
                    x["c"] -= 1
            elif "t" in x and x["t"][0] == "c":
                if x["t"][1] == n:
                    continue
                if x["t"][1] > n:
                    x["t"] = ["c", x["t"][1] - 1]
            out.append(x)
        return out
    return rest


def _violates(impl, cands, mode):
    """indices of candidate cases on which the implementation still contradicts the Spec
    (without any unexpected exception)"""
    st, res = impl.run(DRIVER, {"cases": cands}, mode, timeout=300)
    if st != "ok":
        return [], None
    obs = res["obs"]
    terms = [coq_case(c, o, mode) for c, o in zip(cands, obs)]
    _bm, bad_spec, errors = C.coq_eval_cases(TIE, terms, shard=max(1, len(terms)))
    if errors:
        return [], None
    good = [j for j in bad_spec
            if len(obs[j].get("steps", [])) == len(cands[j]["ops"]) and all(s["exc"] != 9 for s in obs[j]["steps"])]
    return good, obs


def shrink(impl, case, mode, rounds=14):
    cur = case
    cur_obs = None
    for _ in range(rounds):
        cands = []
        for k in range(len(cur["ops"])):
            ops = _remove(cur["ops"], k)
            if ops:
                ops[-1]["q"] = True
                cands.append({"ifaces": cur["ifaces"], "metas": cur.get("metas", []), "ops": ops, "tags": ["shrunk"],
                              "rooted": cur.get("rooted")})
        if not cands:
            break
        good, obs = _violates(impl, cands, mode)
        if not good:
            break
        # prefer the shortest candidate (removing a creation removes several steps)
        j = min(good, key=lambda j: len(cands[j]["ops"]))
        cur, cur_obs = cands[j], obs[j]
    return cur, cur_obs


def extra(run, impl, known):
    """Minimise the first concrete violation (delta debugging on the history) and store the
    result in its replay file."""
    for v in run.violations:
        if v.get("no_input"):
            continue
        try:
            with open(v["replay"]) as fh:
                rp = json.load(fh)
            if "case" not in rp or "mode" not in rp:
                continue
            small, obs = shrink(impl, rp["case"], rp["mode"])
            if obs is not None:
                rp["minimised_case"] = small
                rp["minimised_python"] = replay_text(small, obs, rp["mode"])
                with open(v["replay"], "w") as fh:
                    json.dump(rp, fh, indent=1, sort_keys=True, default=str)
                run.coverage["minimised_violation_steps"] = len(small["ops"])
        except Exception as e:   # shrinking is a convenience, never a verdict
            run.coverage["shrink_error"] = repr(e)[:300]
        break


TECHNIQUE = ("Coq proof by induction over histories of a Gallina model of declarations.py (class specifications, "
             "Provides stripping, the InstanceDeclarations cache with eviction) against an abstract ledger; the eleven "
             "kernel functions are re-translated from the source text on every run (fail-closed ast translator) and proved "
             "equal to the model; vm_compute correspondence with both implementations and a ledger-sandwich oracle on the "
             "implementation's answers")
LEVEL_TEXT = ("Machine-checked theorems (Properties/C01.v, 30 theorems, closed under the global context) state for every "
              "history of the nine declaration calls, class/instance creation and drops that the model's providedBy/"
              "implementedBy answers equal the ledger's lower bound and lie in the admissible sandwich, that declarations "
              "on other instances never matter (history-level non-interference, which needs the cache eviction: refuted for "
              "the model without it), and that class-object declarations never leak to instances; thirteen "
              "C01_generated_* theorems state that _classImplements_ordered, classImplements, classImplementsOnly, "
              "classImplementsFirst, _add_interfaces_to_cls, the Provides factory, Provides.changed, directlyProvides, "
              "alsoProvides, noLongerProvides and directlyProvidedBy AS TRANSLATED FROM THE CURRENT SOURCE TEXT equal the "
              "model's definitions on every state, and implementedBy itself (dict lookup, builtin table, creation from the "
              "bases' specifications, the store) equals the lazy-creation model; C01_lazy_* theorems state that lazy "
              "creation and any interleaving of first queries are invisible; the model is also compared with the C and Python implementations on "
              "generated histories on every run and the implementation's raw answers are judged by the ledger inside Coq.")
LEVEL_NOTE = ("Trusted: Coq kernel/vm_compute; the translator and the object-protocol primitives it targets; 'implied = "
              "reachable' (C02/C03) as working definition; CPython's MRO for super proxies; no weak death of cache "
              "entries in the model (validated by the tie: drops + gc). Lazy creation of specifications (incl. built-in "
              "types and old-style __implemented__) is modelled in Model/DeclLazy.v and proved invisible. Hand-modelled, "
              "not translated: the security-proxy / super() / non-class paths of implementedBy and its try/except shapes "
              "(the except-TypeError store is read as 'immutable type'), _implementedBy_super and its cache, "
              "Specification.changed propagation, Provides/ClassProvides constructors, _normalizeargs (flattening), "
              "Declaration.__sub__, the descriptor protocol, providedBy. Not modelled: Implements objects as arguments "
              "(they stay live nodes of the specification graph and can close cycles), declarations on a metaclass "
              "during the history.")
