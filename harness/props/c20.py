"""C20 — declaration algebra: iteration, membership, + and - obey ordered-set laws."""
import os

from .. import common as C
from ..translate import declalg as TR

ID = "C20"
COQ_TARGETS = ["Tie/C20.vo", "Properties/C20.vo"]
PROPERTY_FILE = "Properties/C20.v"
TIE = "Tie.C20"
DRIVER = "c20_driver.py"
SHARD = 12
THEOREMS = [
    "C20_dedupe_keeps_first", "C20_iter_exact", "C20_contains_iff_iter", "C20_extends_is_reachability", "C20_flattened_members",
    "C20_flattened_members_nonempty", "C20_sub_spec", "C20_sub_members", "C20_add_members", "C20_add_spec",
    "C20_add_extenders_of_A_in_front", "C20_add_as_worded_partial", "C20_add_as_worded_refuted",
    "C20_radd_is_add", "C20_operands_unchanged", "C20_alsoProvides_appends",
    "C20_noLongerProvides_removes_subinterfaces", "C20_noLongerProvides_exact",
    "C20_generated_extends_eq_model", "C20_generated_interfaces_eq_model", "C20_generated_normalizeargs_eq_model",
    "C20_generated_queries_eq_model", "C20_generated_sub_eq_model", "C20_generated_add_eq_model",
    "C20_generated_add_interfaces_to_cls_eq_model", "C20_generated_directlyProvidedBy_eq_model",
    "C20_generated_alsoProvides_eq_model", "C20_generated_noLongerProvides_eq_model",
]
GEN = os.path.join(C.COQ, "Gen", "DeclAlgKernel.v")
SRC_DECL = os.path.join(C.REPO, "src", "zope", "interface", "declarations.py")
SRC_IFACE = os.path.join(C.REPO, "src", "zope", "interface", "interface.py")


def regenerate(run):
    """Re-translate the declaration algebra of the current source into coq/Gen/DeclAlgKernel.v (fail closed)."""
    try:
        C.write_if_changed(GEN, TR.translate_files(SRC_DECL, SRC_IFACE))
        return []
    except Exception as e:  # refuse, report, keep the pipeline alive on the pinned kernel
        C.write_if_changed(GEN, TR.pinned())
        return ["harness/translate/declalg.py refused %s / %s (%s: %s); coq/Gen/DeclAlgKernel.v holds the pinned kernel, "
                "so the C20_generated_*_eq_model theorems are NOT about the current source"
                % (SRC_DECL, SRC_IFACE, type(e).__name__, e)]


RULE = ("per case: an interface DAG (<= 7 interfaces + Interface; chains, diamonds, explicit/implicit root, "
        "inconsistent orders), 1-3 classes with declarations, 4-6 operand declarations built from argument trees of "
        "depth <= 3 (tuples, lists, one-shot iterables (generator / iter() / map) at any depth, inline Declarations, references to earlier Declarations, implementedBy(cls) leaves "
        "and operands, implementedBy/providedBy(super(B, ob)) operands for self classes sharing B, equal-but-distinct twin "
        "interfaces as probes for `in`, optional re-basing of interfaces between building some operands and "
        "observing), all ordered pairs for - and +; a case is non-trivial when some + put an interface in front "
        "and some - removed a strict sub-interface; distinct = distinct (sizes, feature flags) signature")
TRUSTED_BASE = ["Model/Ro.v as the transcription of ro.py / _calculate_sro (validated here through flattened() and "
                "every extends decision)",
                "harness/translate/declalg.py: the reading of the Python subset it accepts (for -> fold_left over the mutated "
                "variables, comprehensions -> filter/map, any -> existsb, list truthiness -> nonempty, set/dict-as-set -> list, "
                "a Declaration object = its __bases__, a class = its specification) and the instantiation of the abstract "
                "vocabulary spelled out in the C20_generated_* statements; the C versions of isOrExtends / providedBy / "
                "implementedBy are tied by the correspondence only"]
ASSUMPTIONS = ["the theorems speak about one specification graph; when interfaces are re-based while declarations are alive, "
               "that is the CURRENT graph: the correspondence re-bases between building operands and observing, and the "
               "propagation of the change itself is C02's subject",
               "interface names unique, so == is identity",
               "non-strict resolution orders (ZOPE_INTERFACE_STRICT_IRO unset)"]


# --------------------------------------------------------------------------- generation

def _gen_ifaces(rng, n):
    ifaces = []
    for i in range(1, n + 1):
        lower = list(range(1, i))
        r = rng.random()
        if not lower or r < 0.2:
            bs = []
        elif r < 0.6:
            bs = [rng.choice(lower)]
        else:
            bs = rng.sample(lower, min(len(lower), rng.choice([2, 2, 3])))
            if rng.random() < 0.6:
                bs.sort(reverse=True)
        if not bs:
            bs = [0] if rng.random() < 0.9 else []
        elif rng.random() < 0.08:
            bs.insert(rng.randrange(len(bs) + 1), 0)
        ifaces.append(bs)
    return ifaces


# how the driver renders a Seq node: tuples / lists, and ONE-SHOT iterables (generator expression,
# iter(list), map object) that can be traversed only once
SEQ_KINDS = ["tuple", "list", "tuple", "list", "gen", "iter", "map"]


def _gen_tree(rng, depth, n, class_nodes, ndecl):
    r = rng.random()
    if depth <= 0 or r < 0.5:
        if class_nodes and rng.random() < 0.1:
            return {"l": rng.choice(class_nodes)}
        return {"l": rng.randrange(0, n + 1) if rng.random() < 0.08 else rng.randrange(1, n + 1)}
    if r < 0.75:
        return {"s": [_gen_tree(rng, depth - 1, n, class_nodes, ndecl) for _ in range(rng.choice([0, 1, 2, 2, 3]))],
                "t": rng.choice(SEQ_KINDS)}
    if r < 0.9 or not ndecl:
        return {"d": [_gen_tree(rng, depth - 1, n, class_nodes, ndecl) for _ in range(rng.choice([0, 1, 2, 2, 3]))]}
    return {"r": rng.randrange(ndecl)}


def _mro_nodes(classes, n, node):
    """CPython's own MRO of the class behind specification ``node`` (plain classes built here, in the
    harness process, without zope.interface), as specification nodes; object = n + 1"""
    built = {n + 1: object}
    for k, cd in enumerate(classes):
        built[n + 2 + k] = type("K%d" % k, tuple(built[b] for b in cd["bases"]) or (object,), {})
    back = {v: k for k, v in built.items()}
    return [back[c] for c in built[node].__mro__]


def _gen_supers(rng, classes, n, count):
    """(this, self) pairs; preferably one ``this`` class shared by two different self classes"""
    nodes = [n + 2 + k for k in range(len(classes))]
    mros = {x: _mro_nodes(classes, n, x) for x in nodes}
    pairs = [(b, s) for s in nodes for b in mros[s] if b != n + 1]
    by_this = {}
    for b, s in pairs:
        by_this.setdefault(b, []).append(s)
    shared = [b for b, ss in by_this.items() if len(ss) >= 2]
    chosen = []
    if shared and rng.random() < 0.8:
        b = rng.choice(shared)
        chosen = [(b, s) for s in rng.sample(by_this[b], 2)]
    while len(chosen) < count and len(chosen) < len(pairs):
        pr = rng.choice(pairs)
        if pr not in chosen:
            chosen.append(pr)
    out = []
    for b, s in chosen[:count]:
        m = mros[s]
        out.append({"this": b, "self": s, "via": rng.choice(["implementedBy", "implementedBy", "providedBy"]),
                    "rem": m[m.index(b) + 1:]})
    return out


def _gen_case(rng, tier):
    n = rng.choice([1, 2, 3, 4, 5, 5, 6, 6, 7, 7])
    ifaces = _gen_ifaces(rng, n)
    obj = n + 1
    classes = [{"bases": [], "decl": []}]
    falsy = rng.choice([None, None, "len", "bool"])      # falsy class objects (metaclass __len__ / __bool__)
    for k in range(1, rng.choice([1, 1, 2, 3, 4, 5])):
        prev = [n + 2 + j for j in range(k)]
        bs = sorted(rng.sample(prev, rng.choice([0, 1, 1, min(2, len(prev))])), reverse=True)
        # listing the younger class first is always a valid Python MRO here
        if bs or rng.random() < 0.3:
            decl = [rng.randrange(1, n + 1) for _ in range(rng.choice([0, 1, 1, 2]))]
            classes.append({"bases": bs, "decl": decl})
            if falsy and rng.random() < 0.5:
                classes[-1]["falsy"] = falsy
        else:
            # declared through nested / one-shot iterable arguments (no class-specification leaves, no references)
            classes.append({"bases": [], "decl": [], "via": rng.choice(["implementer", "classImplements"]),
                            "dtrees": [_gen_tree(rng, 2, n, [], 0) for _ in range(rng.choice([1, 1, 2, 3]))]})
    class_nodes = [n + 2 + k for k in range(len(classes))]
    supers = _gen_supers(rng, classes, n, rng.choice([0, 2, 2, 3])) if len(classes) > 1 else []
    super_nodes = [n + 2 + len(classes) + j for j in range(len(supers))]
    nd = rng.choice([4, 5, 6]) if tier == "quick" else rng.choice([5, 6, 7])
    decls = []
    for k in range(nd):
        if k < len(super_nodes):
            decls.append({"spec": super_nodes[k]})       # every super specification is an operand
        elif rng.random() < 0.12:
            decls.append({"spec": rng.choice(class_nodes + [obj])})
        elif rng.random() < 0.08:
            decls.append({"empty": True})        # the shared _empty singleton (directlyProvidedBy of a bare object)
        else:
            decls.append({"args": [_gen_tree(rng, 3, n, class_nodes, len(decls))
                                   for _ in range(rng.choice([0, 1, 2, 2, 3, 3, 4]))]})
    radd = [rng.randrange(0, n + 1) for _ in decls]
    cls = class_nodes[0] if rng.random() < 0.7 else rng.choice(class_nodes)
    ops = []
    for _ in range(rng.choice([3, 4, 5, 6])):
        r = rng.random()
        if r < 0.5:
            ops.append(["also", [_gen_tree(rng, 2, n, class_nodes, len(decls)) for _ in range(rng.choice([1, 1, 2, 3]))]])
        elif r < 0.85:
            ops.append(["nolonger", rng.randrange(0, n + 1) if rng.random() < 0.05 else rng.randrange(1, n + 1)])
        else:
            ops.append(["directly", [_gen_tree(rng, 2, n, class_nodes, len(decls)) for _ in range(rng.choice([0, 1, 2, 3]))]])
    case = {"ifaces": ifaces, "classes": classes, "supers": supers, "decls": decls, "radd": radd, "cls": cls, "ops": ops}
    if n >= 3 and rng.random() < 0.4:
        # re-base one or two interfaces after some of the operands exist (new bases keep the creation-order
        # numbering, so no cycle); mostly REMOVE something below a diamond
        steps = []
        for _ in range(rng.choice([1, 1, 2])):
            cands = [i for i in range(1, n + 1) if any(i in bs for bs in ifaces)] or list(range(1, n + 1))
            i = rng.choice(cands)
            old = ifaces[i - 1]
            r = rng.random()
            if r < 0.5:
                new = [0]
            elif r < 0.75 and len(old) > 1:
                drop = rng.choice(old)
                new = [b for b in old if b != drop]
            else:
                lower = list(range(1, i))
                new = rng.sample(lower, min(len(lower), rng.choice([1, 2]))) if lower else [0]
            steps.append([i, new])
        case["rebase"] = steps
        case["rebase_at"] = rng.randrange(len(supers), len(decls) + 1) if len(decls) >= len(supers) else 0
    return case


def _fixed_cases():
    """Hand-written shapes that every run must cover."""
    leaf = lambda x: {"l": x}
    cases = []
    # chain I1 <- I2 <- I3, unrelated I4; the wording witness: A=[I4], B=[I1, I2]
    ch = [[0], [1], [2], [0]]
    cases.append({"ifaces": ch, "classes": [{"bases": [], "decl": []}],
                  "decls": [{"args": [leaf(4)]}, {"args": [leaf(1), leaf(2)]}, {"args": [leaf(2), leaf(1)]},
                            {"args": [leaf(3), {"s": [leaf(1), {"s": [leaf(4), leaf(3)], "t": "list"}], "t": "tuple"}]},
                            {"args": [{"r": 1}, {"d": [leaf(3), leaf(1)]}]}, {"args": []}],
                  "radd": [1, 3, 4, 2, 1, 1], "cls": 6,
                  "ops": [["also", [leaf(1), leaf(3)]], ["also", [leaf(2), leaf(4)]], ["nolonger", 2],
                          ["also", [leaf(3)]], ["nolonger", 1], ["nolonger", 0]]})
    # diamond with classes implementing things
    dm = [[0], [1], [1], [2, 3], [0]]
    cases.append({"ifaces": dm, "classes": [{"bases": [], "decl": []}, {"bases": [], "decl": [2]},
                                            {"bases": [8], "decl": [5]}],
                  "decls": [{"spec": 9}, {"args": [leaf(4)]}, {"args": [leaf(9), leaf(3)]}, {"args": [leaf(1)]},
                            {"args": [{"r": 0}, leaf(5)]}, {"spec": 6}],
                  "radd": [4, 1, 2, 3, 5, 0], "cls": 9,
                  "ops": [["also", [leaf(4), leaf(5)]], ["nolonger", 3], ["directly", [leaf(8), leaf(3)]],
                          ["also", [leaf(4)]], ["nolonger", 1]]})
    # one-shot iterables (generator / iter() / map) as argument sequences, at several depths, in
    # Declaration(...), implementer / classImplements and the instance functions
    seq = lambda kind, *xs: {"s": list(xs), "t": kind}
    cases.append({"ifaces": ch,
                  "classes": [{"bases": [], "decl": []},
                              {"bases": [], "decl": [], "via": "classImplements", "dtrees": [seq("map", leaf(2), leaf(4))]},
                              {"bases": [], "decl": [], "via": "implementer",
                               "dtrees": [leaf(4), seq("gen", leaf(1), seq("iter", leaf(3)))]}],
                  "decls": [{"args": [leaf(3), seq("gen", leaf(2), leaf(1)), leaf(4)]},
                            {"args": [seq("iter", leaf(2), seq("tuple", leaf(3)), leaf(4))]},
                            {"args": [seq("map", leaf(1), leaf(2))]},
                            {"args": [seq("list", seq("gen", leaf(4), seq("map", leaf(1))), leaf(2))]},
                            {"spec": 7}, {"spec": 8}],
                  "radd": [1, 1, 3, 3, 1, 2], "cls": 6,
                  "ops": [["also", [seq("gen", leaf(1), leaf(2))]], ["directly", [seq("iter", leaf(3), leaf(4))]],
                          ["also", [seq("map", leaf(1), seq("gen", leaf(2)))]], ["nolonger", 1]]})
    # super specifications: diamond D(B, C) and linear E(B) over A, both asked through super(B, .) in one
    # process, in both orders; plus super(D, D()) and providedBy(super(...))
    flat = [[0], [0], [0], [0]]
    kl = [{"bases": [], "decl": []}, {"bases": [], "decl": [1]}, {"bases": [7], "decl": [2]}, {"bases": [7], "decl": [3]},
          {"bases": [8, 9], "decl": []}, {"bases": [8], "decl": [4]}]
    for order in ([(8, 11, "implementedBy"), (8, 10, "implementedBy"), (10, 10, "providedBy")],
                  [(8, 10, "providedBy"), (8, 11, "implementedBy"), (9, 10, "implementedBy")]):
        sup = []
        for b, s_, via in order:
            m = _mro_nodes(kl, 4, s_)
            sup.append({"this": b, "self": s_, "via": via, "rem": m[m.index(b) + 1:]})
        cases.append({"ifaces": flat, "classes": kl, "supers": sup,
                      "decls": [{"spec": 12}, {"spec": 13}, {"spec": 14}, {"spec": 10}, {"args": [leaf(3), leaf(1)]},
                                {"args": [leaf(11)]}],
                      "radd": [1, 2, 3, 4, 1, 2], "cls": 10,
                      "ops": [["also", [leaf(4)]], ["nolonger", 4], ["also", [leaf(2), leaf(4)]]]})
    # re-basing below a diamond: IExtra <- IRoot <- ILeft, IRight <- IBoth; then IRoot.__bases__ = (Interface,)
    # with operands built before and after the change
    cases.append({"ifaces": [[0], [1], [2], [2], [3, 4]], "classes": [{"bases": [], "decl": []}, {"bases": [], "decl": [5]}],
                  "decls": [{"args": [leaf(3), leaf(4)]}, {"args": [leaf(5)]}, {"args": [leaf(1)]}, {"spec": 8},
                            {"args": [leaf(3), leaf(4)]}, {"args": [leaf(5), leaf(1)]}],
                  "rebase": [[2, [0]]], "rebase_at": 4,
                  "radd": [1, 1, 5, 1, 1, 2], "cls": 7,
                  "ops": [["also", [leaf(5), leaf(1)]], ["nolonger", 1], ["also", [leaf(1)]], ["nolonger", 2]]})
    # C3-inconsistent declarations: the legacy order is what flattened() must give
    cases.append({"ifaces": [[0], [0], [0], [1, 2, 3]], "classes": [{"bases": [], "decl": []}],
                  "decls": [{"args": [leaf(4), leaf(3), leaf(2), leaf(1)]}, {"args": [leaf(1), leaf(4)]},
                            {"args": [leaf(4), leaf(1), leaf(2), leaf(3)]}, {"args": [leaf(2), leaf(2), leaf(4)]}],
                  "radd": [1, 2, 3, 4], "cls": 6, "ops": [["also", [leaf(1), leaf(4)]], ["nolonger", 2], ["also", [leaf(3)]]]})
    # falsy class objects with own + inherited declarations; the shared empty declaration and bare interfaces
    # as operands of + and -
    for kind_ in ("len", "bool"):
        cases.append({"ifaces": ch,
                      "classes": [{"bases": [], "decl": []}, {"bases": [], "decl": [1], "falsy": kind_},
                                  {"bases": [7], "decl": [4]}, {"bases": [8], "decl": []},
                                  {"bases": [6], "decl": [2], "falsy": kind_}],
                      "decls": [{"spec": 8}, {"spec": 9}, {"empty": True}, {"args": [leaf(2)]}, {"spec": 10},
                                {"args": [{"r": 2}, leaf(3)]}],
                      "radd": [2, 4, 3, 3, 1, 4], "cls": 9,
                      "ops": [["also", [leaf(2)]], ["nolonger", 2], ["also", [leaf(3), leaf(4)]]]})
    return cases


def generate(run, tier):
    rng = run.rng("gen")
    n = 400 if tier == "quick" else 5000
    return _fixed_cases() + [_gen_case(rng, tier) for _ in range(n)]


# --------------------------------------------------------------------------- Coq terms

def _nl(xs):
    return C.clist([C.cnat(x) for x in xs])


def _obs(o):
    if isinstance(o, dict):
        return "None"
    return "(Some %s)" % _nl(o)


def _tree(t, decls):
    if "l" in t:
        return "(TLeaf %d)" % t["l"]
    if "s" in t:
        return "(TSeq %s)" % C.clist([_tree(x, decls) for x in t["s"]])
    if "d" in t:
        return "(TDecl %s)" % C.clist([_tree(x, decls) for x in t["d"]])
    d = decls[t["r"]]
    if d.get("empty"):
        return "(TDecl [])"
    if "spec" in d:
        return "(TLeaf %d)" % d["spec"]
    return "(TDecl %s)" % C.clist([_tree(x, decls) for x in d["args"]])


FAIL_TERM = "(mkCase [] [] [] [] [] [] [] [] [] [] [] false false [] 0 [] [] None)"


def coq_case(case, obs, mode):
    if "exc" in obs and "graph" not in obs:
        return FAIL_TERM     # the case could not even be built: fail closed, with the input in the replay
    decls = case["decls"]
    ops = []
    for o in case["ops"]:
        if o[0] == "also":
            ops.append("(IAlso %s)" % C.clist([_tree(x, decls) for x in o[1]]))
        elif o[0] == "directly":
            ops.append("(IDirectly %s)" % C.clist([_tree(x, decls) for x in o[1]]))
        else:
            ops.append("(INoLonger %d)" % o[1])
    inst = []
    for r in obs["inst"]:
        if "exc" in r:
            inst.append("(None, false, None)")
        else:
            inst.append("(%s, %s, %s)" % (_obs(r["dp"]), C.cbool(r["raised"]), _obs(r["prov"])))
    sbase = len(case["ifaces"]) + 2 + len(case["classes"])

    def _operand(d):
        if d.get("empty"):
            return "(OArgs [])"
        if "spec" not in d:
            return "(OArgs %s)" % C.clist([_tree(x, decls) for x in d["args"]])
        if d["spec"] >= sbase:
            return "(OSuper %d %s)" % (d["spec"], _nl(case["supers"][d["spec"] - sbase]["rem"]))
        return "(OSpec %d)" % d["spec"]
    dterms = [_operand(d) for d in decls]
    cont = ["None" if isinstance(r, dict) else "(Some %s)" % C.clist([C.cbool(b) for b in r]) for r in obs["contains"]]
    n = len(case["ifaces"])
    cdecl = C.clist(["(%d, %s)" % (n + 2 + k, C.clist([_tree(x, decls) for x in cd["dtrees"]]))
                     for k, cd in enumerate(case["classes"]) if cd.get("dtrees") is not None and not cd["bases"]])
    def _res(r):
        if "exc" in r:
            return "(false, None, None, None)"
        cin = "None" if isinstance(r["in"], dict) else "(Some %s)" % C.clist([C.cbool(b) for b in r["in"]])
        return "(%s, %s, %s, %s)" % (C.cbool(r["isdecl"]), _obs(r["iter"]), cin, _obs(r["flat"]))
    bare = C.clist(["(%d, %s, %s, %s)" % (x, _res(r[0]), _res(r[1]), _res(r[2])) for x, r in zip(case["radd"], obs["bare"])])
    ctw = ["None" if isinstance(r, dict) else "(Some %s)" % C.clist([C.cbool(b) for b in r]) for r in obs["ctwin"]]
    ptw = "None" if isinstance(obs["ptwin"], dict) else "(Some %s)" % C.clist([C.cbool(b) for b in obs["ptwin"]])
    return "(mkCase %s %s %s %s %s %s %s %s %s %s %s %s %s %s %d %s %s %s)" % (
        C.clist(["(%d, %s)" % (k, _nl(bs)) for k, bs in obs["graph"]]), _nl(obs["ifs"]), C.clist(dterms),
        C.clist([_obs(o) for o in obs["iter"]]), C.clist(cont), C.clist(ctw), C.clist([_obs(o) for o in obs["flat"]]),
        C.clist([C.clist([_obs(o) for o in row]) for row in obs["sub"]]),
        C.clist([C.clist([_obs(o) for o in row]) for row in obs["add"]]),
        C.clist(["(%d, %s)" % (x, _obs(o)) for x, o in zip(case["radd"], obs["radd"])]), bare,
        C.cbool(obs["unchanged"]), C.cbool(obs["bases_ok"]), cdecl, case["cls"], C.clist(ops), C.clist(inst), ptw)


# --------------------------------------------------------------------------- coverage bookkeeping

def _reach(graph):
    g = dict((k, bs) for k, bs in graph)
    memo = {}

    def r(x):
        if x not in memo:
            s = {x}
            for b in g.get(x, []):
                s |= r(b)
            memo[x] = s
        return memo[x]
    return r


STATS = {"add_front": 0, "add_front_not_extending_A": 0, "sub_removed_strict": 0, "nolonger_removed_strict": 0,
         "pairs": 0, "flattened_root_only": 0}


def _features(case, obs):
    if "graph" not in obs:
        return None
    r = _reach(obs["graph"])
    its = obs["iter"]
    front = dev = subs = 0
    for ia, A in enumerate(its):
        for ib, B in enumerate(its):
            if isinstance(A, dict) or isinstance(B, dict):
                continue
            STATS["pairs"] += 1
            R = obs["add"][ia][ib]
            if not isinstance(R, dict) and A and R[:len(A)] != A:
                k = 0
                while k < len(R) and R[k] not in A:
                    if not any(a in r(R[k]) or a == 0 for a in A):
                        dev += 1
                    front += 1
                    k += 1
            S = obs["sub"][ia][ib]
            if not isinstance(S, dict):
                subs += sum(1 for i in A if i not in S and i not in B)
    nl = 0
    prev = []
    for op, o in zip(case["ops"], obs["inst"]):
        if "exc" in o or isinstance(o["dp"], dict):
            break
        if op[0] == "nolonger":
            nl += sum(1 for i in prev if i not in o["dp"] and i != op[1])
        prev = o["dp"]
    ro = sum(1 for it, f in zip(its, obs["flat"]) if it == [] and f == [0])
    return front, dev, subs, nl, ro


def classify(case, obs):
    f = _features(case, obs)
    if f is None:
        return None
    front, dev, subs, nl, ro = f
    STATS["add_front"] += front
    STATS["add_front_not_extending_A"] += dev
    STATS["sub_removed_strict"] += subs
    STATS["nolonger_removed_strict"] += nl
    STATS["flattened_root_only"] += ro
    if not (front and subs):
        return None
    return (len(case["ifaces"]), len(case["classes"]), len(case["decls"]), min(front, 5), dev > 0, min(subs, 5), nl > 0)


def kind(case, obs):
    return "ifaces=%d classes=%d" % (len(case["ifaces"]), len(case["classes"]))


def extra(run, impl, known):
    run.coverage["c20_stats"] = dict(STATS)
    run.coverage["c20_note"] = ("add_front_not_extending_A counts interfaces that + placed in front although they extend no "
                                "interface of the left operand (they extend an earlier new interface of the right operand): "
                                "see theorem C20_add_as_worded_refuted")


# --------------------------------------------------------------------------- replay

def _py_tree(t):
    if "l" in t:
        return "N[%d]" % t["l"]
    if "s" in t:
        inner = ", ".join(_py_tree(x) for x in t["s"])
        kind = t.get("t")
        if kind == "list":
            return "[%s]" % inner
        if kind == "gen":
            return "(v for v in [%s])" % inner
        if kind == "iter":
            return "iter([%s])" % inner
        if kind == "map":
            return "map(lambda v: v, [%s])" % inner
        return "(%s%s)" % (inner, "," if len(t["s"]) == 1 else "")
    if "d" in t:
        return "Declaration(%s)" % ", ".join(_py_tree(x) for x in t["d"])
    return "D[%d]" % t["r"]


def replay_text(case, obs, mode):
    n = len(case["ifaces"])
    L = ["# PURE_PYTHON=%s" % ("1" if mode == "py" else "0"),
         "from zope.interface import *", "from zope.interface.interface import InterfaceClass",
         "from zope.interface.declarations import Declaration", "N = {0: Interface}"]
    for i, bs in enumerate(case["ifaces"]):
        L.append("N[%d] = InterfaceClass('I%d', (%s))" % (i + 1, i + 1, "".join("N[%d], " % b for b in bs)))
    L.append("K = {%d: object}; N[%d] = implementedBy(object)" % (n + 1, n + 1))
    for k, cd in enumerate(case["classes"]):
        node = n + 2 + k
        meta = {"len": "type('LenMeta', (type,), {'__len__': lambda c: 0})",
                "bool": "type('BoolMeta', (type,), {'__bool__': lambda c: False})"}.get(cd.get("falsy"))
        if meta and not any(case["classes"][b - n - 2].get("falsy") for b in cd["bases"]):
            L.append("M = globals().get('M') or %s" % meta)
            L.append("K[%d] = M('K%d', (%s) or (object,), {})" % (node, k, "".join("K[%d], " % b for b in cd["bases"])))
        else:
            L.append("K[%d] = type(K[%d])('K%d', (%s), {})" % (node, cd["bases"][0], k, "".join("K[%d], " % b for b in cd["bases"]))
                     if cd["bases"] else "K[%d] = type('K%d', (object,), {})" % (node, k))
        if cd.get("dtrees") is not None:
            args = ", ".join(_py_tree(x) for x in cd["dtrees"])
            if cd.get("via") == "classImplements":
                L.append("classImplements(K[%d], %s)" % (node, args))
            elif cd["dtrees"]:
                L.append("K[%d] = implementer(%s)(K[%d])" % (node, args, node))
        elif cd["decl"]:
            L.append("classImplements(K[%d], %s)" % (node, ", ".join("N[%d]" % x for x in cd["decl"])))
        L.append("N[%d] = implementedBy(K[%d])" % (node, node))
    for j, sd in enumerate(case.get("supers", [])):
        L.append("N[%d] = %s(super(K[%d], K[%d]()))   # expected bases: %r" % (
            n + 2 + len(case["classes"]) + j, sd.get("via", "implementedBy"), sd["this"], sd["self"], sd["rem"]))
    L.append("T = [InterfaceClass('I%d' % i, ()) for i in range(1, " + str(n + 1) + ")]   # equal-but-distinct twins")
    L.append("D = []")
    rb = ["N[%d].__bases__ = (%s)" % (i, "".join("N[%d], " % b for b in bs)) for i, bs in case.get("rebase", [])]
    for k, d in enumerate(case["decls"]):
        if rb and k == case.get("rebase_at", 0):
            L.extend(rb)
            rb = []
        L.append("D.append(%s)" % ("N[%d]" % d["spec"] if "spec" in d else
                                   "directlyProvidedBy(K[%d]())" % (n + 2) if d.get("empty") else
                                   "Declaration(%s)" % ", ".join(_py_tree(x) for x in d["args"])))
    L.extend(rb)
    L.append("name = lambda it: [k for o in it for k, v in N.items() if v is o]")
    L.append("for a, A in enumerate(D):")
    L.append("    print(a, 'iter', name(A), 'flattened', name(A.flattened()), 'contains', [x in A for x in N.values()], 'twins', [t in A for t in T])")
    L.append("    for b, B in enumerate(D): print(a, b, 'sub', name(A - B), 'add', name(A + B))")
    L.append("RADD = %r   # bare interface operands" % (case["radd"],))
    L.append("for A, x in zip(D, RADD): print('bare', x, [(type(R).__name__, name(R)) for R in (A + N[x], A - N[x], N[x] + A)])")
    L.append("o = K[%d]()" % case["cls"])
    for op in case["ops"]:
        if op[0] == "nolonger":
            L.append("try: noLongerProvides(o, N[%d])\nexcept ValueError: print('ValueError')" % op[1])
        else:
            L.append("%s(o, %s)" % ("alsoProvides" if op[0] == "also" else "directlyProvides",
                                    ", ".join(_py_tree(x) for x in op[1])))
        L.append("print(%r, name(directlyProvidedBy(o)), name(providedBy(o)))" % (op[0],))
    L.append("# observed: %r" % ({k: obs.get(k) for k in ("iter", "flat", "sub", "add", "inst", "unchanged")},))
    return "\n".join(L)


TECHNIQUE = ("Kernel regenerated from the source text by a fail-closed translator and proved equal to the model; Coq proofs over a Gallina model of Declaration / _normalizeargs / Specification.interfaces / __sub__ / __add__ / "
             "the instance declaration functions on top of Model/Ro.v; vm_compute correspondence with both implementations; "
             "brute-force reachability oracle in Coq")
LEVEL_TEXT = ("Gen/DeclAlgKernel.v is re-derived on every run from declarations.py / interface.py (Declaration.__contains__/"
              "__iter__/flattened/__sub__/__add__/__radd__/__init__/_add_interfaces_to_cls, _normalizeargs, Specification."
              "interfaces/extends, isOrExtends, InterfaceClass.interfaces, directlyProvidedBy, alsoProvides, noLongerProvides) and "
              "ten C20_generated_*_eq_model theorems prove each regenerated definition equal to the model for all inputs. "
              "Machine-checked theorems (Properties/C20.v, closed under the global context) state the iteration, membership, "
              "flattening, subtraction, addition and noLongerProvides laws for every well-numbered specification DAG, every "
              "argument tree and every pair of declarations; the model is compared with the C and Python implementations on "
              "generated cases on every run and the raw answers are judged by a reachability oracle inside Coq.")
LEVEL_NOTE = ("Trusted: Coq kernel/vm_compute; Model/Ro.v as transcription of ro.py (validated through flattened()); the order of "
              "flattened() is stated as 'the order Ro computes' plus membership/NoDup, not re-derived. The literal wording of "
              "the + placement rule is refuted by a proved witness (an interface may go in front because it extends an earlier "
              "new interface of the right operand); the implemented rule is proved exactly and the worded rule under the "
              "hypothesis that excludes that situation. Declaration().flattened() yields Interface although nothing was "
              "declared (stated in C20_flattened_members).")
