"""C07 — subscriptions() returns every applicable subscriber, with multiplicity, in order
(DESIGN.md section 5, C07)."""
from .. import common as C
from . import regcommon as RC

ID = "C07"
COQ_TARGETS = ["Tie/C07.vo", "Properties/C07.vo"]
PROPERTY_FILE = "Properties/C07.v"
TIE = "Tie.C07"
DRIVER = "c07_driver.py"
SHARD = 30
THEOREMS = [
    "C07_ledger_refinement", "C07_extendors_invariant", "C07_subs_multiset", "C07_subs_ordered",
    "C07_subs_exact", "C07_unsubscribe_exact", "C07_handlers_bypass_extendors",
]
RULE = ("worlds of 3-5 interfaces (<= 3 bases) + 0-3 classes + 3 objects; registry DAGs of 1-4 registries of one "
        "flavour (push / verifying); 12-45 mutations: subscribe (45 % on an already used key: duplicates; values "
        "drawn from 4 objects of which two are ==-equal but distinct), unsubscribe with / without value (85 % on a "
        "used key), handlers (provided None), arity 0-3, None in required, adapter register / overwrite / unregister "
        "on the same provided interfaces (count drift), registry re-basing; queries after every few "
        "mutations and a final block: subscriptions for descendants of every used key x ancestors of its provided, "
        "from every registry, subscribed for every used key and value, allSubscriptions, subscribers with objects; "
        "non-trivial = some subscriptions() answer has >= 2 values; distinct = distinct (flavour, #registries, "
        "multiset of answer lengths, duplicates?, unsubscribe removed several?) signature")
TRUSTED_BASE = [
    "hand-written model Model/Adapter.v (nested dicts abstracted to a finite map on full keys; stated there), "
    "Model/Lookup.v, Model/RegSys.v — validated by this correspondence on every run",
    "Spec replay in Tie/C07.v uses Model.Ro.ro for the registry resolution order (C03's subject) and the "
    "observed __sro__ construction of Tie/RegCommon.mk_world for the specification world",
]
ASSUMPTIONS = [
    "the asked provided specification is an interface (or None); __sro__ lists are duplicate free (C03)",
    "values' == is an equivalence coarser than identity (as for the generated V objects)",
    "which resolution order a registry uses after re-basing is C06's subject: the theorems take the list of "
    "registries as given; the tie checks the implementation against the freshly recomputed order",
]


# --------------------------------------------------------------------------- generator

def _gen_case(rng, tier):
    world, ifaces, classes = RC.gen_world(rng, n_ifaces=rng.choice([3, 4, 5]), n_classes=rng.choice([0, 2, 3]))
    rel = RC.Rel(world)
    nobj = len(world["objects"])
    fl = rng.choice(["push", "verifying"])
    n_regs = rng.choice([1, 2, 3, 3, 4])
    ops = []
    cur_bases = {}
    for r in range(n_regs):
        bs = [b for b in range(r) if rng.random() < 0.6][-2:]
        bs.reverse()
        ops.append(["newreg", fl, bs])
        cur_bases[r] = bs
    key_pool = list(ifaces) + list(classes) + [0]
    look_pool = list(ifaces) + list(classes)
    keys = []      # (req, provided-or-None) used by some subscribe

    def conv(x):
        return 0 if x is None else x

    def fresh_key():
        ar = rng.choice([0, 1, 1, 1, 1, 2, 2, 3])
        req = RC.gen_req(rng, key_pool, ar)
        p = rng.choice(ifaces) if rng.random() > 0.22 else None
        return req, p

    def derived_key():
        req0, p0 = rng.choice(keys)
        req = list(req0)
        if req and rng.random() < 0.85:
            j = rng.randrange(len(req))
            x = conv(req[j])
            cand = rel.ancestors(x) if rng.random() < 0.6 else rel.descendants(x)
            cand = [c for c in cand if c in key_pool] or [x]
            req[j] = rng.choice(cand)
        p = p0
        if p0 is not None and rng.random() < 0.5:
            p = rng.choice([x for x in rel.ancestors(p0) + rel.descendants(p0) if x in ifaces] or [p0])
        return req, p

    def look_req(req):
        return [rng.choice([d for d in rel.descendants(conv(x)) if d in look_pool] or look_pool) for x in req]

    def look_prov(p):
        if p is None:
            return None
        return rng.choice([x for x in rel.ancestors(p) if x in ifaces or x == 0])

    def q_subscriptions(r, key):
        req, p = key
        return ["subscriptions", r, look_req(req), look_prov(p)]

    def q_subscribers(r, key):
        req, p = key
        n_o = len(req)
        return ["subscribers", r, [rng.randrange(nobj) for _ in range(n_o)], look_prov(p)]

    n_mut = rng.choice([12, 20, 30, 45])
    # rebuild() is not part of C07's histories and is left out on purpose: (1) the shared model's
    # rebuild replays allRegistrations()/allSubscriptions() in flat insertion order whereas the
    # code iterates its nested dictionaries arity-major, which permutes the extendors (an order
    # the property does not constrain, but the exact tie would see it); (2) AdapterRegistry.rebuild()
    # re-runs __init__ and thereby forgets its sub-registries (defect in C05/C06's subject).
    kinds = ["subscribe", "unsubscribe", "register", "unregister", "setregbases", "query"]
    ws = [9, 4, 2, 1, 1.2 if n_regs > 1 else 0, 4]
    for _ in range(n_mut):
        k = rng.choices(kinds, ws)[0]
        r = rng.randrange(n_regs)
        if k == "subscribe":
            u = rng.random()
            if keys and u < 0.45:
                req, p = rng.choice(keys)           # same key again: duplicates / equal values
            elif keys and u < 0.8:
                req, p = derived_key()
            else:
                req, p = fresh_key()
            keys.append((req, p))
            ops.append(["subscribe", r, req, p, RC.gen_value(rng, 4)])
        elif k == "unsubscribe":
            if keys and rng.random() < 0.85:
                req, p = rng.choice(keys)
            else:
                req, p = fresh_key()
            v = RC.gen_value(rng, 4) if rng.random() < 0.7 else None
            ops.append(["unsubscribe", r, req, p, v])
        elif k == "register":
            provs = [p for _, p in keys if p is not None] or ifaces
            req = RC.gen_req(rng, key_pool, rng.choice([0, 1, 1, 2]))
            ops.append(["register", r, req, rng.choice(provs), rng.choice([0, 0, 1]),
                        RC.gen_value(rng, 4) if rng.random() > 0.1 else None])
        elif k == "unregister":
            regs = [o for o in ops if o[0] == "register" and o[1] == r]
            if regs:
                o = rng.choice(regs)
                ops.append(["unregister", r, o[2], o[3], o[4], None if rng.random() < 0.6 else RC.gen_value(rng, 4)])
        elif k == "setregbases":
            cand = [b for b in range(n_regs) if b < r]
            rng.shuffle(cand)
            bs = sorted(cand[: rng.choice([0, 1, 1, 2])], reverse=True)
            ops.append(["setregbases", r, bs])
            cur_bases[r] = bs
        elif k == "query" and keys:
            key = rng.choice(keys)
            u = rng.random()
            if u < 0.6:
                ops.append(q_subscriptions(r, key))
            elif u < 0.75 and nobj and key[0]:
                ops.append(q_subscribers(r, key))
            elif u < 0.9:
                ops.append(["subscribed", r, key[0], key[1], RC.gen_value(rng, 4)])
            else:
                ops.append(["allSubscriptions", r])
    # final block: every used key, related look-ups, from several registries
    uniq = []
    for key in keys:
        if key not in uniq:
            uniq.append(key)
    rng.shuffle(uniq)
    for key in uniq[:8]:
        for r in range(n_regs):
            if r == n_regs - 1 or rng.random() < 0.6:
                ops.append(q_subscriptions(r, key))
                if rng.random() < 0.5:
                    ops.append(q_subscriptions(r, key))
        r = rng.randrange(n_regs)
        for vid in (1, 2, 3):
            ops.append(["subscribed", r, key[0], key[1], [vid, 1 if vid in (1, 2) else vid]])
        if nobj and key[0] and rng.random() < 0.5:
            ops.append(q_subscribers(n_regs - 1, key))
    # unrelated look-ups (arity 0..3, any provided)
    for _ in range(3):
        ar = rng.choice([0, 1, 2, 3])
        ops.append(["subscriptions", rng.randrange(n_regs), [rng.choice(look_pool) for _ in range(ar)],
                    rng.choice(ifaces + [0]) if rng.random() > 0.25 else None])
    for r in range(n_regs):
        ops.append(["allSubscriptions", r])
    world["ops"] = ops
    return world


def generate(run, tier):
    rng = run.rng("gen")
    n = 260 if tier == "quick" else 3000
    return [_gen_case(rng, tier) for _ in range(n)]


def coq_case(case, obs, mode):
    if "error" in obs:
        raise C.HarnessError("driver error: " + obs["error"])
    # the 999999 separator of ``subscribers`` answers is written as 0 (see Tie/C07.v)
    ans = [[0 if (x == 999999 and op[0] == "subscribers") else x for x in a]
           for op, a in zip(case["ops"], obs["answers"])]
    return RC.coq_hist_case(case, dict(obs, answers=ans))


def _answers(case, obs, kind):
    return [a for op, a in zip(case["ops"], obs.get("answers", [])) if op[0] == kind]


def classify(case, obs):
    subs = _answers(case, obs, "subscriptions")
    if not any(len(a) >= 2 for a in subs):
        return None
    dup = any(len(set(a)) < len(a) for a in subs)
    lens = tuple(sorted(min(len(a), 6) for a in subs))
    multi = False
    live = {}
    for op in case["ops"]:
        if op[0] == "subscribe":
            live.setdefault((op[1], tuple(op[2]), op[3]), []).append(op[4])
        elif op[0] == "unsubscribe":
            k = (op[1], tuple(0 if x is None else x for x in op[2]), op[3])
            k2 = [kk for kk in live if kk[0] == k[0] and tuple(0 if x is None else x for x in kk[1]) == k[1] and kk[2] == k[2]]
            for kk in k2:
                before = len(live[kk])
                live[kk] = [] if op[4] is None else [v for v in live[kk] if v[1] != op[4][1]]
                if before - len(live[kk]) >= 2:
                    multi = True
    return (case["ops"][0][1], sum(1 for op in case["ops"] if op[0] == "newreg"), lens, dup, multi)


def kind(case, obs):
    return "%s/%dreg" % (case["ops"][0][1], sum(1 for op in case["ops"] if op[0] == "newreg"))


def finding_key(case, obs, mode):
    return None


def _py_spec(i, specs):
    k = specs[i]["kind"]
    if k == "root":
        return "Interface"
    return {"iface": "I%d", "object": "implementedBy(object)", "class": "implementedBy(C%d)"}.get(k, "S%d") % (
        () if k == "object" else (i,))


def replay_text(case, obs, mode):
    specs = case["specs"]
    L = ["# PURE_PYTHON=%s" % ("1" if mode == "py" else "0"),
         "from zope.interface import Interface, implementedBy, implementer, providedBy, directlyProvides",
         "from zope.interface.interface import InterfaceClass",
         "from zope.interface.adapter import AdapterRegistry, VerifyingAdapterRegistry",
         "class V:",
         "    def __init__(self, vid, veq): self.vid, self.veq = vid, veq",
         "    def __eq__(self, o): return isinstance(o, V) and o.veq == self.veq",
         "    def __ne__(self, o): return not self.__eq__(o)",
         "    def __hash__(self): return hash(self.veq)",
         "    def __repr__(self): return 'v%d' % self.vid",
         "    def __call__(self, *obs): return None   # (the harness uses reg_common.oracle_call)",
         "vals = {}",
         "def val(vid, veq): return vals.setdefault((vid, veq), V(vid, veq))"]
    for i, s in enumerate(specs):
        if s["kind"] == "iface":
            L.append("I%d = InterfaceClass('I%d', (%s), {})" % (
                i, i, "".join(_py_spec(b, specs) + ", " for b in s["bases"]) or "Interface, "))
        elif s["kind"] == "class":
            L.append("class C%d(%s): pass" % (i, ", ".join("C%d" % b for b in s["cbases"]) or "object"))
            if s["implements"]:
                L.append("implementer(%s)(C%d)" % (", ".join("I%d" % b for b in s["implements"]), i))
    for j, o in enumerate(case.get("objects", [])):
        L.append("o%d = C%d()" % (j, o["cls"]))
        if o.get("direct"):
            L.append("directlyProvides(o%d, %s)" % (j, ", ".join("I%d" % b for b in o["direct"])))
    L.append("regs = []")

    def req(l):
        return "[" + ", ".join("None" if x is None else _py_spec(x, specs) for x in l) + "]"

    def prov(p):
        return "None" if p is None else _py_spec(p, specs)

    def value(v):
        return "None" if v is None else "val(%d, %d)" % (v[0], v[1])

    answers = obs.get("answers", [])
    for n, op in enumerate(case["ops"]):
        k = op[0]
        a = answers[n] if n < len(answers) else None
        if k == "newreg":
            L.append("regs.append(%s((%s)))" % ("AdapterRegistry" if op[1] == "push" else "VerifyingAdapterRegistry",
                                                "".join("regs[%d], " % b for b in op[2])))
        elif k == "setregbases":
            L.append("regs[%d].__bases__ = (%s)" % (op[1], "".join("regs[%d], " % b for b in op[2])))
        elif k in ("register", "unregister"):
            L.append("regs[%d].%s(%s, %s, %r, %s)" % (op[1], k, req(op[2]), prov(op[3]),
                                                     "" if op[4] == 0 else "n%d" % op[4], value(op[5])))
        elif k in ("subscribe", "unsubscribe"):
            L.append("regs[%d].%s(%s, %s, %s)" % (op[1], k, req(op[2]), prov(op[3]), value(op[4])))
        elif k == "rebuild":
            L.append("regs[%d].rebuild()" % op[1])
        elif k == "subscriptions":
            L.append("print(regs[%d].subscriptions(%s, %s))   # op %d observed vids %r" % (op[1], req(op[2]), prov(op[3]), n, a))
        elif k == "subscribed":
            L.append("print(regs[%d].subscribed(%s, %s, %s))   # op %d observed %r" % (op[1], req(op[2]), prov(op[3]), value(op[4]), n, a))
        elif k == "allSubscriptions":
            L.append("print(list(regs[%d].allSubscriptions()))   # op %d observed (sorted, encoded) %r" % (op[1], n, a))
        elif k == "subscribers":
            L.append("print(regs[%d].subscribers([%s], %s))   # op %d observed results+[999999]+called vids %r" % (
                op[1], ", ".join("o%d" % j for j in op[2]), prov(op[3]), n, a))
    L.append("# the first answer rejected by the Spec: Eval vm_compute in (Tie.C07.first_bad c) on this case "
             "(bin/check C07 --replay <this file>)")
    return "\n".join(L)


TECHNIQUE = ("Coq proof (induction over arbitrary subscribe/unsubscribe/register/unregister histories) that the model "
             "of BaseAdapterRegistry/AdapterLookupBase refines a ledger Spec, incl. the extendors/_provided invariant; "
             "vm_compute correspondence with both implementations; independent ledger replay + brute-force sort as Spec oracle")
LEVEL_TEXT = ("Machine-checked theorems (Properties/C07.v, 7 theorems, closed under the global context) state for every "
              "world with duplicate-free __sro__, every list of registries each reached by an arbitrary history, and every "
              "key of any arity that the uncached subscriptions() of the model equals the bucket sort of the ledgers: "
              "a permutation of the applicable live entries (exact multiplicity), base registries first, less specific "
              "required keys first, identical keys in subscription order; that unsubscribe removes exactly the ==-equal "
              "entries of its key; and that handlers bypass the extendors.  The model is compared with the C and Python "
              "implementations on generated histories on every run and the implementation's raw answers are judged in Coq "
              "by replaying the history into the ledger Spec and brute-force sorting the applicable entries.")
LEVEL_NOTE = ("Trusted: Coq kernel/vm_compute; the hand-written model (nested dictionaries abstracted to a finite map on "
              "full keys; caches and the choice of resolution order are C05's/C06's subjects and are only tested here). "
              "The order between entries of the same required key but different provided interfaces is not constrained by "
              "the property; the theorems pin it to the reversed extendors order, the Spec oracle accepts any order.")
