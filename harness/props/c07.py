"""C07 — subscriptions() returns every applicable subscriber, with multiplicity, in order
(DESIGN.md section 5, C07)."""
import copy

from .. import common as C
from . import regcommon as RC

ID = "C07"
COQ_TARGETS = ["Tie/C07.vo", "Properties/C07.vo"]
PROPERTY_FILE = "Properties/C07.v"
TIE = "Tie.C07"
DRIVER = "c07_driver.py"
SHARD = 30
THEOREMS = [
    "C07_ledger_refinement", "C07_extendors_invariant", "C07_subs_multiset", "C07_subs_ordered",
    "C07_subs_exact", "C07_unsubscribe_exact", "C07_handlers_bypass_extendors",
]
RULE = ("worlds of 3-5 interfaces (<= 3 bases) + 0-3 classes + 3 objects; registry DAGs of 1-4 registries of one "
        "flavour (push / verifying); 12-45 mutations: subscribe (45 % on an already used key: duplicates; values "
        "drawn from 4 objects of which two are ==-equal but distinct), unsubscribe with / without value (85 % on a "
        "used key), handlers (provided None), arity 0-3, None in required, adapter register / overwrite / unregister "
        "on the same provided interfaces (count drift), registry re-basing; queries after every few "
        "mutations and a final block: subscriptions for descendants of every used key x ancestors of its provided, "
        "from every registry, subscribed for every used key and value, allSubscriptions, subscribers with objects; "
        "lookupAll / names / lookup queries with the same (registry, required, provided) immediately before and "
        "after subscriptions queries, adapters registered under subscription keys; DYNAMIC-WORLD stream: between "
        "arity >= 2 subscriptions queries that share leading required specs, interface __bases__ are reassigned / "
        "classImplements is applied to a class used as required (never to a provided interface), and the queries are "
        "repeated, judged with the __sro__ of the current graph; "
        "non-trivial = some subscriptions() answer has >= 2 values; distinct = distinct (flavour, #registries, "
        "multiset of answer lengths, duplicates?, unsubscribe removed several?) signature")
TRUSTED_BASE = [
    "hand-written model Model/Adapter.v (nested dicts abstracted to a finite map on full keys; stated there), "
    "Model/Lookup.v, Model/RegSys.v — validated by this correspondence on every run",
    "Spec replay in Tie/C07.v uses Model.Ro.ro for the registry resolution order (C03's subject) and the "
    "observed __sro__ construction of Tie/RegCommon.mk_world for the specification world",
]
ASSUMPTIONS = [
    "the asked provided specification is an interface (or None); __sro__ lists are duplicate free (C03)",
    "values' == is an equivalence coarser than identity (as for the generated V objects)",
    "which resolution order a registry uses after re-basing is C06's subject: the theorems take the list of "
    "registries as given; the tie checks the implementation against the freshly recomputed order",
]


# --------------------------------------------------------------------------- generator

def _gen_case(rng, tier):
    world, ifaces, classes = RC.gen_world(rng, n_ifaces=rng.choice([3, 4, 5]), n_classes=rng.choice([0, 2, 3]))
    rel = RC.Rel(world)
    nobj = len(world["objects"])
    fl = rng.choice(["push", "verifying"])
    # deep mode: two roots and a chain >= 4 deep below one of them (mostly single bases, some with a
    # second base), interior registries are re-based and EVERY registry below is queried afterwards
    deep = rng.random() < 0.3
    n_regs = rng.choice([5, 5, 6]) if deep else rng.choice([1, 2, 3, 3, 4])
    ops = []
    cur_bases = {}
    for r in range(n_regs):
        if deep:
            if r < 2:
                bs = []
            elif r == 2:
                bs = [rng.choice([0, 1])]
            else:
                bs = [r - 1] if rng.random() < 0.75 else [r - 1, rng.choice([0, 1])]
        else:
            bs = [b for b in range(r) if rng.random() < 0.6][-2:]
            bs.reverse()
        ops.append(["newreg", fl, bs])
        cur_bases[r] = bs
    key_pool = list(ifaces) + list(classes) + [0]
    look_pool = list(ifaces) + list(classes)
    keys = []      # (req, provided-or-None) used by some subscribe

    def conv(x):
        return 0 if x is None else x

    def fresh_key():
        ar = rng.choice([0, 1, 1, 1, 1, 2, 2, 3])
        req = RC.gen_req(rng, key_pool, ar)
        p = rng.choice(ifaces) if rng.random() > 0.22 else None
        return req, p

    def derived_key():
        req0, p0 = rng.choice(keys)
        req = list(req0)
        if req and rng.random() < 0.85:
            j = rng.randrange(len(req))
            x = conv(req[j])
            cand = rel.ancestors(x) if rng.random() < 0.6 else rel.descendants(x)
            cand = [c for c in cand if c in key_pool] or [x]
            req[j] = rng.choice(cand)
        p = p0
        if p0 is not None and rng.random() < 0.5:
            p = rng.choice([x for x in rel.ancestors(p0) + rel.descendants(p0) if x in ifaces] or [p0])
        return req, p

    def look_req(req):
        return [rng.choice([d for d in rel.descendants(conv(x)) if d in look_pool] or look_pool) for x in req]

    def look_prov(p):
        if p is None:
            return None
        return rng.choice([x for x in rel.ancestors(p) if x in ifaces or x == 0])

    def q_subscriptions(r, key):
        req, p = key
        return ["subscriptions", r, look_req(req), look_prov(p)]

    def q_subscribers(r, key):
        req, p = key
        n_o = len(req)
        return ["subscribers", r, [rng.randrange(nobj) for _ in range(n_o)], look_prov(p)]

    def with_lookups(q):
        """the subscriptions query q, with lookupAll / names / lookup queries for the SAME (registry,
        required, provided) immediately before and/or after it (the entry points have separate
        caches: _cache, _mcache, _scache)"""
        _k, r, req, p = q
        if p is None or rng.random() < 0.35:
            return [q]

        def other():
            u = rng.random()
            if u < 0.5:
                return ["lookupAll", r, list(req), p]
            if u < 0.75:
                return ["names", r, list(req), p]
            return ["lookup", r, list(req), p, rng.choice([0, 0, 1])]
        pat = rng.choice(["bq", "qb", "bqb", "bqbq", "qbq"])
        return [other() if c == "b" else list(q) for c in pat]

    n_mut = rng.choice([12, 20, 30, 45])
    # rebuild() is not part of C07's histories and is left out on purpose: (1) the shared model's
    # rebuild replays allRegistrations()/allSubscriptions() in flat insertion order whereas the
    # code iterates its nested dictionaries arity-major, which permutes the extendors (an order
    # the property does not constrain, but the exact tie would see it); (2) AdapterRegistry.rebuild()
    # re-runs __init__ and thereby forgets its sub-registries (defect in C05/C06's subject).
    kinds = ["subscribe", "unsubscribe", "register", "unregister", "setregbases", "query", "qmq"]
    ws = [9, 4, 3, 1, (3.5 if deep else 1.2) if n_regs > 1 else 0, 4, 3]
    where = []     # (registry, req, provided-or-None) of every subscribe

    def above(r):
        """r and the registries r is (transitively) based on"""
        seen, todo = [], [r]
        while todo:
            x = todo.pop()
            if x not in seen:
                seen.append(x)
                todo.extend(cur_bases.get(x, []))
        return seen
    for _ in range(n_mut):
        k = rng.choices(kinds, ws)[0]
        r = rng.randrange(n_regs)
        if deep and k in ("subscribe", "unsubscribe") and rng.random() < 0.5:
            r = rng.randrange(3)            # keep the roots and the top of the chain populated
        if k == "subscribe":
            u = rng.random()
            if keys and u < 0.45:
                req, p = rng.choice(keys)           # same key again: duplicates / equal values
            elif keys and u < 0.8:
                req, p = derived_key()
            else:
                req, p = fresh_key()
            keys.append((req, p))
            where.append((r, req, p))
            ops.append(["subscribe", r, req, p, RC.gen_value(rng, 4)])
        elif k == "qmq" and where:
            # query -> ONE subscribe / unsubscribe of that very key -> the identical query, nothing in
            # between: the mutation alone must invalidate whatever the first query cached, in the
            # registry itself and in every registry based on it (handlers half of the time)
            hs = [w for w in where if w[2] is None]
            r0, req, p = rng.choice(hs) if hs and rng.random() < 0.5 else rng.choice(where)
            rq = rng.choice([x for x in range(n_regs) if r0 in above(x)])
            q = q_subscriptions(rq, (req, p))
            ops.append(list(q))
            u = rng.random()
            if u < 0.4:
                ops.append(["unsubscribe", r0, list(req), p, None])
            elif u < 0.8:
                ops.append(["unsubscribe", r0, list(req), p, RC.gen_value(rng, 4)])
            else:
                ops.append(["subscribe", r0, list(req), p, RC.gen_value(rng, 4)])
                where.append((r0, list(req), p))
            ops.append(list(q))
            if rq != r0 and rng.random() < 0.5:
                ops.append(["subscriptions", r0, list(q[2]), q[3]])
        elif k == "unsubscribe":
            if keys and rng.random() < 0.85:
                req, p = rng.choice(keys)
            else:
                req, p = fresh_key()
            v = RC.gen_value(rng, 4) if rng.random() < 0.7 else None
            ops.append(["unsubscribe", r, req, p, v])
        elif k == "register":
            provs = [p for _, p in keys if p is not None] or ifaces
            skeys = [kk for kk in keys if kk[1] is not None]
            if skeys and rng.random() < 0.6:
                req, pr = rng.choice(skeys)        # an adapter under the very key of a subscription
                req = list(req)
            else:
                req, pr = RC.gen_req(rng, key_pool, rng.choice([0, 1, 1, 2])), rng.choice(provs)
            ops.append(["register", r, req, pr, rng.choice([0, 0, 1]),
                        RC.gen_value(rng, 4) if rng.random() > 0.1 else None])
        elif k == "unregister":
            regs = [o for o in ops if o[0] == "register" and o[1] == r]
            if regs:
                o = rng.choice(regs)
                ops.append(["unregister", r, o[2], o[3], o[4], None if rng.random() < 0.6 else RC.gen_value(rng, 4)])
        elif k == "setregbases":
            below = lambda y: [x for x in range(n_regs) if x != y and y in above(x)]   # noqa: E731
            if deep:
                # an interior registry, preferably with a chain of >= 2 registries below it
                inner = [y for y in range(1, n_regs) if below(y)]
                far = [y for y in inner if any(below(x) for x in below(y))]
                if far and rng.random() < 0.7:
                    r = rng.choice(far)
                elif inner:
                    r = rng.choice(inner)
            old_above = above(r)
            cand = [b for b in range(n_regs) if b < r]
            rng.shuffle(cand)
            bs = sorted(cand[: rng.choice([0, 1, 1, 1, 2] if deep else [0, 1, 1, 2])], reverse=True)
            ops.append(["setregbases", r, bs])
            cur_bases[r] = bs
            if deep or rng.random() < 0.4:
                # ask every registry below the re-based one (and itself) right away
                moved = set(old_above) ^ set(above(r))
                near = [w for w in where if w[0] in moved] or [w for w in where if w[0] in old_above + above(r)] or where
                for x in [r] + below(r):
                    if near:
                        _r0, req, p = rng.choice(near)
                        ops.append(q_subscriptions(x, (req, p)))
                        if nobj and req and rng.random() < 0.25:
                            ops.append(q_subscribers(x, (req, p)))
        elif k == "query" and keys:
            key = rng.choice(keys)
            u = rng.random()
            if u < 0.6:
                ops.extend(with_lookups(q_subscriptions(r, key)))
            elif u < 0.75 and nobj and key[0]:
                ops.append(q_subscribers(r, key))
            elif u < 0.9:
                ops.append(["subscribed", r, key[0], key[1], RC.gen_value(rng, 4)])
            else:
                ops.append(["allSubscriptions", r])
    # final block: every used key, related look-ups, from several registries
    uniq = []
    for key in keys:
        if key not in uniq:
            uniq.append(key)
    rng.shuffle(uniq)
    for key in uniq[:8]:
        for r in range(n_regs):
            if r == n_regs - 1 or rng.random() < 0.6:
                ops.extend(with_lookups(q_subscriptions(r, key)))
                if rng.random() < 0.5:
                    ops.append(q_subscriptions(r, key))
        r = rng.randrange(n_regs)
        for vid in (1, 2, 3):
            ops.append(["subscribed", r, key[0], key[1], [vid, 1 if vid in (1, 2) else vid]])
        if nobj and key[0] and rng.random() < 0.5:
            ops.append(q_subscribers(n_regs - 1, key))
    # unrelated look-ups (arity 0..3, any provided)
    for _ in range(3):
        ar = rng.choice([0, 1, 2, 3])
        ops.append(["subscriptions", rng.randrange(n_regs), [rng.choice(look_pool) for _ in range(ar)],
                    rng.choice(ifaces + [0]) if rng.random() > 0.25 else None])
    for r in range(n_regs):
        ops.append(["allSubscriptions", r])
    world["ops"] = ops
    return world


def _dyn_case(rng, tier):
    """Dynamic-world stream: between subscriptions queries the specification graph changes
    (``Z.__bases__ = ...`` on an interface, classImplements on a class whose specification is used
    as required), with no registry change in between; queries of arity >= 2 share their leading
    required specs with earlier queries.  Interfaces used as PROVIDED (and their ancestors) are
    never re-based (re-basing a provided interface is outside the property; upstream TODO)."""
    world, ifaces, classes = RC.gen_world(rng, n_ifaces=rng.choice([4, 5, 6]), n_classes=rng.choice([2, 3, 3]),
                                          n_objects=2)
    specs0 = copy.deepcopy(world["specs"])      # the generator updates its picture of the world below
    specs = world["specs"]
    rel = RC.Rel(world)
    # provided pool: one or two interfaces and everything above them; the rest may be re-based
    seedp = rng.sample(ifaces[: max(2, len(ifaces) // 2)], rng.choice([1, 1, 2]))
    frozen = set()
    for x in seedp:
        frozen |= set(rel.ancestors(x))
    P = sorted(x for x in frozen if x in ifaces)
    R = [x for x in ifaces if x not in frozen]          # re-basable interfaces
    fl = rng.choice(["push", "verifying"])
    n_regs = rng.choice([1, 1, 2, 3])
    ops = []
    for r in range(n_regs):
        ops.append(["newreg", fl, [r - 1] if r and rng.random() < 0.8 else []])
    look_pool = list(ifaces) + list(classes)
    changeable = R + list(classes)
    keys = []

    def prov():
        return rng.choice(P) if rng.random() > 0.3 else None

    def look_prov(p):
        if p is None:
            return None
        return rng.choice([x for x in rel.ancestors(p) if x in ifaces or x == 0])

    # subscriptions of arity 1..3 (mostly >= 2) on interfaces; duplicates and equal values
    for _ in range(rng.choice([4, 6, 9])):
        if keys and rng.random() < 0.3:
            req, p = rng.choice(keys)
        else:
            ar = rng.choice([1, 2, 2, 2, 3])
            req = [rng.choice(ifaces + [None]) if rng.random() < 0.9 else rng.choice(classes) for _ in range(ar)]
            p = prov()
        keys.append((list(req), p))
        ops.append(["subscribe", rng.randrange(n_regs), list(req), p, RC.gen_value(rng, 4)])
    if rng.random() < 0.5:
        req, p = rng.choice(keys)
        if p is not None:
            ops.append(["register", rng.randrange(n_regs), list(req), p, 0, RC.gen_value(rng, 4)])

    def conv(x):
        return 0 if x is None else x

    def below(x):
        return [d for d in rel.descendants(conv(x)) if d in look_pool] or look_pool

    def change(z, want):
        """make spec z gain (or, for an interface, lose) the interface ``want``; returns the op or None"""
        nonlocal rel
        sp = specs[z]
        if sp["kind"] == "class":
            if want in rel.ancestors(z):
                return None
            sp["implements"] = sp["implements"] + [want]
            rel = RC.Rel(world)
            return ["classimplements", z, [want], "add"]
        cur = list(sp["bases"])
        if want in rel.ancestors(z) and want != z:
            nb = [b for b in cur if want not in rel.ancestors(b)]
        elif want < z:
            nb = RC._consistent_bases(specs, cur + [want])
        else:
            return None
        if nb == cur:
            return None
        sp["bases"] = nb
        rel = RC.Rel(world)
        return ["setspecbases", z, nb]

    for _ in range(rng.choice([2, 3, 4, 6])):
        req, p = rng.choice([k for k in keys if len(k[0]) >= 2] or keys)
        r = rng.randrange(n_regs)
        lp = look_prov(p)
        j = rng.randrange(1, len(req)) if len(req) >= 2 else 0      # the position whose spec will change
        want = conv(req[j])
        lead = [rng.choice(below(x)) for x in req]                  # a fully applicable look-up
        zs = [z for z in changeable if z != want]
        if not zs:
            continue
        # prefer a spec that can gain ``want`` (a class, or a later interface not yet extending it) or lose it
        good = [z for z in zs if want in ifaces and
                (specs[z]["kind"] == "class" and want not in rel.ancestors(z)
                 or specs[z]["kind"] == "iface" and (want in rel.ancestors(z) or want < z))]
        z = rng.choice(good) if good and rng.random() < 0.85 else rng.choice(zs)
        others = [rng.choice(look_pool) for _ in range(rng.choice([1, 2]))]
        qs = []
        for y in others:                                           # same leading specs, other spec at j
            q = list(lead)
            q[j] = y
            qs.append(["subscriptions", r, q, lp])
        qz = list(lead)
        qz[j] = z
        qs.append(["subscriptions", r, qz, lp])
        if rng.random() < 0.3:
            rng.shuffle(qs)
            if qs[-1][2] != qz:                                    # keep z's query after another one
                qs.append(["subscriptions", r, list(qz), lp])
        ops.extend(qs)
        if rng.random() < 0.25 and world["objects"] and p is not None:
            ops.append(["lookupAll", r, list(qz), lp])
        op = change(z, want) if want in ifaces else None
        if op is None and R:                                       # some other change of the graph
            z2 = rng.choice(R)
            op = change(z2, rng.choice([x for x in ifaces if x < z2] or [0])) if [x for x in ifaces if x < z2] else None
        if op is not None:
            ops.append(op)
        ops.append(["subscriptions", r, list(qz), lp])
        for q in qs[:2]:
            ops.append(list(q))
        if rng.random() < 0.4:                                     # and back (interfaces only)
            op2 = change(z, want) if want in ifaces and specs[z]["kind"] == "iface" else None
            if op2 is not None:
                ops.append(op2)
                ops.append(["subscriptions", r, list(qz), lp])
        if rng.random() < 0.3:
            kk = rng.choice(keys)
            ops.append(["subscribe", rng.randrange(n_regs), list(kk[0]), kk[1], RC.gen_value(rng, 4)])
    for r in range(n_regs):
        ops.append(["allSubscriptions", r])
    # the driver starts from the original world
    world["ops"] = ops
    world["specs"] = specs0
    world["stream"] = "dynamic"
    return world


def generate(run, tier):
    rng = run.rng("gen")
    n = 170 if tier == "quick" else 2400
    cases = [_gen_case(rng, tier) for _ in range(n)]
    rng2 = run.rng("dyn")
    m = 100 if tier == "quick" else 1500
    cases += [_dyn_case(rng2, tier) for _ in range(m)]
    return cases


def _cop_terms(case, obs):
    terms, answers = [], []
    objects = case.get("objects", [])
    for op, a, asg in zip(case["ops"], obs["answers"], obs["assigns"]):
        if op[0] in ("setspecbases", "classimplements"):
            if a != []:
                raise C.HarnessError("specification op failed in the driver: %r" % (op,))
            for x, bs in asg:
                terms.append("(CSetSpecBases %d %s)" % (x, RC.c_lnat(bs)))
                answers.append([])
        else:
            terms.append("(CReg %s)" % RC.c_op(op, obs, objects))
            # the 999999 separator of ``subscribers`` answers is written as 0 (see Tie/C07.v)
            answers.append([0 if (x == 999999 and op[0] == "subscribers") else x for x in a])
    return terms, answers


def coq_case(case, obs, mode):
    if "error" in obs:
        raise C.HarnessError("driver error: " + obs["error"])
    if obs.get("trouble"):
        raise C.HarnessError("driver trouble: " + "; ".join(obs["trouble"][:3]))
    terms, answers = _cop_terms(case, obs)
    return "(%s, %s,\n   [%s],\n   %s)" % (RC.c_graph(obs), RC.c_ifaces(obs), ";\n    ".join(terms),
                                           RC.c_answers(answers))


def _answers(case, obs, kind):
    return [a for op, a in zip(case["ops"], obs.get("answers", [])) if op[0] == kind]


def classify(case, obs):
    subs = _answers(case, obs, "subscriptions")
    if not any(len(a) >= 2 for a in subs):
        return None
    dup = any(len(set(a)) < len(a) for a in subs)
    lens = tuple(sorted(min(len(a), 6) for a in subs))
    multi = False
    live = {}
    for op in case["ops"]:
        if op[0] == "subscribe":
            live.setdefault((op[1], tuple(op[2]), op[3]), []).append(op[4])
        elif op[0] == "unsubscribe":
            k = (op[1], tuple(0 if x is None else x for x in op[2]), op[3])
            k2 = [kk for kk in live if kk[0] == k[0] and tuple(0 if x is None else x for x in kk[1]) == k[1] and kk[2] == k[2]]
            for kk in k2:
                before = len(live[kk])
                live[kk] = [] if op[4] is None else [v for v in live[kk] if v[1] != op[4][1]]
                if before - len(live[kk]) >= 2:
                    multi = True
    return (case["ops"][0][1], sum(1 for op in case["ops"] if op[0] == "newreg"), lens, dup, multi)


def kind(case, obs):
    return "%s/%dreg" % (case["ops"][0][1], sum(1 for op in case["ops"] if op[0] == "newreg"))


def finding_key(case, obs, mode):
    return None


def _py_spec(i, specs):
    k = specs[i]["kind"]
    if k == "root":
        return "Interface"
    return {"iface": "I%d", "object": "implementedBy(object)", "class": "implementedBy(C%d)"}.get(k, "S%d") % (
        () if k == "object" else (i,))


def replay_text(case, obs, mode):
    specs = case["specs"]
    L = ["# PURE_PYTHON=%s" % ("1" if mode == "py" else "0"),
         "from zope.interface import Interface, implementedBy, implementer, providedBy, directlyProvides",
         "from zope.interface.interface import InterfaceClass",
         "from zope.interface.adapter import AdapterRegistry, VerifyingAdapterRegistry",
         "class V:",
         "    def __init__(self, vid, veq): self.vid, self.veq = vid, veq",
         "    def __eq__(self, o): return isinstance(o, V) and o.veq == self.veq",
         "    def __ne__(self, o): return not self.__eq__(o)",
         "    def __hash__(self): return hash(self.veq)",
         "    def __repr__(self): return 'v%d' % self.vid",
         "    def __call__(self, *obs): return None   # (the harness uses reg_common.oracle_call)",
         "vals = {}",
         "def val(vid, veq): return vals.setdefault((vid, veq), V(vid, veq))"]
    for i, s in enumerate(specs):
        if s["kind"] == "iface":
            L.append("I%d = InterfaceClass('I%d', (%s), {})" % (
                i, i, "".join(_py_spec(b, specs) + ", " for b in s["bases"]) or "Interface, "))
        elif s["kind"] == "class":
            L.append("class C%d(%s): pass" % (i, ", ".join("C%d" % b for b in s["cbases"]) or "object"))
            if s["implements"]:
                L.append("implementer(%s)(C%d)" % (", ".join("I%d" % b for b in s["implements"]), i))
    for j, o in enumerate(case.get("objects", [])):
        L.append("o%d = C%d()" % (j, o["cls"]))
        if o.get("direct"):
            L.append("directlyProvides(o%d, %s)" % (j, ", ".join("I%d" % b for b in o["direct"])))
    L.append("regs = []")

    def req(l):
        return "[" + ", ".join("None" if x is None else _py_spec(x, specs) for x in l) + "]"

    def prov(p):
        return "None" if p is None else _py_spec(p, specs)

    def value(v):
        return "None" if v is None else "val(%d, %d)" % (v[0], v[1])

    answers = obs.get("answers", [])
    for n, op in enumerate(case["ops"]):
        k = op[0]
        a = answers[n] if n < len(answers) else None
        if k == "newreg":
            L.append("regs.append(%s((%s)))" % ("AdapterRegistry" if op[1] == "push" else "VerifyingAdapterRegistry",
                                                "".join("regs[%d], " % b for b in op[2])))
        elif k == "setregbases":
            L.append("regs[%d].__bases__ = (%s)" % (op[1], "".join("regs[%d], " % b for b in op[2])))
        elif k in ("register", "unregister"):
            L.append("regs[%d].%s(%s, %s, %r, %s)" % (op[1], k, req(op[2]), prov(op[3]),
                                                     "" if op[4] == 0 else "n%d" % op[4], value(op[5])))
        elif k in ("subscribe", "unsubscribe"):
            L.append("regs[%d].%s(%s, %s, %s)" % (op[1], k, req(op[2]), prov(op[3]), value(op[4])))
        elif k == "rebuild":
            L.append("regs[%d].rebuild()" % op[1])
        elif k == "setspecbases":
            L.append("I%d.__bases__ = (%s)" % (op[1], "".join(_py_spec(b, specs) + ", " for b in op[2]) or "Interface, "))
        elif k == "classimplements":
            L.append("from zope.interface import classImplements; classImplements(C%d, %s)" % (
                op[1], ", ".join("I%d" % b for b in op[2])))
        elif k in ("lookupAll", "names"):
            L.append("print(list(regs[%d].%s(%s, %s)))   # op %d observed %r" % (op[1], k, req(op[2]), prov(op[3]), n, a))
        elif k == "lookup":
            L.append("print(regs[%d].lookup(%s, %s, %r))   # op %d observed %r" % (
                op[1], req(op[2]), prov(op[3]), "" if op[4] == 0 else "n%d" % op[4], n, a))
        elif k == "subscriptions":
            L.append("print(regs[%d].subscriptions(%s, %s))   # op %d observed vids %r" % (op[1], req(op[2]), prov(op[3]), n, a))
        elif k == "subscribed":
            L.append("print(regs[%d].subscribed(%s, %s, %s))   # op %d observed %r" % (op[1], req(op[2]), prov(op[3]), value(op[4]), n, a))
        elif k == "allSubscriptions":
            L.append("print(list(regs[%d].allSubscriptions()))   # op %d observed (sorted, encoded) %r" % (op[1], n, a))
        elif k == "subscribers":
            L.append("print(regs[%d].subscribers([%s], %s))   # op %d observed results+[999999]+called vids %r" % (
                op[1], ", ".join("o%d" % j for j in op[2]), prov(op[3]), n, a))
    L.append("# the first answer rejected by the Spec: Eval vm_compute in (Tie.C07.first_bad c) on this case "
             "(bin/check C07 --replay <this file>)")
    return "\n".join(L)


TECHNIQUE = ("Coq proof (induction over arbitrary subscribe/unsubscribe/register/unregister histories) that the model "
             "of BaseAdapterRegistry/AdapterLookupBase refines a ledger Spec, incl. the extendors/_provided invariant; "
             "vm_compute correspondence with both implementations; independent ledger replay + brute-force sort as Spec oracle")
LEVEL_TEXT = ("Machine-checked theorems (Properties/C07.v, 7 theorems, closed under the global context) state for every "
              "world with duplicate-free __sro__, every list of registries each reached by an arbitrary history, and every "
              "key of any arity that the uncached subscriptions() of the model equals the bucket sort of the ledgers: "
              "a permutation of the applicable live entries (exact multiplicity), base registries first, less specific "
              "required keys first, identical keys in subscription order; that unsubscribe removes exactly the ==-equal "
              "entries of its key; and that handlers bypass the extendors.  The model is compared with the C and Python "
              "implementations on generated histories on every run and the implementation's raw answers are judged in Coq "
              "by replaying the history into the ledger Spec and brute-force sorting the applicable entries.")
LEVEL_NOTE = ("Trusted: Coq kernel/vm_compute; the hand-written model (nested dictionaries abstracted to a finite map on "
              "full keys; caches and the choice of resolution order are C05's/C06's subjects and are only tested here). "
              "The order between entries of the same required key but different provided interfaces is not constrained by "
              "the property; the theorems pin it to the reversed extendors order, the Spec oracle accepts any order.")
