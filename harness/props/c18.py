"""C18 — method descriptions mirror the described function's real signature (DESIGN.md section 5, C18).

The kernel ``interface.fromFunction`` / ``fromMethod`` (and Method.getSignatureInfo / getSignatureString,
Element's tagged-value accessors, ABCInterfaceClass.__method_from_function) is re-translated from the source on every
run (harness/translate/fromfunction.py -> coq/Gen/FromFunction.v); Properties/C18.v is proved
about that generated text."""
import itertools
import os

from .. import common as C
from ..translate import fromfunction as T

ID = "C18"
COQ_TARGETS = ["Tie/C18.vo", "Properties/C18.vo"]
PROPERTY_FILE = "Properties/C18.v"
TIE = "Tie.C18"
DRIVER = "c18_driver.py"
THEOREMS = ["C18_fromFunction_correct", "C18_signature_string_renders", "C18_fromMethod_strips_self",
            "C18_generated_signature_string_eq_model", "C18_generated_tagged_eq_model",
            "C18_generated_abc_method_eq_model", "C18_description_faithful",
            "C18_description_ignores_kwonly_and_locals"]
SHARD = 120
GEN_FILE = os.path.join(C.COQ, "Gen", "FromFunction.v")
SOURCE = os.path.join(C.REPO, "src", "zope", "interface", "interface.py")

RULE = ("real ``def``s: every combination of 0..4 positional-only, 0..4 positional-or-keyword (every legal "
        "number of defaults), 0..4 keyword-only parameters, with/without *name and **name, plus a random "
        "stream with random names (incl. parameters called args/kw/self), locals and function attributes (names incl. "
        "dunder names such as __wrapped__ / __isabstractmethod__ / __roles__, private and non-identifier keys; values "
        "incl. the falsy False, 0, '', (), 0.0, [], None) read back through every tagged-value accessor; "
        "described through fromFunction(f), fromMethod(bound), fromFunction(f, imlevel=1), "
        "class I(Interface): def f and class IA(ABCInterface) over class A(abc.ABC): def f; methods without a "
        "named positional parameter through every route; SEQUENCES of two descriptions in one process where the "
        "second function shares the first one's __code__ but not its __defaults__ (closure sibling, "
        "types.FunctionType, f.__defaults__ reassigned); a case is non-trivial when the function has at least one parameter; "
        "distinct = distinct (via, #posonly, #pos, #defaults, #kwonly, has*, has**)")
TRUSTED_BASE = [
    "CPython function-object layout as stated by Spec/Signature.v layout (co_varnames = positional-only ++ "
    "positional ++ keyword-only ++ [*name] ++ [**name] ++ locals; co_argcount, co_kwonlyargcount, "
    "__defaults__ = defaults of the positional suffix; CO_VARARGS / CO_VARKEYWORDS flags): an assumption, "
    "compared field by field with f.__code__ / f.__defaults__ of every generated def on every run "
    "(Tie/C18.v check_layout)",
    "inspect.signature as the reference reading of a def (and of a bound method: first positional removed)",
    "harness/translate/fromfunction.py (fail-closed ast translator) + the Python primitives of Model/PyFunc.v "
    "(slices, indexing, dict) — validated by the correspondence check_model on every case",
    "getattr(func, '__defaults_count__', 0) is 0 on CPython (PyPy-only attribute; the driver checks hasattr is False)",
]
ASSUMPTIONS = ["parameter names are non-empty identifiers (``if self.varargs`` tests the name's truth value)",
               "defaults / attribute values are compared by identity against the case's object table",
               "a bound callable without positional parameter and without *args has no inspect.signature; "
               "its description is judged against the function's own signature (nothing stripped)"]

OBJS = ["1", "'s'", "None", "(1, 2)", "2.5", "-7", "'a b'", "True", "'\\u00e9'", "()", "1000003", "[]",
        "False", "0", "''", "0.0"]      # falsy values included: False 0 '' 0.0 () [] None
PLAIN = ["a", "b", "c", "d", "e", "x", "y", "z", "p", "q", "r", "s", "t", "u", "v", "w", "n", "m", "i", "j",
         "k", "key", "value", "default", "name", "obj", "_", "_x", "long_parameter_name", "été"]
TRICKY = ["args", "kw", "kwargs", "self", "cls", "opt", "names", "code", "func", "method"]
VIA_TEXT = {0: "fromFunction(f)", 1: "fromMethod(C().f)", 2: "fromFunction(f, imlevel=1)",
            3: "I['f'] for class I(Interface): def f", 4: "IA['f'] for class IA(ABCInterface): abc = A"}
NVIA = 5


# --------------------------------------------------------------------------- generation

# attribute names that are not ordinary identifiers-for-metadata: dunder names (what decorators
# such as functools.wraps / abc.abstractmethod leave in __dict__), private names, non-identifiers
ODD_ATTRS = ["__roles__", "__wrapped__", "__isabstractmethod__", "__x__", "____", "_private", "_", "__",
             "", "two words", "a.b", "\u00e9t\u00e9"]


def _plain_attr(k):
    # ``f.__x`` would be name-mangled inside a class body
    return k.isidentifier() and k.isascii() and not (k.startswith("__") and not k.endswith("__"))


def build_src(shape, via):
    def ptxt(p):
        return p[0] if p[1] is None else "%s=_o[%d]" % (p[0], p[1])

    parts = [ptxt(p) for p in shape["posonly"]]
    if shape["posonly"]:
        parts.append("/")
    parts += [ptxt(p) for p in shape["pos"]]
    if shape["vararg"]:
        parts.append("*" + shape["vararg"])
    elif shape["kwonly"]:
        parts.append("*")
    parts += [ptxt(p) for p in shape["kwonly"]]
    if shape["varkw"]:
        parts.append("**" + shape["varkw"])
    body = (" = ".join(shape["locals"]) + " = None") if shape["locals"] else "pass"
    lines = ["def f(%s):" % ", ".join(parts), "    " + body]
    lines += [("f.%s = _o[%d]" % (k, v)) if _plain_attr(k) else ("f.__dict__[%r] = _o[%d]" % (k, v))
              for k, v in shape["attrs"]]
    if via in (1, 3, 4):
        lines.append("_keep.append(f)")
        head = {1: "class C:", 3: "class I(Interface):", 4: "class A(abc.ABC):"}[via]
        lines = [head] + ["    " + ln for ln in lines]
        if via == 4:
            lines += ["class IA(ABCInterface):", "    abc = A"]
    return "\n".join(lines) + "\n"


def make_case(shape, via, sibling=None):
    c = {"src": build_src(shape, via), "via": via, "objs": OBJS, "attrs": shape["attrs"], "shape": shape}
    if sibling:
        c["sibling"] = sibling
    return c


def _sibling(rng, shape):
    """second function object sharing f's code object but not its __defaults__ (or f itself after
    its __defaults__ were reassigned): described after f in the same process"""
    npos = len(shape["posonly"]) + len(shape["pos"])
    how = rng.choice(["closure", "functype", "functype", "setdefaults", "setdefaults"])
    if how == "closure":
        return {"how": how, "rot": rng.randrange(1, len(OBJS))}
    nd = rng.randint(0, npos)
    return {"how": how, "defaults": [rng.randrange(len(OBJS)) for _ in range(nd)]}


def _names(rng, n, tricky):
    pool = PLAIN + (TRICKY * 3 if tricky else [])
    out = []
    while len(out) < n:
        x = rng.choice(pool)
        if x not in out:
            out.append(x)
    return out


def _shape(rng, n0, n1, nd, nk, va, vk, nloc, nattr, tricky, self_first=False):
    total = n0 + n1 + nk + int(va) + int(vk) + nloc
    nm = _names(rng, total + nattr, tricky)
    if self_first and n0 + n1 > 0:
        if "self" in nm:
            nm.remove("self")
            nm.append(rng.choice([x for x in PLAIN if x not in nm]))
        nm[0] = "self"
    it = iter(nm)
    P = []
    for i in range(n0 + n1):
        P.append([next(it), rng.randrange(len(OBJS)) if i >= n0 + n1 - nd else None])
    K = [[next(it), rng.randrange(len(OBJS)) if rng.random() < 0.5 else None] for _ in range(nk)]
    vararg = next(it) if va else None
    varkw = next(it) if vk else None
    if tricky and va and vk and rng.random() < 0.3:
        vararg, varkw = "kw", "args"
        for p in P + K:
            if p[0] in ("kw", "args"):
                p[0] = p[0] + "_"
    loc = [next(it) for _ in range(nloc)]
    loc = [x for x in loc if x not in (vararg, varkw) and x not in [p[0] for p in P + K]]
    attrs = [[next(it), rng.randrange(len(OBJS))] for _ in range(nattr)]
    for a in attrs:
        if rng.random() < 0.4:
            odd = rng.choice(ODD_ATTRS)
            if odd not in [x[0] for x in attrs]:
                a[0] = odd
    return {"posonly": P[:n0], "pos": P[n0:], "vararg": vararg, "kwonly": K, "varkw": varkw,
            "locals": loc, "attrs": attrs}


def generate(run, tier):
    rng = run.rng("gen")
    cases = []
    k = 0
    for n0, n1, nk, va, vk in itertools.product(range(5), range(5), range(5), (False, True), (False, True)):
        for nd in range(n0 + n1 + 1):
            vias = range(NVIA) if tier == "thorough" else (k % NVIA,)
            k += 1
            for via in vias:
                sh = _shape(rng, n0, n1, nd, nk, va, vk, rng.choice([0, 0, 1, 2]), rng.choice([0, 0, 1]),
                            tricky=rng.random() < 0.3, self_first=(via in (1, 2, 4) and rng.random() < 0.7))
                cases.append(make_case(sh, via))
    # methods without a named positional parameter (def f(*args), def f(**kw), def f(*a, **k),
    # keyword-only ...) through every route, bound ones included: nothing is stripped
    for nk, va, vk in itertools.product(range(4), (False, True), (False, True)):
        for via in range(NVIA):
            sh = _shape(rng, 0, 0, 0, nk, va, vk, rng.choice([0, 1, 2]), rng.choice([0, 1]), tricky=rng.random() < 0.5)
            cases.append(make_case(sh, via))
    n = 500 if tier == "quick" else 8000
    top = 4 if tier == "quick" else 7
    for _ in range(n):
        n0, n1, nk = rng.randint(0, top), rng.randint(0, top), rng.randint(0, top)
        via = rng.randrange(NVIA)
        if rng.random() < 0.1:
            n0 = n1 = 0
        sh = _shape(rng, n0, n1, rng.randint(0, n0 + n1), nk, rng.random() < 0.6, rng.random() < 0.6,
                    rng.randint(0, 4), rng.randint(0, 3), tricky=rng.random() < 0.5,
                    self_first=(via in (1, 2, 4) and rng.random() < 0.5))
        cases.append(make_case(sh, via))
    # SEQUENCES: describe f, then a second function object with the same __code__ and other
    # __defaults__ (closure sibling / types.FunctionType / f.__defaults__ reassigned); the second
    # description is the one judged
    n = 450 if tier == "quick" else 5000
    for _ in range(n):
        n0, n1, nk = rng.randint(0, 3), rng.randint(0, 3), rng.randint(0, 2)
        if n0 + n1 == 0:
            n1 = rng.randint(1, 3)
        via = rng.randrange(NVIA)
        sh = _shape(rng, n0, n1, rng.randint(0, n0 + n1), nk, rng.random() < 0.4, rng.random() < 0.4,
                    rng.randint(0, 2), rng.randint(0, 2), tricky=rng.random() < 0.3,
                    self_first=(via in (1, 2, 4) and rng.random() < 0.5))
        cases.append(make_case(sh, via, _sibling(rng, sh)))
    return cases


# --------------------------------------------------------------------------- Coq terms

class _Names:
    def __init__(self):
        self.tbl = []

    def __call__(self, s):
        if s not in self.tbl:
            self.tbl.append(s)
        return self.tbl.index(s)


def _o(i):
    return 999 if i is None or i < 0 else i


def _pairs(nm, prs):
    return C.clist(["(%d, %d)" % (nm(k), _o(v)) for k, v in prs])


def _view(nm, v):
    return C.clist(["(%d, %d, %s)" % (nm(n), kd, "None" if d is None else "(Some %d)" % _o(d)) for n, kd, d in v])


def coq_case(case, obs, mode):
    if "broken" in obs:
        raise C.HarnessError("C18 case does not run: %s\n%s" % (obs["broken"], case.get("src")))
    nm = _Names()
    co = obs["code"]
    code = "(mkCode %d %d %s %s %s %s 0 %s)" % (
        co["argcount"], co["kwonly"], C.clist([str(nm(x)) for x in co["varnames"]]), C.cbool(co["va"]),
        C.cbool(co["vk"]), C.clist([str(_o(d)) for d in co["defaults"]]), _pairs(nm, co["fdict"]))
    view_f = _view(nm, obs["view_f"])
    vt = obs["view_t"]
    if vt is None:
        # inspect.signature refuses to bind a callable without a positional parameter and without
        # *args ("invalid method signature"): the description keeps every parameter
        drop = 1 if case["via"] in (1, 2, 4) else 0
        npos = sum(1 for p in obs["view_f"] if p[1] <= 1)
        vt = obs["view_f"][min(drop, npos):]
    view_t = _view(nm, vt)
    exp_attrs = case.get("attrs", [])
    sib = case.get("sibling")
    if sib and sib["how"] == "closure":     # the second run of the def saw the rotated object table
        exp_attrs = [[k, (v + sib["rot"]) % len(case["objs"])] for k, v in exp_attrs]
    attrs = _pairs(nm, exp_attrs)
    other = False
    if "info" in obs and "sigstr" in obs and "tagged" in obs and "exc" not in obs:
        i = obs["info"]
        res = "(Ok (mkMethod %s %s %s %s %s %s))" % (
            C.clist([str(nm(x)) for x in i["positional"]]), C.clist([str(nm(x)) for x in i["required"]]),
            _pairs(nm, i["optional"]), C.copt(i["varargs"], lambda x: str(nm(x))),
            C.copt(i["kwargs"], lambda x: str(nm(x))), _pairs(nm, obs["tagged"]))
    else:
        res = "IndexError"
        other = obs.get("exc") != "raised:IndexError"
    none = obs["reprs"].index("None") if "None" in obs["reprs"] else 998
    tags = C.clist([str(nm(x)) for x in obs.get("tags", [])])
    dtags = C.clist([str(nm(x)) for x in obs.get("dtags", [])])
    reads = C.clist(["(%d, %s)" % (nm(t), C.clist([str(x) for x in rs])) for t, rs in obs.get("reads", [])])
    # the name table is complete only now (nm assigns indices on first use)
    return "(mkCase %s %s %d %s %s %s %s %s %s %s %s %d %s %s %s)" % (
        C.clist([C.cstr_codes(x) for x in nm.tbl]), C.clist([C.cstr_codes(x) for x in obs["reprs"]]),
        case["via"], code, C.cbool(obs["has_dc"]), view_f, view_t, attrs, res, C.cbool(other),
        C.cstr_codes(obs.get("sigstr", "")), none, tags, dtags, reads)


def _sig(obs):
    v = obs.get("view_f") or []
    kinds = [p[1] for p in v]
    nd = sum(1 for p in v if p[1] <= 1 and p[2] is not None)
    return (kinds.count(0), kinds.count(1), nd, kinds.count(3), 2 in kinds, 4 in kinds)


def classify(case, obs):
    if "broken" in obs or not obs.get("view_f"):
        return None
    return (case["via"], (case.get("sibling") or {}).get("how")) + _sig(obs)


def kind(case, obs):
    s = _sig(obs) if "broken" not in obs else None
    sib = case.get("sibling")
    return "via=%s%s%s" % (VIA_TEXT.get(case["via"], case["via"]),
                           "" if s is None else (" kwonly" if s[3] else "") + (" posonly" if s[0] else "")
                           + (" no-positional" if s[0] + s[1] == 0 else ""),
                           " after-sibling:" + sib["how"] if sib else "")


def finding_key(case, obs, mode):
    s = _sig(obs)
    return "via%d/posonly%d/pos%d/defaults%d/kwonly%d/star%d/starstar%d%s" % (
        (case["via"],) + tuple(int(x) for x in s) + ("/after-" + case["sibling"]["how"] if case.get("sibling") else "",))


def replay_text(case, obs, mode):
    via = case["via"]
    fn = "f" if via in (0, 2) else "_keep[0]"
    call = {0: "m = fromFunction(%s)", 1: "m = fromMethod(types.MethodType(%s, object()))",
            2: "m = fromFunction(%s, imlevel=1)", 3: "m = InterfaceClass('I', (Interface,), {'f': %s})['f']",
            4: "m = type(ABCInterface)('IA', (ABCInterface,), {'abc': abc.ABCMeta('A', (), {'f': %s})})['f']"}[via]
    text = ("# PURE_PYTHON=%s\nimport abc, inspect, types\nfrom zope.interface import Interface\n"
            "from zope.interface.common import ABCInterface\n"
            "from zope.interface.interface import InterfaceClass, fromFunction, fromMethod\n_o = [%s]\n_keep = []\n%s"
            % ("1" if mode == "py" else "0", ", ".join(case["objs"]), case["src"]))
    sib = case.get("sibling")
    if sib:
        text += "%s   # first description\nprint(m.getSignatureInfo())\n" % (call % fn)
        if sib["how"] == "closure":
            text += ("# second function object from the same def executed again with the object table rotated by %d\n"
                     "# (closure factory sibling: same __code__, other __defaults__) -- see harness/drivers/c18_driver.py\n"
                     % sib["rot"])
            dflt = "tuple(_o[(_o.index(d) + %d) %% len(_o)] for d in (%s.__defaults__ or ()))" % (sib["rot"], fn)
        else:
            dflt = "(%s)" % "".join("_o[%d], " % i for i in sib["defaults"])
        if sib["how"] == "setdefaults":
            text += "%s.__defaults__ = %s or None\ng = %s\n" % (fn, dflt, fn)
        else:
            text += ("g = types.FunctionType(%s.__code__, globals(), 'f', %s or None)\n"
                     "g.__kwdefaults__ = %s.__kwdefaults__; g.__dict__.update(%s.__dict__)\n" % (fn, dflt, fn, fn))
        fn = "g"
    text += ("%s\nprint(m.getSignatureInfo(), m.getSignatureString(), inspect.signature(%s))\n"
             "for t in list(m.getTaggedValueTags()) + ['absent_tag_']:   # must agree with the function's __dict__\n"
             "    print(t, m.queryTaggedValue(t), m.queryTaggedValue(t, 'DEFAULT'), m.queryDirectTaggedValue(t, 'DEFAULT'))\n"
             "# observed reads per tag [get, getDirect, query, queryDirect, query(t, d), queryDirect(t, d)] "
             "(object index | 1000 KeyError | 1001 default | 1003 None): %r\n"
             "# observed: info=%r string=%r exc=%r\n# inspect.signature view of the described function "
             "(name, kind, default index): %r"
             % (call % fn, fn, obs.get("reads"), obs.get("info"), obs.get("sigstr"), obs.get("exc"), obs.get("view_f")))
    return text


# --------------------------------------------------------------------------- regeneration

def regenerate(run):
    """Re-translate fromFunction / fromMethod from the working tree.  On abort a stub without a
    kernel is written (translation_ok = false): the theorems then fail to check and the Tie
    only runs the Spec oracle; the abort itself is returned as the error."""
    errs = []
    try:
        text = T.translate_file(SOURCE)
    except T.Abort as e:
        text = T.stub(SOURCE, str(e))
        errs.append("harness/translate/fromfunction.py aborted on %s: %s "
                    "(Gen/FromFunction.v has no kernel; Properties/C18.v cannot be re-proved)" % (SOURCE, e))
    except Exception as e:   # unreadable / unparsable source, or a defect of the translator: refuse
        text = T.stub(SOURCE, repr(e))
        errs.append("harness/translate/fromfunction.py cannot translate %s: %r "
                    "(Gen/FromFunction.v has no kernel; Properties/C18.v cannot be re-proved)" % (SOURCE, e))
    with C.CoqLock():
        C.write_if_changed(GEN_FILE, text)
    run.coverage["translated_kernel"] = {"source": SOURCE, "generated": "coq/Gen/FromFunction.v",
                                         "ok": not errs}
    # the Tie (model + Spec oracle) must exist even when the proofs over the new kernel fail
    ok, out = C.coq_make(["Tie/C18.vo"])
    if not ok:
        errs.append("Tie/C18.vo does not build over the regenerated kernel:\n" + out[-2000:])
    return errs


TECHNIQUE = ("Coq proof over a Gallina kernel regenerated from interface.fromFunction by a fail-closed ast "
             "translator; CPython layout assumption and correspondence checked by vm_compute on real defs")
LEVEL_TEXT = ("Machine-checked theorems (Properties/C18.v, 8 theorems, closed under the global context) state, for every "
              "valid signature with any number of positional-only / positional / keyword-only parameters, any "
              "defaults, optional * and **, any locals and any imlevel (clamped to the positional count), that the "
              "kernel translated from the current source returns exactly the signature's description, that "
              "getSignatureString renders it, that fromMethod strips the first parameter, that the description is "
              "faithful (equal descriptions => equal remaining positional parameters with their defaults, equal * / ** "
              "names, equal attributes) and that keyword-only parameters and locals never influence it.  The kernel is "
              "regenerated and the proofs re-checked on every run; generated defs are executed in both modes and "
              "judged in Coq against inspect.signature.")
LEVEL_NOTE = ("Trusted: Coq kernel/vm_compute; the translator and the Python-primitive semantics of Model/PyFunc.v "
              "(validated by correspondence); CPython's code-object layout (Spec layout, validated against every "
              "generated def each run); the call sites in InterfaceClass.__compute_attrs / verify are hand-modelled "
              "(validated by correspondence).  Method.getSignatureString / getSignatureInfo, Element's tagged-value "
              "accessors and ABCInterfaceClass.__method_from_function are regenerated and proved equal to the model.")
