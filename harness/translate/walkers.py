"""Fail-closed translator: the registry WALKERS and the extendors bookkeeping of
``zope/interface/adapter.py``  ->  ``coq/Gen/WalkersKernel.v``.

Translated (each must exist exactly once, undecorated, never rebound):

  module level   _convert_None_to_Interface, _lookup, _lookupAll, _subscriptions
  class AdapterLookupBase
                 _uncached_lookup, _uncached_lookupAll, _uncached_subscriptions,
                 add_extendor, remove_extendor, init_extendors

Gallina vocabulary (coq/Model/WalkersVocab.v fixes the meaning of each accepted Python construct,
coq/Model/Trie.v the nested dictionaries, coq/Model/Adapter.v worlds / extendors):

  components.get(k) / components_get(k)      tget components k            (the local alias is resolved)
  ``if comps:``                              otruthy <payload truthiness> comps
  comps passed on as a dictionary            odict comps
  specs[i].__sro__ / provided.__iro__        w_sro W (nth i specs root) / iro W provided
  reversed(x)                                rev x
  a ``for`` whose body ends in ``r = E; if r is not None: return r`` (resp. ``result = E; if result is
  not None: break``) and whose fall-through returns None
                                             first_some (fun x => ... E ...) iterable
  a ``for`` whose body ends in a call that mutates ``result``
                                             fold_left (fun result x => ...) iterable result
  ``if C: continue``                         if C then <skip> else <rest>
  try: components = byorder[order] / except IndexError: continue
                                             match nth_error byorder order with None => <skip> | Some components => <rest>
  d.get(provided) on an _extendors dict      aget Nat.eqb d provided : option (list spec)
  ``if not extendors`` / ``extendors is None``    negb (lotruthy extendors) / match extendors with None => ...
  result.update(comps) / result.extend(comps)     dict_update result (odict comps) / result ++ otuple comps
  [e for e in xs if c]                       filter (fun e => c) xs
  the recursion on (i, l)                    structural recursion on an explicit fuel argument; callers pass
                                             S l, the recursive call passes the predecessor (Proofs/WalkersKernel.v
                                             proves the fuel is always sufficient)
  self._subscribe(*required)                 REQUIRED at the end of every _uncached_* (cache invalidation
                                             subscriptions; no effect on the returned value)

Only the statement and expression shapes implemented below are accepted; anything else raises
``TranslationError`` (the caller reports a broken tie and falls back to the pinned text, it never guesses).
Python variables are emitted as ``py_<name>``.
"""
import ast


class TranslationError(Exception):
    pass


def _fail(node, why):
    raise TranslationError("adapter.py:%s: %s: %s" % (
        getattr(node, "lineno", "?"), why, ast.dump(node)[:220] if isinstance(node, ast.AST) else node))


def _py(name):
    return "py_" + name


def _strip_doc(stmts):
    stmts = list(stmts)
    if stmts and isinstance(stmts[0], ast.Expr) and isinstance(stmts[0].value, ast.Constant) \
            and isinstance(stmts[0].value.value, str):
        stmts = stmts[1:]
    return stmts


def _is_name(n, name=None):
    return isinstance(n, ast.Name) and (name is None or n.id == name)


def _is_none(n):
    return isinstance(n, ast.Constant) and n.value is None


def _params(fn, n, defaults=()):
    a = fn.args
    if a.vararg or a.kwarg or a.kwonlyargs or a.kw_defaults or getattr(a, "posonlyargs", None):
        _fail(fn, "unexpected parameter kinds of %s" % fn.name)
    if fn.decorator_list:
        _fail(fn, "decorated %s" % fn.name)
    if len(a.args) != n:
        _fail(fn, "%s takes %d parameters, expected %d" % (fn.name, len(a.args), n))
    got = [d.value if isinstance(d, ast.Constant) else _fail(d, "non-constant default") for d in a.defaults]
    if got != list(defaults):
        _fail(fn, "unexpected defaults %r of %s" % (got, fn.name))
    names = [x.arg for x in a.args]
    if len(set(names)) != len(names):
        _fail(fn, "duplicate parameter names")
    return names


def _call(n, nargs=None):
    if not (isinstance(n, ast.Call) and not n.keywords):
        _fail(n, "expected a plain call")
    if any(isinstance(x, ast.Starred) for x in n.args):
        _fail(n, "unexpected *args in call")
    if nargs is not None and len(n.args) != nargs:
        _fail(n, "expected %d arguments" % nargs)
    return n.func, n.args


def _method_call(n, attr, nargs):
    """obj.attr(args) -> (obj node, args)"""
    f, args = _call(n, nargs)
    if not (isinstance(f, ast.Attribute) and f.attr == attr):
        _fail(n, "expected a call of .%s" % attr)
    return f.value, args


def _reversed(n):
    """-> (inner node, reversed?)"""
    if isinstance(n, ast.Call) and _is_name(n.func, "reversed"):
        _f, args = _call(n, 1)
        return args[0], True
    return n, False


def _wrap_rev(text, rev):
    return "(rev %s)" % text if rev else text


def _is_not_none_test(test, var):
    return (isinstance(test, ast.Compare) and len(test.ops) == 1 and isinstance(test.ops[0], ast.IsNot)
            and _is_name(test.left, var) and _is_none(test.comparators[0]))


# --------------------------------------------------------------------------- module-level walkers

WALKERS = {
    # kind: (python name, coq name, parameter roles by position, result type)
    "lookup": ("_lookup", "g_lookup", ["comp", "specs", "provided", "name", "i", "l"], "option value"),
    "lookupAll": ("_lookupAll", "g_lookupAll", ["comp", "specs", "provided", "result", "i", "l"],
                  "list (nat * value)"),
    "subscriptions": ("_subscriptions", "g_subscriptions",
                      ["comp", "specs", "provided", "name", "result", "i", "l"], "list value"),
}
ROLE_TYPE = {
    "lookup": {"comp": "trie value", "specs": "list spec", "provided": "list spec", "name": "nat", "i": "nat", "l": "nat"},
    "lookupAll": {"comp": "trie value", "specs": "list spec", "provided": "list spec", "result": "list (nat * value)",
                  "i": "nat", "l": "nat"},
    "subscriptions": {"comp": "trie (list value)", "specs": "list spec", "provided": "list nat", "name": "nat",
                      "result": "list value", "i": "nat", "l": "nat"},
}
PAYLOAD_TRUTHY = {"lookup": "vtruthy", "lookupAll": "vtruthy", "subscriptions": "tnonempty"}
COQ_OF_PYFUN = {"_lookup": "g_lookup", "_lookupAll": "g_lookupAll", "_subscriptions": "g_subscriptions"}


class _Walker:
    def __init__(self, fn, kind):
        self.fn, self.kind = fn, kind
        self.pyname, self.coqname, self.roles, self.rtype = WALKERS[kind]
        self.params = _params(fn, len(self.roles))
        self.role = dict(zip(self.roles, self.params))       # role -> python name
        self.alias = None

    def get_call(self, n, dict_var, local=None):
        """<dict>.get(k) or the alias(k), k a name -> coq text"""
        f, args = _call(n, 1)
        if not _is_name(args[0]):
            _fail(n, "key of .get is not a name")
        if _is_name(f) and self.alias is not None and f.id == self.alias and dict_var == self.role["comp"] and local is None:
            return "tget %s %s" % (_py(dict_var), _py(args[0].id))
        if isinstance(f, ast.Attribute) and f.attr == "get" and _is_name(f.value, dict_var):
            d = _py(dict_var) if local is None else "(odict %s)" % _py(dict_var)
            return "tget %s %s" % (d, _py(args[0].id))
        _fail(n, "expected %s.get(<name>)" % dict_var)

    def rec_call(self, n, comps):
        f, args = _call(n, len(self.params))
        if not _is_name(f, self.pyname):
            _fail(n, "expected a recursive call of %s" % self.pyname)
        out = []
        for a in args:
            if _is_name(a, comps):
                out.append("(odict %s)" % _py(comps))
            elif _is_name(a) and a.id in self.params:
                out.append(_py(a.id))
            elif (isinstance(a, ast.BinOp) and isinstance(a.op, ast.Add) and _is_name(a.left) and a.left.id in self.params
                  and isinstance(a.right, ast.Constant) and isinstance(a.right.value, int)
                  and not isinstance(a.right.value, bool)):
                out.append("(%s + %d)" % (_py(a.left.id), a.right.value))
            elif isinstance(a, ast.Constant) and isinstance(a.value, int) and not isinstance(a.value, bool):
                out.append("%d" % a.value)
            else:
                _fail(a, "unsupported argument of the recursive call")
        return "%s fuel' W %s" % (self.coqname, " ".join(out))

    def loop(self, st, branch):
        """one ``for`` of the two branches -> coq expression"""
        if not (isinstance(st, ast.For) and not st.orelse and _is_name(st.target)):
            _fail(st, "expected a simple for loop")
        var = st.target.id
        if var in self.params:
            _fail(st, "loop variable shadows a parameter")
        it, rev = _reversed(st.iter)
        if branch == 1:
            # specs[i].__sro__
            if not (isinstance(it, ast.Attribute) and it.attr == "__sro__" and isinstance(it.value, ast.Subscript)
                    and _is_name(it.value.value, self.role["specs"])):
                _fail(it, "expected %s[<index>].__sro__" % self.role["specs"])
            sl = it.value.slice
            if not (_is_name(sl) and sl.id in (self.role["i"], self.role["l"])):
                _fail(it, "index of specs is not one of the counters")
            iterable = _wrap_rev("(w_sro W (nth %s %s root))" % (_py(sl.id), _py(self.role["specs"])), rev)
        else:
            if not _is_name(it, self.role["provided"]):
                _fail(it, "expected iteration over %s" % self.role["provided"])
            iterable = _wrap_rev(_py(self.role["provided"]), rev)
        body = list(st.body)
        if len(body) != 2:
            _fail(st, "loop body is not 'comps = get(x); if comps: ...'")
        a, cond = body
        if not (isinstance(a, ast.Assign) and len(a.targets) == 1 and _is_name(a.targets[0])):
            _fail(a, "expected 'comps = components.get(x)'")
        comps = a.targets[0].id
        if comps in self.params or comps == var:
            _fail(a, "temporary shadows another variable")
        f, args = _call(a.value, 1)
        if not _is_name(args[0], var):
            _fail(a, "the key looked up is not the loop variable")
        get = self.get_call(a.value, self.role["comp"])
        if not (isinstance(cond, ast.If) and not cond.orelse and _is_name(cond.test, comps)):
            _fail(cond, "expected 'if comps:' without else")
        truth = "otruthy %s %s" % (PAYLOAD_TRUTHY[self.kind], _py(comps))
        inner = list(cond.body)
        k = self.kind
        if k == "lookup":
            if len(inner) != 2:
                _fail(cond, "expected 'r = ...; if r is not None: return r'")
            ra, rt = inner
            if not (isinstance(ra, ast.Assign) and len(ra.targets) == 1 and _is_name(ra.targets[0])):
                _fail(ra, "expected 'r = ...'")
            r = ra.targets[0].id
            if r in self.params or r in (var, comps):
                _fail(ra, "temporary shadows another variable")
            if not (isinstance(rt, ast.If) and not rt.orelse and _is_not_none_test(rt.test, r) and len(rt.body) == 1
                    and isinstance(rt.body[0], ast.Return) and _is_name(rt.body[0].value, r)):
                _fail(rt, "expected 'if r is not None: return r'")
            if branch == 1:
                hit = self.rec_call(ra.value, comps)
            else:
                obj, gargs = _method_call(ra.value, "get", 1)
                if not (_is_name(obj, comps) and _is_name(gargs[0], self.role["name"])):
                    _fail(ra, "expected comps.get(name)")
                hit = "leaf_value (tget (odict %s) %s)" % (_py(comps), _py(self.role["name"]))
            return ("first_some (fun %s => let %s := %s in if %s then %s else None) %s"
                    % (_py(var), _py(comps), get, truth, hit, iterable))
        res = self.role["result"]
        if branch == 1:
            if not (len(inner) == 1 and isinstance(inner[0], ast.Expr)):
                _fail(cond, "expected a single recursive call")
            hit = self.rec_call(inner[0].value, comps)
        elif k == "lookupAll":
            if not (len(inner) == 1 and isinstance(inner[0], ast.Expr)):
                _fail(cond, "expected result.update(comps)")
            obj, uargs = _method_call(inner[0].value, "update", 1)
            if not (_is_name(obj, res) and _is_name(uargs[0], comps)):
                _fail(inner[0], "expected result.update(comps)")
            hit = "dict_update %s (odict %s)" % (_py(res), _py(comps))
        else:
            if len(inner) != 2:
                _fail(cond, "expected 'comps = comps.get(name); if comps: result.extend(comps)'")
            ga, gt = inner
            if not (isinstance(ga, ast.Assign) and len(ga.targets) == 1 and _is_name(ga.targets[0])):
                _fail(ga, "expected 'x = comps.get(name)'")
            leaf = ga.targets[0].id
            if leaf in self.params or leaf == var:
                _fail(ga, "temporary shadows another variable")
            obj, gargs = _method_call(ga.value, "get", 1)
            if not (_is_name(obj, comps) and _is_name(gargs[0], self.role["name"])):
                _fail(ga, "expected comps.get(name)")
            if not (isinstance(gt, ast.If) and not gt.orelse and _is_name(gt.test, leaf) and len(gt.body) == 1
                    and isinstance(gt.body[0], ast.Expr)):
                _fail(gt, "expected 'if comps: result.extend(comps)'")
            obj, eargs = _method_call(gt.body[0].value, "extend", 1)
            if not (_is_name(obj, res) and _is_name(eargs[0], leaf)):
                _fail(gt, "expected result.extend(<the leaf>)")
            # the rebinding of ``comps`` gets a fresh Coq name
            leafc = _py(leaf) + "_leaf"
            hit = ("(let %s := tget (odict %s) %s in if otruthy %s %s then %s ++ otuple %s else %s)"
                   % (leafc, _py(comps), _py(self.role["name"]), PAYLOAD_TRUTHY[k], leafc, _py(res), leafc, _py(res)))
        return ("fold_left (fun %s %s => let %s := %s in if %s then %s else %s) %s %s"
                % (_py(res), _py(var), _py(comps), get, truth, hit, _py(res), iterable, _py(res)))

    def translate(self):
        stmts = _strip_doc(self.fn.body)
        comp = self.role["comp"]
        if (stmts and isinstance(stmts[0], ast.Assign) and len(stmts[0].targets) == 1 and _is_name(stmts[0].targets[0])
                and isinstance(stmts[0].value, ast.Attribute) and stmts[0].value.attr == "get"
                and _is_name(stmts[0].value.value, comp)):
            self.alias = stmts[0].targets[0].id
            if self.alias in self.params:
                _fail(stmts[0], "alias shadows a parameter")
            stmts = stmts[1:]
        if not stmts or not isinstance(stmts[0], ast.If):
            _fail(self.fn, "expected 'if i < l: ... else: ...'")
        top = stmts[0]
        t = top.test
        if not (isinstance(t, ast.Compare) and len(t.ops) == 1 and isinstance(t.ops[0], ast.Lt)
                and _is_name(t.left, self.role["i"]) and _is_name(t.comparators[0], self.role["l"])):
            _fail(t, "expected the test 'i < l'")
        if len(top.body) != 1 or len(top.orelse) != 1:
            _fail(top, "each branch must be a single for loop")
        rest = stmts[1:]
        if self.kind == "lookup":
            if not (len(rest) == 1 and isinstance(rest[0], ast.Return) and (rest[0].value is None or _is_none(rest[0].value))):
                _fail(self.fn, "expected a final 'return None'")
            out_of_fuel = "None"
        else:
            if rest:
                _fail(rest[0], "unexpected statement after the if")
            out_of_fuel = _py(self.role["result"])
        b1 = self.loop(top.body[0], 1)
        b2 = self.loop(top.orelse[0], 2)
        sig = " ".join("(%s : %s)" % (_py(p), ROLE_TYPE[self.kind][r]) for r, p in zip(self.roles, self.params))
        return ("Fixpoint %s (fuel : nat) (W : world) %s {struct fuel} : %s :=\n"
                "  match fuel with\n  | 0 => %s\n  | S fuel' =>\n"
                "    if Nat.ltb %s %s then\n      %s\n    else\n      %s\n  end.\n"
                % (self.coqname, sig, self.rtype, out_of_fuel, _py(self.role["i"]), _py(self.role["l"]), b1, b2))


# --------------------------------------------------------------------------- _uncached_* entry points

ENTRY = {
    "lookup": ("_uncached_lookup", "g_uncached_lookup", "_adapters", "t_adapters"),
    "lookupAll": ("_uncached_lookupAll", "g_uncached_lookupAll", "_adapters", "t_adapters"),
    "subscriptions": ("_uncached_subscriptions", "g_uncached_subscriptions", "_subscribers", "t_subscribers"),
}


class _Entry:
    def __init__(self, fn, kind, walkers):
        self.fn, self.kind = fn, kind
        self.pyname, self.coqname, self.store, self.coqstore = ENTRY[kind]
        self.walkers = walkers      # kind -> _Walker (for the callee's parameter roles)
        if kind == "lookup":
            self.params = _params(fn, 4, defaults=("",))
            self.self_, self.required, self.provided, self.name = self.params
        else:
            self.params = _params(fn, 3)
            self.self_, self.required, self.provided = self.params
            self.name = None
        self.result = None
        self.order = None
        self.skip = None

    # ---- small expressions
    def nat(self, n, env):
        if _is_name(n) and env.get(n.id, (None, None))[1] == "nat":
            return env[n.id][0]
        if isinstance(n, ast.Call) and _is_name(n.func, "len"):
            _f, args = _call(n, 1)
            if _is_name(args[0]) and env.get(args[0].id, (None, None))[1] in ("byorder", "lspec"):
                return "(length %s)" % env[args[0].id][0]
        if isinstance(n, ast.Constant) and isinstance(n.value, int) and not isinstance(n.value, bool):
            return "%d" % n.value
        _fail(n, "unsupported number")

    def compare(self, t, env):
        if not (isinstance(t, ast.Compare) and len(t.ops) == 1):
            _fail(t, "unsupported comparison")
        a, b = self.nat(t.left, env), self.nat(t.comparators[0], env)
        op = type(t.ops[0])
        tm = {ast.GtE: "Nat.leb %(b)s %(a)s", ast.Gt: "Nat.ltb %(b)s %(a)s", ast.LtE: "Nat.leb %(a)s %(b)s",
              ast.Lt: "Nat.ltb %(a)s %(b)s"}.get(op)
        if tm is None:
            _fail(t, "unsupported comparison operator")
        return tm % {"a": a, "b": b}

    def walker_call(self, n, env):
        f, args = _call(n)
        if not (_is_name(f) and f.id in COQ_OF_PYFUN):
            _fail(n, "expected a call of a module-level walker")
        wk = [w for w in self.walkers.values() if w.pyname == f.id][0]
        if len(args) != len(wk.roles):
            _fail(n, "wrong number of arguments for %s" % f.id)
        out = []
        for role, a in zip(wk.roles, args):
            want = {"comp": "trie", "specs": "lspec", "provided": "keys" if wk.kind == "subscriptions" else "lspec",
                    "name": "nat", "result": "result", "i": "nat", "l": "nat"}[role]
            if isinstance(a, ast.Constant):
                if want == "nat" and isinstance(a.value, int) and not isinstance(a.value, bool):
                    out.append("%d" % a.value)
                elif want == "nat" and role == "name" and a.value == "":
                    out.append("0")          # the name '' is number 0
                else:
                    _fail(a, "unsupported constant argument")
                continue
            if not (_is_name(a) and a.id in env):
                _fail(a, "unsupported argument")
            text, ty = env[a.id]
            if ty == want:
                out.append(text)
            elif want == "lspec" and ty == "olspec":
                out.append("(olist %s)" % text)
            elif want == "keys" and ty == "lspec":
                out.append("(map (fun e => pkey (Some e)) %s)" % text)
            else:
                _fail(a, "argument of type %s where %s is expected" % (ty, want))
        return "%s (S %s) W %s" % (COQ_OF_PYFUN[f.id], out[-1], " ".join(out))

    # ---- the loop body
    def body(self, stmts, env):
        if not stmts:
            _fail(self.fn, "loop body ends without the walker call")
        st, rest = stmts[0], stmts[1:]
        reg = self.registry
        # terminal shapes
        if self.kind == "lookup":
            if (len(stmts) == 2 and isinstance(st, ast.Assign) and len(st.targets) == 1
                    and _is_name(st.targets[0], self.result)):
                br = stmts[1]
                if not (isinstance(br, ast.If) and not br.orelse and _is_not_none_test(br.test, self.result)
                        and len(br.body) == 1 and isinstance(br.body[0], ast.Break)):
                    _fail(br, "expected 'if result is not None: break'")
                return self.walker_call(st.value, env)
        else:
            if len(stmts) == 1 and isinstance(st, ast.Expr):
                return self.walker_call(st.value, env)
        # byorder = registry._adapters
        if isinstance(st, ast.Assign) and len(st.targets) == 1 and _is_name(st.targets[0]):
            var, v = st.targets[0].id, st.value
            if var in self.params or var in (reg, self.result, self.order):
                _fail(st, "assignment to a parameter / loop variable")
            if isinstance(v, ast.Attribute) and _is_name(v.value, reg) and v.attr == self.store:
                env2 = dict(env)
                env2[var] = (_py(var), "byorder")
                return "let %s := %s %s in %s" % (_py(var), self.coqstore, _py(reg), self.body(rest, env2))
            # extendors = registry._v_lookup._extendors.get(provided)
            if isinstance(v, ast.Call):
                obj, args = _method_call(v, "get", 1)
                if (isinstance(obj, ast.Attribute) and obj.attr == "_extendors" and isinstance(obj.value, ast.Attribute)
                        and obj.value.attr == "_v_lookup" and _is_name(obj.value.value, reg)
                        and _is_name(args[0]) and env.get(args[0].id, (None, None))[1] == "spec"):
                    env2 = dict(env)
                    env2[var] = (_py(var), "olspec")
                    return ("let %s := aget Nat.eqb (t_extendors %s) %s in %s"
                            % (_py(var), _py(reg), env[args[0].id][0], self.body(rest, env2)))
                _fail(st, "expected registry._v_lookup._extendors.get(provided)")
            # extendors = (provided,)
            if isinstance(v, ast.Tuple) and len(v.elts) == 1 and _is_name(v.elts[0]) \
                    and env.get(v.elts[0].id, (None, None))[1] == "ospec":
                env2 = dict(env)
                env2[var] = (_py(var), "keys")
                return "let %s := [pkey %s] in %s" % (_py(var), env[v.elts[0].id][0], self.body(rest, env2))
            # components = byorder[order]   (without try: only safe behind the length guard)
            if isinstance(v, ast.Subscript) and _is_name(v.value) and env.get(v.value.id, (None, None))[1] == "byorder" \
                    and _is_name(v.slice) and env.get(v.slice.id, (None, None))[1] == "nat":
                env2 = dict(env)
                env2[var] = (_py(var), "trie")
                return ("let %s := nth %s %s (Node []) in %s"
                        % (_py(var), env[v.slice.id][0], env[v.value.id][0], self.body(rest, env2)))
            _fail(st, "unsupported assignment in the registry loop")
        if isinstance(st, ast.Try):
            if st.orelse or st.finalbody or len(st.handlers) != 1 or len(st.body) != 1:
                _fail(st, "unsupported try statement")
            h = st.handlers[0]
            if not (_is_name(h.type, "IndexError") and h.name is None and len(h.body) == 1
                    and isinstance(h.body[0], ast.Continue)):
                _fail(st, "expected 'except IndexError: continue'")
            a = st.body[0]
            if not (isinstance(a, ast.Assign) and len(a.targets) == 1 and _is_name(a.targets[0])
                    and isinstance(a.value, ast.Subscript) and _is_name(a.value.value)
                    and env.get(a.value.value.id, (None, None))[1] == "byorder"
                    and _is_name(a.value.slice) and env.get(a.value.slice.id, (None, None))[1] == "nat"):
                _fail(a, "expected 'components = byorder[order]'")
            var = a.targets[0].id
            if var in env or var in self.params:
                _fail(a, "temporary shadows another variable")
            env2 = dict(env)
            env2[var] = (_py(var), "trie")
            return ("match nth_error %s %s with None => %s | Some %s => %s end"
                    % (env[a.value.value.id][0], env[a.value.slice.id][0], self.skip, _py(var), self.body(rest, env2)))
        if isinstance(st, ast.If):
            t = st.test
            only_continue = len(st.body) == 1 and isinstance(st.body[0], ast.Continue) and not st.orelse
            if only_continue:
                # if not extendors: continue
                if isinstance(t, ast.UnaryOp) and isinstance(t.op, ast.Not) and _is_name(t.operand) \
                        and env.get(t.operand.id, (None, None))[1] == "olspec":
                    return ("if negb (lotruthy %s) then %s else %s"
                            % (env[t.operand.id][0], self.skip, self.body(rest, env)))
                # if extendors is None: continue
                if (isinstance(t, ast.Compare) and len(t.ops) == 1 and isinstance(t.ops[0], ast.Is)
                        and _is_name(t.left) and _is_none(t.comparators[0])
                        and env.get(t.left.id, (None, None))[1] == "olspec"):
                    var = t.left.id
                    env2 = dict(env)
                    env2[var] = (_py(var) + "_l", "lspec")
                    return ("match %s with None => %s | Some %s => %s end"
                            % (env[var][0], self.skip, _py(var) + "_l", self.body(rest, env2)))
                return "if %s then %s else %s" % (self.compare(t, env), self.skip, self.body(rest, env))
            # if provided is None: A else: B   (both fall through to the rest)
            if (st.orelse and isinstance(t, ast.Compare) and len(t.ops) == 1 and isinstance(t.ops[0], ast.Is)
                    and _is_name(t.left) and _is_none(t.comparators[0])
                    and env.get(t.left.id, (None, None))[1] == "ospec"):
                var = t.left.id
                for blk in (st.body, st.orelse):
                    for s in ast.walk(ast.Module(body=list(blk), type_ignores=[])):
                        if isinstance(s, (ast.Break, ast.Return)):
                            _fail(s, "break/return inside the provided-is-None branches")
                env_none = dict(env)
                env_none[var] = ("(@None spec)", "ospec")
                env_some = dict(env)
                env_some[var] = (_py(var) + "_s", "spec")
                return ("match %s with None => %s | Some %s => %s end"
                        % (env[var][0], self.body(list(st.body) + rest, env_none), _py(var) + "_s",
                           self.body(list(st.orelse) + rest, env_some)))
            _fail(st, "unsupported if statement in the registry loop")
        _fail(st, "unsupported statement in the registry loop")

    def translate(self):
        stmts = _strip_doc(self.fn.body)
        env = {}
        ptype = "ospec" if self.kind == "subscriptions" else "spec"
        env[self.provided] = (_py(self.provided), ptype)
        if self.name:
            env[self.name] = (_py(self.name), "nat")
        seen_tuple = False
        init = None
        i = 0
        while i < len(stmts) and not isinstance(stmts[i], ast.For):
            st = stmts[i]
            if not (isinstance(st, ast.Assign) and len(st.targets) == 1 and _is_name(st.targets[0])):
                _fail(st, "unsupported statement before the registry loop")
            var, v = st.targets[0].id, st.value
            if var == self.required and isinstance(v, ast.Call) and _is_name(v.func, "tuple") \
                    and len(v.args) == 1 and not v.keywords and _is_name(v.args[0], self.required) and not seen_tuple:
                seen_tuple = True
            elif (isinstance(v, ast.Call) and _is_name(v.func, "len") and len(v.args) == 1 and not v.keywords
                  and _is_name(v.args[0], self.required) and self.order is None and var not in self.params):
                self.order = var
                env[var] = (_py(var), "nat")
            elif self.result is None and var not in self.params and var != self.order:
                if self.kind == "lookup" and _is_none(v):
                    init = "None"
                elif self.kind == "lookupAll" and isinstance(v, ast.Dict) and not v.keys:
                    init = "[]"
                elif self.kind == "subscriptions" and isinstance(v, ast.List) and not v.elts:
                    init = "[]"
                else:
                    _fail(st, "unexpected initial value of the result")
                self.result = var
            else:
                _fail(st, "unsupported statement before the registry loop")
            i += 1
        if self.order is None or self.result is None or i >= len(stmts):
            _fail(self.fn, "missing 'order = len(required)', the result initialisation or the registry loop")
        env[self.required] = (_py(self.required), "lspec")
        loop = stmts[i]
        tail = stmts[i + 1:]
        if loop.orelse or not _is_name(loop.target):
            _fail(loop, "unsupported registry loop")
        self.registry = loop.target.id
        if self.registry in env or self.registry in self.params or self.registry == self.result:
            _fail(loop, "loop variable shadows another variable")
        it, rev = _reversed(loop.iter)
        if not (isinstance(it, ast.Attribute) and it.attr == "ro" and isinstance(it.value, ast.Attribute)
                and it.value.attr == "_registry" and _is_name(it.value.value, self.self_)):
            _fail(it, "expected iteration over self._registry.ro")
        iterable = _wrap_rev("py_ro", rev)
        if self.kind == "lookup":
            self.skip = "None"
        else:
            self.skip = _py(self.result)
            env[self.result] = (_py(self.result), "result")
        body = self.body(list(loop.body), env)
        # self._subscribe(*required) ; return result
        if len(tail) != 2:
            _fail(self.fn, "expected 'self._subscribe(*required)' and the return after the loop")
        sub, ret = tail
        ok = (isinstance(sub, ast.Expr) and isinstance(sub.value, ast.Call) and not sub.value.keywords
              and isinstance(sub.value.func, ast.Attribute) and sub.value.func.attr == "_subscribe"
              and _is_name(sub.value.func.value, self.self_) and len(sub.value.args) == 1
              and isinstance(sub.value.args[0], ast.Starred) and _is_name(sub.value.args[0].value, self.required))
        if not ok:
            _fail(sub, "expected self._subscribe(*required)")
        if not isinstance(ret, ast.Return):
            _fail(ret, "expected the return statement")
        rv = ret.value
        if self.kind == "lookupAll":
            good = (isinstance(rv, ast.Call) and _is_name(rv.func, "tuple") and len(rv.args) == 1 and not rv.keywords
                    and isinstance(rv.args[0], ast.Call) and not rv.args[0].args and not rv.args[0].keywords
                    and isinstance(rv.args[0].func, ast.Attribute) and rv.args[0].func.attr == "items"
                    and _is_name(rv.args[0].func.value, self.result))
        else:
            good = _is_name(rv, self.result)
        if not good:
            _fail(ret, "unexpected return value")
        ptypes = {"spec": "spec", "ospec": "option spec"}
        sig = "(W : world) (py_ro : list treg) (%s : list spec) (%s : %s)" % (
            _py(self.required), _py(self.provided), ptypes[ptype])
        if self.name:
            sig += " (%s : nat)" % _py(self.name)
        rtype = {"lookup": "option value", "lookupAll": "list (nat * value)", "subscriptions": "list value"}[self.kind]
        if self.kind == "lookup":
            loop_text = "first_some (fun %s => %s) %s" % (_py(self.registry), body, iterable)
        else:
            loop_text = "fold_left (fun %s %s => %s) %s %s" % (_py(self.result), _py(self.registry), body, iterable, init)
        return ("Definition %s %s : %s :=\n  let %s := length %s in\n  %s.\n"
                % (self.coqname, sig, rtype, _py(self.order), _py(self.required), loop_text))


# --------------------------------------------------------------------------- extendors bookkeeping

class _Extendors:
    """add_extendor / remove_extendor: ``for i in provided.__iro__: _extendors[i] = <list expression>``"""

    def __init__(self, fn, coqname):
        self.fn, self.coqname = fn, coqname
        self.self_, self.provided = _params(fn, 2)
        self.alias = None

    def is_dict(self, n):
        return (self.alias is not None and _is_name(n, self.alias)) or (
            isinstance(n, ast.Attribute) and n.attr == "_extendors" and _is_name(n.value, self.self_))

    def cond(self, n, elem):
        if isinstance(n, ast.UnaryOp) and isinstance(n.op, ast.Not):
            return "negb (%s)" % self.cond(n.operand, elem)
        if isinstance(n, ast.Call):
            obj, args = _method_call(n, "isOrExtends", 1)
            if _is_name(obj) and _is_name(args[0]) and {obj.id, args[0].id} <= {self.provided, elem}:
                return "isOrExtends W %s %s" % (_py(obj.id), _py(args[0].id))
            _fail(n, "unsupported isOrExtends call")
        if isinstance(n, ast.Compare) and len(n.ops) == 1 and isinstance(n.ops[0], (ast.NotEq, ast.Eq)) \
                and _is_name(n.left) and _is_name(n.comparators[0]) \
                and {n.left.id, n.comparators[0].id} <= {self.provided, elem}:
            e = "Nat.eqb %s %s" % (_py(n.left.id), _py(n.comparators[0].id))
            return "negb (%s)" % e if isinstance(n.ops[0], ast.NotEq) else e
        _fail(n, "unsupported filter condition")

    def lst(self, n, env):
        """list-valued expression -> coq"""
        if _is_name(n) and n.id in env:
            return env[n.id]
        if isinstance(n, ast.BinOp) and isinstance(n.op, ast.Add):
            return "(%s ++ %s)" % (self.lst(n.left, env), self.lst(n.right, env))
        if isinstance(n, ast.List):
            if not all(_is_name(e, self.provided) for e in n.elts):
                _fail(n, "list literal of something else than provided")
            return "[%s]" % "; ".join(_py(self.provided) for _ in n.elts)
        if isinstance(n, ast.Call) and _is_name(n.func) and n.func.id in ("list", "tuple"):
            _f, args = _call(n, 1)
            return self.lst(args[0], env)
        if isinstance(n, ast.Call):
            # _extendors.get(i, ())
            f, args = _call(n, 2)
            if (isinstance(f, ast.Attribute) and f.attr == "get" and self.is_dict(f.value) and _is_name(args[0], self.loopvar)
                    and isinstance(args[1], ast.Tuple) and not args[1].elts):
                return "(ext_get py_d %s)" % _py(self.loopvar)
            _fail(n, "expected _extendors.get(i, ())")
        if isinstance(n, ast.ListComp):
            if len(n.generators) != 1:
                _fail(n, "nested comprehension")
            g = n.generators[0]
            if g.is_async or not _is_name(g.target) or not _is_name(n.elt, g.target.id) or len(g.ifs) != 1:
                _fail(n, "expected [e for e in xs if cond]")
            e = g.target.id
            if e in env or e in (self.provided, self.self_, self.loopvar):
                _fail(n, "comprehension variable shadows another variable")
            return "(filter (fun %s => %s) %s)" % (_py(e), self.cond(g.ifs[0], e), self.lst(g.iter, env))
        _fail(n, "unsupported list expression")

    def translate(self):
        stmts = _strip_doc(self.fn.body)
        if (stmts and isinstance(stmts[0], ast.Assign) and len(stmts[0].targets) == 1 and _is_name(stmts[0].targets[0])
                and isinstance(stmts[0].value, ast.Attribute) and stmts[0].value.attr == "_extendors"
                and _is_name(stmts[0].value.value, self.self_)):
            self.alias = stmts[0].targets[0].id
            if self.alias in (self.self_, self.provided):
                _fail(stmts[0], "alias shadows a parameter")
            stmts = stmts[1:]
        if not (len(stmts) == 1 and isinstance(stmts[0], ast.For) and not stmts[0].orelse and _is_name(stmts[0].target)):
            _fail(self.fn, "expected a single for loop over provided.__iro__")
        loop = stmts[0]
        self.loopvar = loop.target.id
        if self.loopvar in (self.self_, self.provided, self.alias):
            _fail(loop, "loop variable shadows another variable")
        it, rev = _reversed(loop.iter)
        if not (isinstance(it, ast.Attribute) and it.attr == "__iro__" and _is_name(it.value, self.provided)):
            _fail(it, "expected iteration over provided.__iro__")
        env = {}
        lets = ""
        body = list(loop.body)
        for st in body[:-1]:
            if not (isinstance(st, ast.Assign) and len(st.targets) == 1 and _is_name(st.targets[0])):
                _fail(st, "unsupported statement in the extendors loop")
            var = st.targets[0].id
            if var in env or var in (self.self_, self.provided, self.alias, self.loopvar):
                _fail(st, "temporary shadows another variable")
            lets += "let %s := %s in " % (_py(var), self.lst(st.value, env))
            env[var] = _py(var)
        last = body[-1]
        if not (isinstance(last, ast.Assign) and len(last.targets) == 1 and isinstance(last.targets[0], ast.Subscript)
                and self.is_dict(last.targets[0].value) and _is_name(last.targets[0].slice, self.loopvar)):
            _fail(last, "expected '_extendors[i] = ...' as the last statement of the loop")
        store = "aset Nat.eqb py_d %s %s" % (_py(self.loopvar), self.lst(last.value, env))
        return ("Definition %s (W : world) (py_d : list (spec * list spec)) (%s : spec) : list (spec * list spec) :=\n"
                "  fold_left (fun py_d %s => %s%s) %s py_d.\n"
                % (self.coqname, _py(self.provided), _py(self.loopvar), lets, store,
                   _wrap_rev("(iro W %s)" % _py(self.provided), rev)))


def _init_extendors(fn):
    (self_,) = _params(fn, 1)
    stmts = _strip_doc(fn.body)
    if len(stmts) != 2:
        _fail(fn, "expected 'self._extendors = {}' and one loop")
    a, loop = stmts
    if not (isinstance(a, ast.Assign) and len(a.targets) == 1 and isinstance(a.targets[0], ast.Attribute)
            and a.targets[0].attr == "_extendors" and _is_name(a.targets[0].value, self_)
            and isinstance(a.value, ast.Dict) and not a.value.keys):
        _fail(a, "expected 'self._extendors = {}'")
    if not (isinstance(loop, ast.For) and not loop.orelse and _is_name(loop.target) and len(loop.body) == 1
            and isinstance(loop.body[0], ast.Expr)):
        _fail(loop, "expected 'for p in self._registry._provided: self.add_extendor(p)'")
    it, rev = _reversed(loop.iter)
    if not (isinstance(it, ast.Attribute) and it.attr == "_provided" and isinstance(it.value, ast.Attribute)
            and it.value.attr == "_registry" and _is_name(it.value.value, self_)):
        _fail(it, "expected iteration over self._registry._provided")
    obj, args = _method_call(loop.body[0].value, "add_extendor", 1)
    if not (_is_name(obj, self_) and _is_name(args[0], loop.target.id)):
        _fail(loop.body[0], "expected self.add_extendor(p)")
    v = _py(loop.target.id)
    return ("Definition g_init_extendors (W : world) (py_provided_cnt : list (spec * nat)) : list (spec * list spec) :=\n"
            "  fold_left (fun py_d %s => g_add_extendor W py_d %s) %s [].\n"
            % (v, v, _wrap_rev("(map fst py_provided_cnt)", rev)))


def _convert_none(fn):
    (x,) = _params(fn, 1)
    stmts = _strip_doc(fn.body)
    if not (len(stmts) == 1 and isinstance(stmts[0], ast.If)):
        _fail(fn, "expected a single if/else")
    st = stmts[0]
    t = st.test
    if not (isinstance(t, ast.Compare) and len(t.ops) == 1 and isinstance(t.ops[0], ast.Is) and _is_name(t.left, x)
            and _is_none(t.comparators[0])):
        _fail(t, "expected 'x is None'")
    if not (len(st.body) == 1 and isinstance(st.body[0], ast.Return) and _is_name(st.body[0].value, "Interface")
            and len(st.orelse) == 1 and isinstance(st.orelse[0], ast.Return) and _is_name(st.orelse[0].value, x)):
        _fail(st, "expected 'return Interface' / 'return x'")
    return ("Definition g_convert_None_to_Interface (%s : option spec) : spec :=\n"
            "  match %s with None => root | Some %s_s => %s_s end.\n" % (_py(x), _py(x), _py(x), _py(x)))


# --------------------------------------------------------------------------- driver

MODULE_FUNS = ["_convert_None_to_Interface", "_lookup", "_lookupAll", "_subscriptions"]
METHODS = ["_uncached_lookup", "_uncached_lookupAll", "_uncached_subscriptions", "add_extendor", "remove_extendor",
           "init_extendors"]
CLASS = "AdapterLookupBase"


def _unique_defs(module):
    top = {}
    for name in MODULE_FUNS:
        fs = [n for n in module.body if isinstance(n, ast.FunctionDef) and n.name == name]
        every = [n for n in ast.walk(module) if isinstance(n, (ast.FunctionDef, ast.AsyncFunctionDef)) and n.name == name]
        if len(fs) != 1 or len(every) != 1:
            raise TranslationError("expected exactly one module-level def %s, found %d/%d" % (name, len(fs), len(every)))
        top[name] = fs[0]
    for n in ast.walk(module):
        if isinstance(n, ast.Name) and n.id in MODULE_FUNS + ["Interface"] and not isinstance(n.ctx, ast.Load):
            _fail(n, "%s is rebound" % n.id)
        if isinstance(n, (ast.Global, ast.Nonlocal)):
            _fail(n, "global/nonlocal statement")
    cls = [n for n in module.body if isinstance(n, ast.ClassDef) and n.name == CLASS]
    if len(cls) != 1:
        raise TranslationError("expected exactly one class %s" % CLASS)
    meths = {}
    for name in METHODS:
        fs = [n for n in cls[0].body if isinstance(n, ast.FunctionDef) and n.name == name]
        every = [n for n in ast.walk(module) if isinstance(n, (ast.FunctionDef, ast.AsyncFunctionDef)) and n.name == name]
        if len(fs) != 1 or len(every) != 1:
            raise TranslationError("expected exactly one def %s.%s, found %d/%d" % (CLASS, name, len(fs), len(every)))
        meths[name] = fs[0]
    # nobody may replace the methods by assignment (X._uncached_lookup = ..., setattr is not detectable)
    for n in ast.walk(module):
        if isinstance(n, ast.Attribute) and n.attr in METHODS and not isinstance(n.ctx, ast.Load):
            _fail(n, "%s is assigned to" % n.attr)
    return top, meths


HEADER = """(* GENERATED by harness/translate/walkers.py from %s -- do not edit.
   Regenerated on every run of bin/check C04; Proofs/WalkersKernel.v proves these definitions equal to the
   hand-written nested-dictionary walkers of Model/Trie.v and to Model/Adapter.v's add_extendor /
   remove_extendor, and Properties/C04.v concludes that the generated _uncached_lookup on the nested
   dictionaries of a reachable registry is Model.Adapter.uncached_lookup on its abstraction.
   Vocabulary: Model/WalkersVocab.v.  Python variable x is py_x. *)
From Coq Require Import List Arith Bool.
Import ListNotations.
From ZI Require Import Model.Ro Model.Adapter Model.Trie Model.WalkersVocab.

"""


def translate_source(text, origin="adapter.py"):
    module = ast.parse(text)
    top, meths = _unique_defs(module)
    walkers = {k: _Walker(top[WALKERS[k][0]], k) for k in ("lookup", "lookupAll", "subscriptions")}
    parts = [HEADER % origin, _convert_none(top["_convert_None_to_Interface"])]
    for k in ("lookup", "lookupAll", "subscriptions"):
        parts.append(walkers[k].translate())
    for k in ("lookup", "lookupAll", "subscriptions"):
        parts.append(_Entry(meths[ENTRY[k][0]], k, walkers).translate())
    parts.append(_Extendors(meths["add_extendor"], "g_add_extendor").translate())
    parts.append(_Extendors(meths["remove_extendor"], "g_remove_extendor").translate())
    parts.append(_init_extendors(meths["init_extendors"]))
    return "\n".join(parts)


def translate_file(path):
    with open(path) as fh:
        return translate_source(fh.read(), origin=path)


# The text this framework was developed against.  Used only when the translation of the current source is
# refused, so that the rest of the pipeline still compiles; the refusal itself is always reported.
PINNED_SOURCE = '''
def _convert_None_to_Interface(x):
    if x is None:
        return Interface
    else:
        return x


def _lookup(components, specs, provided, name, i, l):
    components_get = components.get
    if i < l:
        for spec in specs[i].__sro__:
            comps = components_get(spec)
            if comps:
                r = _lookup(comps, specs, provided, name, i + 1, l)
                if r is not None:
                    return r
    else:
        for iface in provided:
            comps = components_get(iface)
            if comps:
                r = comps.get(name)
                if r is not None:
                    return r

    return None


def _lookupAll(components, specs, provided, result, i, l):
    components_get = components.get
    if i < l:
        for spec in reversed(specs[i].__sro__):
            comps = components_get(spec)
            if comps:
                _lookupAll(comps, specs, provided, result, i + 1, l)
    else:
        for iface in reversed(provided):
            comps = components_get(iface)
            if comps:
                result.update(comps)


def _subscriptions(components, specs, provided, name, result, i, l):
    components_get = components.get
    if i < l:
        for spec in reversed(specs[i].__sro__):
            comps = components_get(spec)
            if comps:
                _subscriptions(comps, specs, provided, name, result, i + 1, l)
    else:
        for iface in reversed(provided):
            comps = components_get(iface)
            if comps:
                comps = comps.get(name)
                if comps:
                    result.extend(comps)


class AdapterLookupBase:

    def init_extendors(self):
        self._extendors = {}
        for p in self._registry._provided:
            self.add_extendor(p)

    def add_extendor(self, provided):
        _extendors = self._extendors
        for i in provided.__iro__:
            extendors = _extendors.get(i, ())
            _extendors[i] = (
                [e for e in extendors if provided.isOrExtends(e)] +
                [provided] +
                [e for e in extendors if not provided.isOrExtends(e)]
            )

    def remove_extendor(self, provided):
        _extendors = self._extendors
        for i in provided.__iro__:
            _extendors[i] = [e for e in _extendors.get(i, ()) if e != provided]

    def _uncached_lookup(self, required, provided, name=''):
        required = tuple(required)
        result = None
        order = len(required)
        for registry in self._registry.ro:
            byorder = registry._adapters
            if order >= len(byorder):
                continue
            extendors = registry._v_lookup._extendors.get(provided)
            if not extendors:
                continue
            try:
                components = byorder[order]
            except IndexError:
                continue
            result = _lookup(components, required, extendors, name, 0, order)
            if result is not None:
                break
        self._subscribe(*required)
        return result

    def _uncached_lookupAll(self, required, provided):
        required = tuple(required)
        order = len(required)
        result = {}
        for registry in reversed(self._registry.ro):
            byorder = registry._adapters
            if order >= len(byorder):
                continue
            extendors = registry._v_lookup._extendors.get(provided)
            if not extendors:
                continue
            try:
                components = byorder[order]
            except IndexError:
                continue
            _lookupAll(components, required, extendors, result, 0, order)
        self._subscribe(*required)
        return tuple(result.items())

    def _uncached_subscriptions(self, required, provided):
        required = tuple(required)
        order = len(required)
        result = []
        for registry in reversed(self._registry.ro):
            byorder = registry._subscribers
            if order >= len(byorder):
                continue
            if provided is None:
                extendors = (provided, )
            else:
                extendors = registry._v_lookup._extendors.get(provided)
                if extendors is None:
                    continue
            try:
                components = byorder[order]
            except IndexError:
                continue
            _subscriptions(components, required, extendors, '', result, 0, order)
        self._subscribe(*required)
        return result
'''


def pinned():
    return translate_source(PINNED_SOURCE, origin="<pinned copy in harness/translate/walkers.py>")


if __name__ == "__main__":  # python -m harness.translate.walkers /repo/src/zope/interface/adapter.py
    import sys
    print(translate_file(sys.argv[1]))
