"""Fail-closed extractor: the C lookup functions of _zope_interface_coptimizations.c -> the ownership
event skeleton of Model/Own.v (coq/Gen/CSkeleton.v).

For every function of FUNCS the body is tokenised, parsed with a recursive-descent parser for the
small C subset listed below and executed symbolically: every fallible API call forks the path
(failure / success), every branch whose condition is not decided by what the path already knows
forks.  The only loop shape accepted (``for (i = 0; i < <bound>; i++)``, bound a cached or re-read
PyTuple_GET_SIZE / PyList_GET_SIZE) is NOT unrolled: the paths contain the loop run zero times and the
iterations that leave it by a return, and a loop schema (events up to the head, events of every complete
iteration, executed once from the state at the head) goes to ``skeleton_loops``; Coq checks that each
iteration re-establishes the discipline state of the head (any number of iterations is then safe).  Each complete path is a list of events over SSA pointer values
(a C variable that is assigned twice gets two numbers; ``a = b`` between pointer variables makes
both names denote the same value).  Every CPython API name must be in TABLE / SPECIAL
(returns new | borrowed, steals?, may run Python?); an unknown callee, identifier, statement or
expression shape, a preprocessor directive inside a body, a ``goto``/``while``/``switch`` raises
``Abort`` naming it — there is no fallback.

Event vocabulary: see coq/Model/Own.v.  Conventions of the emission:
  * a call that may run Python:   EUse args ; EMayCall ; EUse args ; [ENewRef r] on success
    (the arguments must stay alive for the whole call);
  * PyDict_GetItem[WithError](d, k): EUse d ; EUse k ; EKeyCall ; EUse k ; EUse d ; [EFetchItem r d] on a hit;
  * PyDict_SetItem(d, k, v):      EUse d ; EUse k ; EUse v ; EKeyCall ; EUse k ; EUse d ;
                                  on success EStoreItem d v ; EMayCall (a replaced value is released);
  * Py_DECREF / Py_XDECREF / Py_CLEAR of a local: EDecref; of ``self->slot``: EClearSlot;
  * ``self`` and module-level constants (Py_None, interned strings, types) are static: no events;
    ``Py_DECREF(Py_None)`` releases the value the path knows to be ``== Py_None``;
  * PyTuple_GET_ITEM(t, i) is a borrowed reference of its own (EFetchTuple v t: valid while t is OWNED);
    PyDict_GetItem / PyList_GET_ITEM give EFetchItem / a pseudo-slot fetch (valid until the next may-call
    point).  PyTuple_GET_SIZE / GET_ITEM / GetSlice are only
    accepted on values known to be tuples (created by a tuple-returning API, read from a tuple slot,
    or a parameter every extracted call site passes a tuple for);
  * a failed PyDict_New / PyTuple_New whose NULL result the C code dereferences without a test
    (memory exhaustion) is recorded as a note and that path is dropped; any other NULL misuse aborts;
  * LB_clear / VB_clear (only Py_CLEAR statements) are inlined at their call sites; every other call
    between extracted functions becomes ECall (summary: Model/Own.v [expand]).
"""
import copy
import json
import os
import re

from .. import common as C


class Abort(Exception):
    """The source has a shape this extractor does not know: no skeleton is produced."""


SOURCE = os.path.join("src", "zope", "interface", "_zope_interface_coptimizations.c")
OUT = os.path.join(C.COQ, "Gen", "CSkeleton.v")
OUT_JSON = os.path.join(C.COQ, "Gen", "CSkeleton.json")

# callees first
FUNCS = ["LB_clear", "LB_changed", "VB_clear", "_subcache", "_getcache", "_lookup", "_lookup1",
         "_adapter_hook", "_lookupAll", "_subscriptions", "_generations_tuple", "verify_changed", "_verify"]
# Further C functions on lookup paths: extracted when their shape is accepted, otherwise they stay entries
# of the API table (EXT_TABLE) and are LISTED as such in the evidence.  Callees first.
EXT_FUNCS = ["SB_extends", "_foreign_decl_implies", "implementedByFallback", "implementedBy",
             "getObjectSpecification", "providedBy", "CPB_descr_get", "OSD_descr_get", "IB__adapt__", "IB__call__"]
ALL_FUNCS = EXT_FUNCS + FUNCS
FN_ID = {n: i for i, n in enumerate(FUNCS + EXT_FUNCS)}
NULLABLE_FIELDS = {"_implied", "_cls", "_implements"}     # object slots the code tests against NULL
NONNULL_FIELDS = {"tp_dict"}
STATIC_FIELDS = {"ob_type", "fallback", "empty", "builtin_impl_specs", "implements_class", "adapter_hooks",
                 "specification_base_class", "interface_base_class"}   # module state / types: never freed
# borrowed items of containers that live in the module state are read through pseudo owner slots
PSEUDO_SLOTS = {"adapter_hooks": 8, "builtin_impl_specs": 9}
INLINE = {"LB_clear", "VB_clear"}
SLOTS = {"_cache": 0, "_mcache": 1, "_scache": 2, "_verify_ro": 3, "_verify_generations": 4}
SLOT_KIND = {"_cache": "KDict", "_mcache": "KDict", "_scache": "KDict", "_verify_ro": "KTuple",
             "_verify_generations": "KTuple"}
RET_KIND = {"_generations_tuple": "KTuple"}      # checked against the callee's own returns
TYPE_NAMES = {"PyObject", "int", "LB", "VB", "PyTypeObject", "Py_ssize_t", "_zic_module_state", "SB", "CPB", "IB",
              "Py_hash_t"}
OBJECT_TYPES = {"PyObject", "SB", "CPB", "IB"}       # pointers to reference-counted objects
SELF_STATIC_TYPES = {"LB", "VB"}                      # ``self`` of the lookup classes: owner slots, no events
STATIC_ID = re.compile(r"^(str\w*|PyExc_\w+|Py_(NE|EQ|LT|GT|LE|GE)|Py\w+_Type|kwlist)$")

# ret: "new:<kind>" | "int:<values>" | "void" | "static"; py: may run Python; fail: may return NULL;
# uses: indices of the pointer arguments that are dereferenced ("*" = all)
TABLE = {
    "PyDict_New": dict(ret="new:KDict", py=False, fail=True, uses=[]),
    "PyTuple_New": dict(ret="new:KTuple", py=False, fail=True, uses=[]),
    "PySequence_Tuple": dict(ret="new:KTuple", py=True, fail=True, uses=[0]),
    "PyObject_GetAttr": dict(ret="new:KOther", py=True, fail=True, uses=[0]),
    "PyTuple_GetSlice": dict(ret="new:KTuple", py=False, fail=True, uses=[0], tuple_arg=0),
    "PyObject_CallMethodObjArgs": dict(ret="new:KOther", py=True, fail=True, uses="*"),
    "PyObject_CallFunctionObjArgs": dict(ret="new:KOther", py=True, fail=True, uses="*"),
    "PyObject_RichCompareBool": dict(ret="int:-1,0,1", py=True, uses=[0, 1]),
    "PyObject_IsTrue": dict(ret="int:-1,0,1", py=True, uses=[0]),
    "PyUnicode_Check": dict(ret="int:0,1", py=False, uses=[0]),
    "PyObject_TypeCheck": dict(ret="int:0,1", py=False, uses=[0]),
    "PyTuple_GET_SIZE": dict(ret="int:?", py=False, uses=[0], tuple_arg=0),
    "PyErr_SetString": dict(ret="void", py=False, uses=[]),
    "PyObject_IsInstance": dict(ret="int:-1,0,1", py=True, uses=[0]),
    "PyErr_ExceptionMatches": dict(ret="int:0,1", py=False, uses=[]),
    "PyErr_Clear": dict(ret="void", py=True, uses=[]),          # releasing the exception can run destructors
    "PyErr_SetObject": dict(ret="void", py=False, uses=[1]),
    "PyObject_GetItem": dict(ret="new:KOther", py=True, fail=True, uses=[0]),
    "PyObject_GetAttrString": dict(ret="new:KOther", py=True, fail=True, uses=[0]),
    "PyObject_CallMethod": dict(ret="new:KOther", py=True, fail=True, uses="*"),
    "PyObject_CallObject": dict(ret="new:KOther", py=True, fail=True, uses="*"),
    "PySequence_Contains": dict(ret="int:-1,0,1", py=True, uses=[0, 1]),
    "PyType_Check": dict(ret="int:0,1", py=False, uses=[0]),
    "PyDict_GetItemString": dict(ret="int:0,1", py=False, uses=[0]),   # only ever tested for presence
    "Py_BuildValue": dict(ret="new:KTuple", py=False, fail=True, uses="*"),
    "PyList_GET_SIZE": dict(ret="int:?", py=False, uses=[0]),
    "_zic_state_load_declarations": dict(ret="static?", py=True, uses=[]),   # imports on first use
    "_zic_state": dict(ret="static", py=False, uses=[]),
    "_get_specification_base_class": dict(ret="static", py=False, uses=[]),
    "_get_adapter_hooks": dict(ret="static:adapter_hooks", py=False, uses=[]),
    "TYPE": dict(ret="passthrough", py=False, uses=[]),
    "_get_module": dict(ret="static", py=False, uses=[]),
    "providedBy": dict(ret="new:KOther", py=True, fail=True, uses=[1]),
    "Py_TYPE": dict(ret="static", py=False, uses=[]),
}
# what a function of EXT_FUNCS is to its callers while it is not extracted
EXT_TABLE = {n: dict(ret="new:KOther", py=True, fail=True, uses="*") for n in EXT_FUNCS}
ALLOC_ONLY = {"PyDict_New", "PyTuple_New"}   # fail only when memory is exhausted
SPECIAL = {"PyDict_GetItem", "PyDict_GetItemWithError", "PyErr_Occurred", "PyDict_SetItem", "PyTuple_GET_ITEM", "PyTuple_SET_ITEM", "Py_INCREF", "Py_XINCREF",
           "Py_DECREF", "Py_XDECREF", "Py_CLEAR", "Py_XSETREF", "OBJECT"}

TOKEN = re.compile(r"""
    (?P<ws>\s+) | (?P<id>[A-Za-z_]\w*) | (?P<num>\d+) | (?P<str>"(?:[^"\\]|\\.)*") |
    (?P<op>->|==|!=|<=|>=|&&|\|\||\+\+|--|[-+*/%&|!<>=(){}\[\];,.?:~^])
""", re.X)


def strip_comments(text):
    def repl(m):
        return re.sub(r"[^\n]", " ", m.group(0))
    text = re.sub(r"/\*.*?\*/", repl, text, flags=re.S)
    return re.sub(r"//[^\n]*", repl, text)


def tokenize(text, line0=1):
    toks, pos, line = [], 0, line0
    while pos < len(text):
        m = TOKEN.match(text, pos)
        if not m:
            raise Abort("cannot tokenise %r at line %d" % (text[pos:pos + 20], line))
        k = m.lastgroup
        if k != "ws":
            toks.append((k, m.group(0), line))
        line += m.group(0).count("\n")
        pos = m.end()
    return toks


# --------------------------------------------------------------------------- parser

class Parser:
    def __init__(self, toks, macros):
        self.t, self.i, self.macros = toks, 0, macros

    def peek(self, k=0):
        return self.t[self.i + k] if self.i + k < len(self.t) else ("eof", "", -1)

    def next(self):
        tok = self.peek()
        self.i += 1
        return tok

    def expect(self, val):
        tok = self.next()
        if tok[1] != val:
            raise Abort("expected %r but found %r at line %d" % (val, tok[1], tok[2]))
        return tok

    def at(self, val):
        return self.peek()[1] == val

    # statements
    def block(self):
        self.expect("{")
        out = []
        while not self.at("}"):
            out.append(self.stmt())
        self.expect("}")
        return ("block", out)

    def stmt(self):
        k, v, line = self.peek()
        if v == "{":
            return self.block()
        if v == "goto":
            self.next()
            lk, lv, _ll = self.next()
            if lk != "id":
                raise Abort("bad goto at line %d" % line)
            self.expect(";")
            return ("goto", lv, line)
        if k == "id" and self.peek(1)[1] == ":" and v not in ("default", "case"):
            self.next()
            self.next()
            return ("label", v, line)
        if v in ("while", "do", "switch", "break", "continue", "case", "default"):
            raise Abort("unsupported control flow %r at line %d" % (v, line))
        if v == "if":
            self.next()
            self.expect("(")
            c = self.expr()
            self.expect(")")
            a = self.stmt()
            b = None
            if self.at("else"):
                self.next()
                b = self.stmt()
            return ("if", c, a, b, line)
        if v == "for":
            self.next()
            self.expect("(")
            init = self.expr()
            self.expect(";")
            cond = self.expr()
            self.expect(";")
            step = self.expr()
            self.expect(")")
            return ("for", init, cond, step, self.stmt(), line)
        if v == "return":
            self.next()
            e = None if self.at(";") else self.expr()
            self.expect(";")
            return ("return", e, line)
        if k == "id" and v in self.macros and self.peek(1)[1] == "(":
            return self.macro_stmt()
        if k == "id" and v in TYPE_NAMES and self.peek(1)[1] != "(":
            return self.decl()
        if v == "static":
            # ``static char* kwlist[] = { .. };`` -- an array of string constants
            j, depth, ok = 0, 0, False
            while True:
                tok = self.peek(j)
                if tok[0] == "eof":
                    break
                if tok[1] == "{":
                    depth += 1
                elif tok[1] == "}":
                    depth -= 1
                elif tok[1] == ";" and depth == 0:
                    ok = True
                    break
                elif tok[0] not in ("str", "op", "num") and tok[1] not in ("static", "char", "kwlist", "NULL"):
                    break
                j += 1
            if not ok:
                raise Abort("static local at line %d" % line)
            self.i += j + 1
            return ("skip",)
        e = self.expr()
        self.expect(";")
        return ("expr", e, line)

    def macro_stmt(self):
        _k, name, line = self.next()
        self.expect("(")
        depth, arg = 1, []
        while True:
            tok = self.next()
            if tok[0] == "eof":
                raise Abort("unterminated macro call %s" % name)
            if tok[1] == "(":
                depth += 1
            if tok[1] == ")":
                depth -= 1
                if depth == 0:
                    break
            if tok[1] == "," and depth == 1:
                raise Abort("macro %s with several arguments at line %d" % (name, line))
            arg.append(tok)
        self.expect(";")
        param, body = self.macros[name]
        toks = []
        for tok in body:
            if tok[0] == "id" and tok[1] == param:
                toks.extend((a[0], a[1], line) for a in arg)
            else:
                toks.append((tok[0], tok[1], line))
        p = Parser(toks, {})
        out = []
        while p.peek()[0] != "eof":
            out.append(p.stmt())
        return ("block", out)

    def decl(self):
        _k, ty, line = self.next()
        out = []
        while True:
            ptr = 0
            while self.at("*"):
                self.next()
                ptr += 1
            k, name, _l = self.next()
            if k != "id":
                raise Abort("bad declarator %r at line %d" % (name, line))
            init = None
            if self.at("="):
                self.next()
                init = self.assign()
            out.append((name, init, ptr > 0))
            if self.at(","):
                self.next()
                continue
            break
        self.expect(";")
        return ("decl", out, line, ty)

    # expressions
    def expr(self):
        return self.assign()

    def assign(self):
        lhs = self.lor()
        if self.at("="):
            _k, _v, line = self.next()
            return ("assign", lhs, self.assign(), line)
        return lhs

    def lor(self):
        e = self.land()
        while self.at("||"):
            self.next()
            e = ("bin", "||", e, self.land())
        return e

    def land(self):
        e = self.equality()
        while self.at("&&"):
            self.next()
            e = ("bin", "&&", e, self.equality())
        return e

    def equality(self):
        e = self.relational()
        while self.peek()[1] in ("==", "!="):
            op = self.next()[1]
            e = ("bin", op, e, self.relational())
        return e

    def relational(self):
        e = self.unary()
        while self.peek()[1] in ("<", ">", "<=", ">="):
            op = self.next()[1]
            e = ("bin", op, e, self.unary())
        return e

    def unary(self):
        k, v, line = self.peek()
        if v in ("!", "-", "&"):
            self.next()
            return ("un", v, self.unary())
        if v == "(" and self.peek(1)[0] == "id" and self.peek(1)[1] in TYPE_NAMES:
            j = 2
            while self.peek(j)[1] == "*":
                j += 1
            if self.peek(j)[1] == ")":
                ty = self.peek(1)[1]
                self.i += j + 1
                return ("cast", ty, self.unary())
        return self.postfix()

    def postfix(self):
        k, v, line = self.next()
        if k == "num":
            e = ("num", int(v))
        elif k == "str":
            while self.peek()[0] == "str":      # adjacent string literals
                self.next()
            e = ("str", v)
        elif k == "id":
            if self.at("("):
                self.next()
                args = []
                if not self.at(")"):
                    while True:
                        args.append(self.assign())
                        if self.at(","):
                            self.next()
                            continue
                        break
                self.expect(")")
                e = ("call", v, args, line)
            else:
                e = ("id", v, line)
        elif v == "(":
            e = self.expr()
            self.expect(")")
        else:
            raise Abort("unsupported expression token %r at line %d" % (v, line))
        while True:
            if self.at("->"):
                self.next()
                fk, fv, _fl = self.next()
                if fk != "id":
                    raise Abort("bad field access at line %d" % line)
                e = ("field", e, fv, line)
            elif self.at("++"):
                self.next()
                e = ("postinc", e)
            elif self.peek()[1] in ("[", ".", "--", "?"):
                raise Abort("unsupported operator %r at line %d" % (self.peek()[1], line))
            else:
                return e


def find_function(text, name):
    """-> (return type, [param names], body text, first line of body)"""
    m = re.search(r"^static\s+([\w\s\*]+?)\s*\n%s\(([^)]*)\)\s*\n\{" % re.escape(name), text, re.M)
    if not m:
        raise Abort("function %s not found (or its definition has an unexpected layout)" % name)
    start = m.end() - 1
    depth, i = 0, start
    while True:
        ch = text[i]
        if ch == "{":
            depth += 1
        elif ch == "}":
            depth -= 1
            if depth == 0:
                break
        i += 1
    body = preprocess(text[start:i + 1], name)
    params = []
    for part in m.group(2).split(","):
        part = part.strip()
        pm = re.match(r"^(\w+)\s*(\**)\s*(\w+)$", part)
        if not pm:
            raise Abort("parameter %r of %s" % (part, name))
        params.append((pm.group(3), pm.group(1), bool(pm.group(2))))
    rtype = re.sub(r"\s+", "", m.group(1))
    return rtype, params, body, text[:start].count("\n") + 1


def _pp_value(cond, name):
    """value of a preprocessor condition made of the two build switches of this file"""
    import sys
    heap = 1 if sys.hexversion >= 0x030b0000 else 0
    known = {"USE_HEAP_TYPES": heap, "USE_STATIC_TYPES": 1 - heap}
    c = cond.strip()
    m = re.match(r"^(\w+)$", c)
    if m and c in known:
        return bool(known[c])
    m = re.match(r"^(\w+)\s*&&\s*PY_VERSION_HEX\s*>\s*(0x[0-9a-fA-F]+)$", c)
    if m and m.group(1) in known:
        return bool(known[m.group(1)]) and sys.hexversion > int(m.group(2), 16)
    raise Abort("preprocessor condition %r inside %s" % (cond, name))


def preprocess(body, name):
    """resolve #if / #else / #endif inside a function body (lines are kept, so line numbers stay)"""
    out, stack = [], []          # stack of [taking, seen_else]
    for ln in body.split("\n"):
        t = ln.strip()
        if t.startswith("#"):
            d = t[1:].strip()
            if d.startswith("if ") and not d.startswith("ifdef") and not d.startswith("ifndef"):
                stack.append([_pp_value(d[3:], name), False])
            elif d.startswith("else"):
                if not stack or stack[-1][1]:
                    raise Abort("stray #else inside %s" % name)
                stack[-1] = [not stack[-1][0], True]
            elif d.startswith("endif"):
                if not stack:
                    raise Abort("stray #endif inside %s" % name)
                stack.pop()
            else:
                raise Abort("preprocessor directive inside %s: %s" % (name, t))
            out.append("")
        else:
            out.append(ln if all(x[0] for x in stack) else "")
    if stack:
        raise Abort("unterminated #if inside %s" % name)
    return "\n".join(out)


def find_macros(text):
    out = {}
    for m in re.finditer(r"^#define\s+(ASSURE_\w+)\((\w+)\)((?:[^\n]*\\\n)*[^\n]*)", text, re.M):
        body = m.group(3).replace("\\\n", "\n")
        out[m.group(1)] = (m.group(2), tokenize(body))
    return out


# --------------------------------------------------------------------------- symbolic execution

NULL = ("null",)
STATIC = ("static",)


class State:
    def __init__(self):
        self.names = {}       # C name -> value
        self.slotk = {}       # slot name -> "null" | "nonnull"
        self.events = []
        self.trail = []
        self.none = set()     # ids known == Py_None
        self.notnone = set()
        self.facts = {}       # canonical condition text -> bool
        self.nullk = {}       # id -> True (known NULL-able parameter is NULL)/False
        self.err = None       # is an exception pending?  known only right after PyDict_GetItemWithError

    def fork(self):
        return copy.deepcopy(self)


class FnCtx:
    def __init__(self, name, summaries):
        self.name = name
        self.ids = {}          # site -> id
        self.labels = []       # id -> label
        self.kinds = {}        # id -> kind
        self.params = []       # ids
        self.tparams = []
        self.optional = set()  # ids of parameters that the code NULL-tests
        self.late_params = []  # outputs of PyArg_ParseTuple*: parameters, but not of the C signature
        self.loops = []        # loop schemas: events up to the head, events of each complete iteration
        self.summaries = summaries
        self.notes = []

    def newid(self, site, label, kind="KOther"):
        if site not in self.ids:
            self.ids[site] = len(self.labels)
            self.labels.append(label)
            self.kinds[self.ids[site]] = kind
        return self.ids[site]


def canon(e):
    if isinstance(e, tuple):
        return "(" + " ".join(canon(x) for x in e if not (isinstance(x, int) and x > 900)) + ")"
    return str(e)


class Exec:
    def __init__(self, text, macros, summaries):
        self.text, self.macros, self.summaries = text, macros, summaries
        self.parsed = {}
        self.failed = {}       # EXT function -> why it is not extracted

    def parse(self, name):
        if name not in self.parsed:
            rtype, params, body, line0 = find_function(self.text, name)
            p = Parser(tokenize(body, line0), self.macros)
            ast = p.block()
            if p.peek()[0] != "eof":
                raise Abort("trailing tokens after the body of %s" % name)
            self.parsed[name] = (rtype, params, ast)
        return self.parsed[name]

    # ---- values
    def slot_of(self, e):
        if e[0] == "field" and e[2] in SLOTS:
            base = e[1]
            while base[0] == "cast":
                base = base[2]
            if base == ("id", "self", base[2]) or (base[0] == "id" and base[1] == "self"):
                return e[2]
        return None

    def use(self, st, val):
        # an item of a tuple is identified with the tuple (immutable: lives as long as the tuple)
        if val[0] in ("obj", "item"):
            st.events.append(("EUse", val[1]))

    def unchecked(self, fx, v, line):
        note = "result of %s is not checked for NULL and dereferenced at line %d (crash when memory is exhausted)" % (v[1], line)
        if note not in fx.notes:
            fx.notes.append(note)

    def require_tuple(self, fx, val, what, line):
        if val[0] != "obj":
            raise Abort("%s applied to a non-object at line %d" % (what, line))
        i = val[1]
        if i in fx.params:
            if i not in fx.tparams:
                fx.tparams.append(i)
        elif fx.kinds.get(i) != "KTuple":
            raise Abort("%s applied to %s which is not known to be a tuple (line %d)" % (what, fx.labels[i], line))

    def values(self, fx, st, e):
        """evaluate e for its value -> [(state, value)]"""
        k = e[0]
        if k == "num":
            return [(st, ("int", e[1]))]
        if k == "str":
            return [(st, ("static", "str", e[1] if len(e) > 1 else ""))]
        if k == "un" and e[1] == "-":
            out = []
            for s, v in self.values(fx, st, e[2]):
                if v[0] != "int":
                    raise Abort("unary minus on a non-constant")
                out.append((s, ("int", -v[1])))
            return out
        if k == "un" and e[1] == "&":
            inner = e[2]
            if inner[0] == "id" and inner[1] in st.names:
                return [(st, ("addr", inner[1]))]
            if inner[0] == "id" and STATIC_ID.match(inner[1]):
                return [(st, STATIC)]
            raise Abort("address-of %s" % canon(inner))
        if k == "cast":
            return self.values(fx, st, e[2])
        if k == "id":
            name = e[1]
            if name == "NULL":
                return [(st, NULL)]
            if name in st.names:
                v = st.names[name]
                if v[0] == "undef":
                    raise Abort("%s read before it is assigned (line %d)" % (name, e[2]))
                return [(st, v)]
            if name == "Py_None":
                return [(st, ("none",))]
            if STATIC_ID.match(name):
                return [(st, STATIC)]
            raise Abort("unknown identifier %s at line %d" % (name, e[2]))
        if k == "field":
            slot = self.slot_of(e)
            if slot is None:
                return self.field(fx, st, e)
            kn = st.slotk.get(slot)
            if kn == "null":
                return [(st, NULL)]
            if kn != "nonnull":
                raise Abort("self->%s read without a NULL test at line %d" % (slot, e[3]))
            i = fx.newid(("slot", slot, e[3]), "self->%s@%d" % (slot, e[3]), SLOT_KIND[slot])
            st.events.append(("EFetchSlot", i, SLOTS[slot]))
            return [(st, ("obj", i))]
        if k == "assign":
            return self.assign(fx, st, e)
        if k == "call":
            return self.call(fx, st, e)
        if k == "bin" or (k == "un" and e[1] == "!"):
            return [(s, ("int", 1 if b else 0)) for s, b in self.cond(fx, st, e)]
        if k == "postinc":
            raise Abort("++ outside a for header")
        raise Abort("unsupported expression %s" % canon(e))

    def field(self, fx, st, e):
        """``x->f`` where x is a reference-counted object or module state"""
        _k, base, fname, line = e
        out = []
        for s, b in self.values(fx, st, base):
            if b[0] == "static":
                if fname in STATIC_FIELDS or fname in NONNULL_FIELDS:
                    out.append((s, ("static", fname) if fname in PSEUDO_SLOTS else STATIC))
                else:
                    raise Abort("field %s of a static object at line %d" % (fname, line))
            elif b[0] == "obj":
                if fname in STATIC_FIELDS:
                    out.append((s, STATIC))
                elif fname in NONNULL_FIELDS or fname in NULLABLE_FIELDS:
                    s.events.append(("EUse", b[1]))
                    if fname in NULLABLE_FIELDS:
                        key = "fieldnull(%d,%s)" % (b[1], fname)
                        for s2, isnull in self.fork_fact(s, key, "%s->%s is NULL" % (fx.labels[b[1]], fname)):
                            if isnull:
                                out.append((s2, NULL))
                            else:
                                i = fx.newid(("field", fname, line), "%s->%s@%d" % (fx.labels[b[1]], fname, line))
                                s2.events.append(("EFetchItem", i, b[1]))
                                out.append((s2, ("obj", i)))
                    else:
                        i = fx.newid(("field", fname, line), "%s->%s@%d" % (fx.labels[b[1]], fname, line))
                        s.events.append(("EFetchItem", i, b[1]))
                        out.append((s, ("obj", i)))
                else:
                    raise Abort("unsupported field access %s at line %d" % (fname, line))
            else:
                raise Abort("field %s of %r at line %d" % (fname, b, line))
        return out

    def assign(self, fx, st, e):
        _k, lhs, rhs, line = e
        out = []
        slot = self.slot_of(lhs)
        for s, v in self.values(fx, st, rhs):
            if slot is not None:
                if v[0] == "obj":
                    if fx.kinds.get(v[1]) != SLOT_KIND[slot]:
                        raise Abort("self->%s assigned a value of kind %s at line %d" % (slot, fx.kinds.get(v[1]), line))
                    s.events.append(("EStoreSlot", SLOTS[slot], v[1]))
                    s.slotk[slot] = "nonnull"
                elif v[0] == "null":
                    if s.slotk.get(slot) != "null":
                        raise Abort("self->%s = NULL while it may hold a reference (line %d)" % (slot, line))
                else:
                    raise Abort("self->%s assigned %r at line %d" % (slot, v, line))
            elif lhs[0] == "id":
                if lhs[1] not in s.names:
                    raise Abort("assignment to undeclared %s at line %d" % (lhs[1], line))
                s.names[lhs[1]] = v
            else:
                raise Abort("unsupported assignment target %s at line %d" % (canon(lhs), line))
            out.append((s, v))
        return out

    def args(self, fx, st, arglist):
        """evaluate arguments left to right -> [(state, [values])]"""
        res = [(st, [])]
        for a in arglist:
            nxt = []
            for s, vs in res:
                for s2, v in self.values(fx, s, a):
                    nxt.append((s2, vs + [v]))
            res = nxt
        return res

    def call(self, fx, st, e):
        _k, fname, arglist, line = e
        if fname in ("OBJECT", "TYPE"):
            return self.values(fx, st, arglist[0])
        out = []
        if fname in ("Py_INCREF", "Py_XINCREF", "Py_DECREF", "Py_XDECREF", "Py_CLEAR"):
            target = arglist[0]
            slot = self.slot_of(target)
            if slot is not None:
                if fname != "Py_CLEAR":
                    raise Abort("%s(self->%s) at line %d" % (fname, slot, line))
                st.events.append(("EClearSlot", SLOTS[slot]))
                st.slotk.pop(slot, None)
                return [(st, ("void",))]
            for s, v in self.values(fx, st, target):
                if v[0] == "none":
                    if fname in ("Py_DECREF", "Py_XDECREF"):
                        cands = sorted(s.none)
                        if len(cands) > 1:
                            raise Abort("Py_DECREF(Py_None) with several values known to be None (line %d)" % line)
                        if cands:
                            s.events.append(("EDecref", cands[0]))
                            s.none.discard(cands[0])
                    out.append((s, ("void",)))
                elif v[0] == "obj":
                    if s.nullk.get(v[1]) is None and v[1] in fx.optional and not fname.startswith("Py_X"):
                        raise Abort("%s of a NULL-able parameter without a test (line %d)" % (fname, line))
                    if s.nullk.get(v[1]) is True:
                        if not fname.startswith("Py_X") and fname != "Py_CLEAR":
                            raise Abort("%s(NULL) at line %d" % (fname, line))
                    else:
                        s.events.append(("EIncref" if "INCREF" in fname else "EDecref", v[1]))
                    if fname == "Py_CLEAR":
                        if target[0] != "id":
                            raise Abort("Py_CLEAR of %s" % canon(target))
                        s.names[target[1]] = NULL
                    out.append((s, ("void",)))
                elif v[0] == "null":
                    if fname in ("Py_XDECREF", "Py_XINCREF", "Py_CLEAR"):
                        out.append((s, ("void",)))
                    elif len(v) > 1:
                        self.unchecked(fx, v, line)      # path dropped
                    else:
                        raise Abort("%s(NULL) at line %d" % (fname, line))
                elif v[0] == "static":
                    out.append((s, ("void",)))
                else:
                    raise Abort("%s of %r at line %d" % (fname, v, line))
            return out
        if fname == "Py_XSETREF":
            slot = self.slot_of(arglist[0])
            if slot is None:
                raise Abort("Py_XSETREF on something that is not an owner slot (line %d)" % line)
            for s, v in self.values(fx, st, arglist[1]):
                if v[0] != "obj":
                    raise Abort("Py_XSETREF(self->%s, %r) at line %d" % (slot, v, line))
                if fx.kinds.get(v[1]) != SLOT_KIND[slot]:
                    raise Abort("self->%s set to a value of kind %s at line %d" % (slot, fx.kinds.get(v[1]), line))
                s.events.append(("ESwapSlot", SLOTS[slot], v[1]))
                s.slotk.pop(slot, None)
                out.append((s, ("void",)))
            return out
        if fname in INLINE:
            return self.inline(fx, st, fname, line)
        # tuple(x): calling the tuple type returns a tuple
        self.kind_override = "KTuple" if (fname == "PyObject_CallFunctionObjArgs" and arglist
                                          and "PyTuple_Type" in canon(arglist[0])) else None
        override = self.kind_override
        for s, vs in self.args(fx, st, arglist):
            self.kind_override = override
            out.extend(self.apply(fx, s, fname, vs, line))
        return out

    def parse_args(self, fx, st, fname, vs, line):
        """PyArg_ParseTuple[AndKeywords]: the outputs are items of the caller's argument tuple / keyword
        dictionary, which the caller keeps alive and nobody else can reach: they are treated as further
        (borrowed) parameters of the function; the ones after ``|`` may stay NULL."""
        fmt = None
        for v in vs:
            if v[0] == "static" and len(v) > 2 and v[1] == "str":
                fmt = v[2].strip('"')
                break
        outs = [v[1] for v in vs if v[0] == "addr"]
        if fmt is None or not re.match(r"^O*\|?O*(:[\w.]+)?$", fmt):
            raise Abort("%s with format %r at line %d" % (fname, fmt, line))
        core = fmt.split(":")[0]
        required = core.split("|")[0].count("O")
        if core.count("O") != len(outs):
            raise Abort("%s: %d outputs for format %r at line %d" % (fname, len(outs), fmt, line))
        bad = st.fork()
        bad.trail.append("L%d %s: fails" % (line, fname))
        st.trail.append("L%d %s: ok" % (line, fname))
        for j, name in enumerate(outs):
            i = fx.newid(("argout", name), name)
            if i not in fx.params:
                fx.params.append(i)
                fx.late_params.append(i)
            if j >= required:
                fx.optional.add(i)
            st.names[name] = ("obj", i)
        return [(bad, ("int", 0)), (st, ("int", 1))]

    def inline(self, fx, st, fname, line):
        rtype, params, ast = self.parse(fname)
        saved = st.names
        st.names = {params[0][0]: STATIC} if params else {}
        out = []
        for s, (how, v) in self.block(fx, st, ast):
            s.names = copy.deepcopy(saved)
            out.append((s, v if how == "ret" else ("void",)))
        if len(out) != 1:
            raise Abort("inlined helper %s has %d paths (line %d)" % (fname, len(out), line))
        return out

    def apply(self, fx, st, fname, vs, line):
        def objs(idx):
            sel = vs if idx == "*" else [vs[i] for i in idx]
            return [v for v in sel if v[0] in ("obj", "item") and st.nullk.get(v[1]) is not True]

        if fname == "PyErr_Occurred":
            if st.err is None:
                raise Abort("PyErr_Occurred() at line %d does not follow a PyDict_GetItemWithError" % line)
            return [(st, ("int", 1 if st.err else 0))]
        if fname in ("PyArg_ParseTupleAndKeywords", "PyArg_ParseTuple"):
            return self.parse_args(fx, st, fname, vs, line)
        if fname == "PyList_GET_ITEM":
            lst = vs[0]
            if lst[0] != "static" or len(lst) < 2 or lst[1] not in PSEUDO_SLOTS:
                raise Abort("PyList_GET_ITEM on %r (line %d)" % (lst, line))
            # a borrowed item of a list that lives in the module state: read through a pseudo owner slot
            i = fx.newid(("listitem", line), "%s[i]@%d" % (lst[1], line))
            st.events.append(("EAssumeSlot", PSEUDO_SLOTS[lst[1]], True))
            st.events.append(("EFetchSlot", i, PSEUDO_SLOTS[lst[1]]))
            return [(st, ("obj", i))]
        if fname in ("PyDict_GetItem", "PyDict_GetItemWithError") and vs[0][0] == "static":
            d, key = vs
            if len(d) < 2 or d[1] not in PSEUDO_SLOTS:
                raise Abort("%s on %r (line %d)" % (fname, d, line))
            self.use(st, key)
            st.events.append(("EKeyCall",))
            self.use(st, key)
            miss = st.fork()
            miss.trail.append("L%d %s: miss" % (line, fname))
            st.trail.append("L%d %s: hit" % (line, fname))
            i = fx.newid(("getitem", line), "item@%d" % line)
            st.events.append(("EAssumeSlot", PSEUDO_SLOTS[d[1]], True))
            st.events.append(("EFetchSlot", i, PSEUDO_SLOTS[d[1]]))
            return [(miss, NULL), (st, ("obj", i))]
        if fname in ("PyDict_GetItem", "PyDict_GetItemWithError"):
            d, key = vs
            if d[0] != "obj":
                raise Abort("PyDict_GetItem on %r (line %d)" % (d, line))
            for v in (d, key):
                self.use(st, v)
            st.events.append(("EKeyCall",))
            for v in (key, d):
                self.use(st, v)
            out = []
            if fname == "PyDict_GetItemWithError":
                bad = st.fork()
                bad.trail.append("L%d %s: error (unhashable key / __eq__ raised)" % (line, fname))
                bad.err = True
                out.append((bad, NULL))
            miss = st.fork()
            miss.trail.append("L%d %s: miss" % (line, fname))
            miss.err = False if fname == "PyDict_GetItemWithError" else None
            hit = st
            hit.trail.append("L%d %s: hit" % (line, fname))
            hit.err = miss.err
            i = fx.newid(("getitem", line), "item@%d" % line)
            hit.events.append(("EFetchItem", i, d[1]))
            return out + [(miss, NULL), (hit, ("obj", i))]
        if fname == "PyDict_SetItem":
            d, key, val = vs
            if d[0] != "obj" or val[0] != "obj":
                raise Abort("PyDict_SetItem(%r, .., %r) at line %d" % (d, val, line))
            for v in (d, key, val):
                self.use(st, v)
            st.events.append(("EKeyCall",))
            for v in (key, d):
                self.use(st, v)
            bad = st.fork()
            bad.trail.append("L%d PyDict_SetItem: fails" % line)
            st.trail.append("L%d PyDict_SetItem: ok" % line)
            st.events.append(("EStoreItem", d[1], val[1]))
            st.events.append(("EMayCall",))
            return [(bad, ("int", -1)), (st, ("int", 0))]
        if fname == "PyTuple_GET_ITEM":
            t = vs[0]
            self.require_tuple(fx, t, fname, line)
            i = fx.newid(("tupitem", line), "item@%d" % line)
            st.events.append(("EFetchTuple", i, t[1]))
            return [(st, ("obj", i))]
        if fname == "PyTuple_SET_ITEM":
            t, _idx, val = vs
            if t[0] == "null" and len(t) > 1:
                self.unchecked(fx, t, line)
                return []
            if t[0] != "obj" or fx.kinds.get(t[1]) != "KTuple" or val[0] != "obj":
                raise Abort("PyTuple_SET_ITEM(%r, .., %r) at line %d" % (t, val, line))
            st.events.append(("EStealItem", t[1], val[1]))
            return [(st, ("void",))]
        if fname in self.summaries or (fname in ALL_FUNCS and fname not in self.failed):
            if fname not in self.summaries:
                raise Abort("%s calls %s which is extracted later (recursion?)" % (fx.name, fname))
            summ = self.summaries[fname]
            st.err = None
            args, temps = [], []
            # one entry per pointer parameter of the callee, in its order
            for pos in summ["param_pos"]:
                v = vs[pos]
                if pos not in summ["mentioned_pos"]:
                    args.append(None)            # the callee never touches this parameter
                elif v[0] in ("obj", "item") and st.nullk.get(v[1]) is not True:
                    args.append(v[1])
                    if pos in summ["tparam_pos"]:
                        self.require_tuple(fx, v, "tuple parameter of " + fname, line)
                elif v[0] in ("none", "static") and pos in summ["mentioned_pos"]:
                    # a constant object: the caller is modelled as holding a temporary reference over the call
                    t = fx.newid(("statarg", fname, line, pos), "const-arg%d-of-%s@%d" % (pos, fname, line))
                    st.events.append(("ENewRef", t))
                    temps.append(t)
                    args.append(t)
                elif v[0] in ("none", "static", "null") or (v[0] == "obj" and st.nullk.get(v[1]) is True):
                    args.append(None)
                else:
                    raise Abort("argument %d of %s is %r at line %d" % (pos, fname, v, line))
            if summ["ret"] == "ptr":
                bad = st.fork()
                bad.trail.append("L%d %s: returns NULL" % (line, fname))
                bad.events.append(("ECall", FN_ID[fname], args, None))
                st.trail.append("L%d %s: ok" % (line, fname))
                i = fx.newid(("call", fname, line), "%s()@%d" % (fname, line), RET_KIND.get(fname, "KOther"))
                st.events.append(("ECall", FN_ID[fname], args, i))
                for t in temps:
                    bad.events.append(("EDecref", t))
                    st.events.append(("EDecref", t))
                return [(bad, NULL), (st, ("obj", i))]
            raise Abort("call of %s (returns %s) is not supported at line %d" % (fname, summ["ret"], line))
        if fname in self.failed:
            t = EXT_TABLE[fname]
        elif fname not in TABLE:
            raise Abort("unknown callee %s at line %d (in %s)" % (fname, line, fx.name))
        else:
            t = TABLE[fname]
        st.err = None
        if "tuple_arg" in t:
            self.require_tuple(fx, vs[t["tuple_arg"]], fname, line)
        used = objs(t["uses"])
        for v in used:
            self.use(st, v)
        if t["py"]:
            st.events.append(("EMayCall",))
            for v in used:
                self.use(st, v)
        ret = t["ret"]
        if ret == "void":
            return [(st, ("void",))]
        if ret == "static":
            return [(st, STATIC)]
        if ret.startswith("static:"):
            return [(st, ("static", ret.split(":")[1]))]
        if ret == "static?":
            bad = st.fork()
            bad.trail.append("L%d %s: fails" % (line, fname))
            st.trail.append("L%d %s: ok" % (line, fname))
            return [(bad, NULL), (st, STATIC)]
        if ret.startswith("int:"):
            vals = ret[4:]
            if vals == "?":
                return [(st, ("unk", "%s@%d" % (fname, line)))]
            out = []
            alts = [int(x) for x in vals.split(",")]
            for j, n in enumerate(alts):
                s = st if j == len(alts) - 1 else st.fork()
                s.trail.append("L%d %s: %d" % (line, fname, n))
                out.append((s, ("int", n)))
            return out
        kind = self.kind_override or ret.split(":")[1]
        bad = st.fork()
        bad.trail.append("L%d %s: fails" % (line, fname))
        nullv = ("null", "%s at line %d" % (fname, line)) if fname in ALLOC_ONLY else NULL
        st.trail.append("L%d %s: ok" % (line, fname))
        i = fx.newid(("api", fname, line), "%s()@%d" % (fname, line), kind)
        st.events.append(("ENewRef", i))
        return [(bad, nullv), (st, ("obj", i))]

    # ---- conditions
    def fork_fact(self, st, key, label):
        if key in st.facts:
            return [(st, st.facts[key])]
        a, b = st, st.fork()
        a.facts[key] = True
        a.trail.append(label + ": yes")
        b.facts[key] = False
        b.trail.append(label + ": no")
        return [(a, True), (b, False)]

    def is_null(self, fx, st, v, label):
        """-> [(state, bool)]: the pointer value v is NULL"""
        if v[0] == "null":
            return [(st, True)]
        if v[0] in ("static", "none", "item"):
            return [(st, False)]
        if v[0] == "obj":
            i = v[1]
            if i in fx.params and i in fx.optional:
                if i in st.nullk:
                    return [(st, st.nullk[i])]
                a, b = st, st.fork()
                a.nullk[i] = True
                a.trail.append("%s is NULL" % fx.labels[i])
                b.nullk[i] = False
                b.trail.append("%s is not NULL" % fx.labels[i])
                return [(a, True), (b, False)]
            return [(st, False)]
        raise Abort("NULL test of %r (%s)" % (v, label))

    def cond(self, fx, st, e):
        k = e[0]
        if k == "un" and e[1] == "!":
            return [(s, not b) for s, b in self.cond(fx, st, e[2])]
        if k == "bin" and e[1] in ("&&", "||"):
            out = []
            for s, b in self.cond(fx, st, e[2]):
                if (e[1] == "&&" and not b) or (e[1] == "||" and b):
                    out.append((s, b))
                else:
                    out.extend(self.cond(fx, s, e[3]))
            return out
        if k == "bin":
            op, l, r = e[1], e[2], e[3]
            slot = self.slot_of(l)
            if slot is not None and r[0] == "id" and r[1] == "NULL" and op in ("==", "!="):
                kn = st.slotk.get(slot)
                if kn is None:
                    a, b = st, st.fork()
                    a.slotk[slot] = "null"
                    a.events.append(("EAssumeSlot", SLOTS[slot], False))
                    a.trail.append("self->%s is NULL" % slot)
                    b.slotk[slot] = "nonnull"
                    b.events.append(("EAssumeSlot", SLOTS[slot], True))
                    b.trail.append("self->%s is not NULL" % slot)
                    res = [(a, True), (b, False)]
                else:
                    res = [(st, kn == "null")]
                return [(s, isnull if op == "==" else not isnull) for s, isnull in res]
            out = []
            for s, lv in self.values(fx, st, l):
                for s2, rv in self.values(fx, s, r):
                    out.extend(self.compare(fx, s2, op, lv, rv, e))
            return out
        # truthiness of a value
        out = []
        for s, v in self.values(fx, st, e):
            if v[0] == "int":
                out.append((s, v[1] != 0))
            elif v[0] in ("obj", "null", "static", "none"):
                out.extend((s2, not b) for s2, b in self.is_null(fx, s, v, canon(e)))
            else:
                raise Abort("truth value of %r" % (v,))
        return out

    def compare(self, fx, st, op, lv, rv, e):
        def fin(pairs, eq_means):
            return [(s, b if op == "==" else not b) for s, b in pairs] if eq_means else pairs

        if lv[0] in ("int",) and rv[0] == "int":
            a, b = lv[1], rv[1]
            return [(st, {"==": a == b, "!=": a != b, "<": a < b, ">": a > b, "<=": a <= b, ">=": a >= b}[op])]
        if "unk" in (lv[0], rv[0]):
            return self.fork_fact(st, canon(("cmp", op, lv, rv)), "%s %s %s" % (lv[1], op, rv[1]))
        if op not in ("==", "!="):
            raise Abort("ordering comparison of pointers %s" % canon(e))
        if rv[0] == "null" or lv[0] == "null":
            if rv[0] == "null" and lv[0] == "null":
                return fin([(st, True)], True)
            other = lv if rv[0] == "null" else rv
            return fin(self.is_null(fx, st, other, canon(e)), True)
        if "none" in (lv[0], rv[0]):
            other = lv if rv[0] == "none" else rv
            if other[0] == "none":
                return fin([(st, True)], True)
            if other[0] != "obj":
                return fin([(st, False)], True)
            i = other[1]
            if i in st.none:
                return fin([(st, True)], True)
            if i in st.notnone:
                return fin([(st, False)], True)
            a, b = st, st.fork()
            a.none.add(i)
            a.trail.append("%s is None" % fx.labels[i])
            b.notnone.add(i)
            b.trail.append("%s is not None" % fx.labels[i])
            return fin([(a, True), (b, False)], True)
        if lv[0] in ("obj", "item") and rv[0] in ("obj", "item"):
            if lv == rv:
                return fin([(st, True)], True)
            key = "same(%d,%d)" % tuple(sorted((lv[1], rv[1])))
            return fin(self.fork_fact(st, key, "%s is %s" % (fx.labels[lv[1]], fx.labels[rv[1]])), True)
        raise Abort("unsupported comparison %s" % canon(e))

    # ---- statements: -> [(state, ("fall", None) | ("ret", value))]
    def block(self, fx, st, node):
        assert node[0] == "block"
        live = [st]
        done = []
        declared = []
        jumping = []         # (state, label): skipping forward to a label of this block
        for stmt in node[1]:
            if stmt[0] == "label":
                live = live + [s for s, lab in jumping if lab == stmt[1]]
                jumping = [(s, lab) for s, lab in jumping if lab != stmt[1]]
                continue
            nxt = []
            for s in live:
                for s2, how in self.stmt(fx, s, stmt, declared):
                    if how[0] == "fall":
                        nxt.append((s2, how))
                    elif how[0] == "goto":
                        jumping.append((s2, how[1]))
                    else:
                        done.append((s2, how))
            live = [s for s, _h in nxt]
            if len(live) + len(done) + len(jumping) > 4000:
                raise Abort("path explosion in %s" % fx.name)
        done = done + [(s, ("goto", lab)) for s, lab in jumping]     # resolved by an enclosing block
        for s in live:
            for name, old in declared:
                if old is None:
                    s.names.pop(name, None)
                else:
                    s.names[name] = old
        return [(s, ("fall", None)) for s in live] + done

    def stmt(self, fx, st, node, declared):
        k = node[0]
        if k == "block":
            return self.block(fx, st, node)
        if k == "skip":
            return [(st, ("fall", None))]
        if k == "goto":
            st.trail.append("L%d goto %s" % (node[2], node[1]))
            return [(st, ("goto", node[1]))]
        if k == "label":
            raise Abort("label %s inside a nested statement" % node[1])
        if k == "expr" and node[1][0] == "id" and node[1][1] in ("Py_RETURN_TRUE", "Py_RETURN_FALSE", "Py_RETURN_NONE"):
            return [(st, ("ret", ("none",)))]       # a new reference to a constant object
        if k == "decl":
            res = [st]
            for name, init, isptr in node[1]:
                nxt = []
                for s in res:
                    if not any(d[0] == name for d in declared):
                        declared.append((name, s.names.get(name)))
                    if init is None:
                        s.names[name] = ("undef",)
                        nxt.append(s)
                    else:
                        for s2, v in self.values(fx, s, init):
                            s2.names[name] = v
                            nxt.append(s2)
                res = nxt
            return [(s, ("fall", None)) for s in res]
        if k == "expr":
            return [(s, ("fall", None)) for s, _v in self.values(fx, st, node[1])]
        if k == "if":
            out = []
            for s, b in self.cond(fx, st, node[1]):
                s.trail.append("L%d if: %s" % (node[4], "then" if b else "else"))
                branch = node[2] if b else node[3]
                if branch is None:
                    out.append((s, ("fall", None)))
                else:
                    out.extend(self.stmt(fx, s, branch, []))
            return out
        if k == "return":
            if node[1] is None:
                return [(st, ("ret", ("void",)))]
            return [(s, ("ret", v)) for s, v in self.values(fx, st, node[1])]
        if k == "for":
            return self.loop(fx, st, node)
        raise Abort("unsupported statement %s" % k)

    def loop(self, fx, st, node):
        _k, init, cond, step, body, line = node
        ok = (init[0] == "assign" and init[1][0] == "id" and init[2] == ("num", 0)
              and cond[0] == "bin" and cond[1] == "<" and cond[2][0] == "id" and cond[2][1] == init[1][1]
              and step == ("postinc", ("id", init[1][1], step[1][2] if step[0] == "postinc" else 0)))
        # the bound: a variable holding a cached size, or the size read again before every iteration
        fresh_bound = ok and cond[3][0] == "call" and cond[3][1] in ("PyTuple_GET_SIZE", "PyList_GET_SIZE")
        if not ok or not (cond[3][0] == "id" or fresh_bound):
            raise Abort("unsupported loop shape at line %d" % line)
        ivar = init[1][1]
        cached_list = False
        if not fresh_bound:
            lvar = cond[3][1]
            if st.names.get(lvar, ("x",))[0] != "unk" or not st.names[lvar][1].startswith(("PyTuple_GET_SIZE", "PyList_GET_SIZE")):
                raise Abort("loop bound %s at line %d is not a PyTuple_GET_SIZE / PyList_GET_SIZE" % (lvar, line))
            cached_list = st.names[lvar][1].startswith("PyList_GET_SIZE")
        if getattr(st, "in_loop", False):
            raise Abort("nested loop at line %d" % line)
        # the loop run zero times ...
        zero = st.fork()
        zero.trail.append("L%d loop: left (any number of complete iterations before, see the loop schema)" % line)
        out = [(zero, ("fall", None))]
        # ... and ONE iteration from the state at the head: the ways through the body that come back to the head
        # are the schema's iterations (Coq checks that each re-establishes the discipline state of the head, so
        # that any number of them can run); the ways that leave the function are further paths
        pre = list(st.events)
        s0 = st.fork()
        s0.in_loop = True
        s0.trail.append("L%d loop: an iteration" % line)
        live = [s0]
        if fresh_bound:
            live = [s2 for s in live for s2, _v in self.values(fx, s, cond[3])]
        conts = []
        for s in live:
            if cached_list:
                # the list may have shrunk while an earlier iteration ran Python code: the item is read beyond
                # its current length.  Not expressible in the model: poison the iteration.
                bad = fx.newid(("poison", line), "item-beyond-the-current-length-of-the-list@%d" % line)
                s.trail.append("L%d the cached length of a list is used after the body ran" % line)
                s.events.append(("EUse", bad))
            s.names[ivar] = ("unk", "loopvar@%d" % line)
            for s2, how in self.stmt(fx, s, body, []):
                if how[0] == "fall":
                    conts.append((s2.events[len(pre):], s2.trail[len(st.trail):]))
                else:
                    s2.in_loop = False
                    out.append((s2, how))
        fx.loops.append({"line": line, "pre": pre, "conts": conts})
        return out

    # ---- one function
    def function(self, name):
        rtype, params, ast = self.parse(name)
        fx = FnCtx(name, self.summaries)
        st = State()
        optional_names = set()
        src = canon(ast)
        ppos = {}
        for cpos, (pname, pty, isptr) in enumerate(params):
            if pty in SELF_STATIC_TYPES or (isptr and pty not in OBJECT_TYPES):
                st.names[pname] = STATIC      # the lookup object itself / module state / a type
            elif isptr:
                ppos[cpos] = pname
                i = fx.newid(("param", pname), pname)
                fx.params.append(i)
                st.names[pname] = ("obj", i)
                # a parameter is NULL-able iff the code tests it against NULL / for truth
                if re.search(r"\(bin (==|!=) \(id %s\) \(id NULL\)\)" % pname, src) or \
                        re.search(r"\(bin && \(id %s\)" % pname, src) or re.search(r"\(un ! \(id %s\)\)" % pname, src):
                    fx.optional.add(i)
            else:
                st.names[pname] = ("unk", "param:" + pname)
        paths = []
        for s, (how, v) in self.block(fx, st, ast):
            if how == "goto":
                raise Abort("%s: goto %s does not jump forward to a label of an enclosing block" % (name, v))
            if how == "fall":
                if rtype != "void":
                    raise Abort("%s: control reaches the end of a non-void function" % name)
                v = ("void",)
            if v[0] == "obj" and s.nullk.get(v[1]) is not True:
                s.events.append(("EReturn", v[1]))
            elif v[0] in ("none", "static") and rtype.endswith("*") and rtype.startswith("PyObject"):
                # a new reference to a constant object (Py_None, Py_True, the empty declaration ..)
                t = fx.newid(("constret",), "constant")
                s.events.append(("ENewRef", t))
                s.events.append(("EReturn", t))
            elif v[0] == "item":
                raise Abort("%s returns an item of a tuple" % name)
            else:
                s.events.append(("EReturn", None))
            paths.append((s.events, s.trail))
        if not paths:
            raise Abort("%s has no path" % name)
        pos = {pname: j for j, (pname, _t, _p) in enumerate(params)}
        tpos = [pos[fx.labels[i]] for i in fx.tparams]
        sig_params = [i for i in fx.params if i not in fx.late_params]
        param_pos = [pos[fx.labels[i]] for i in sig_params]
        used = set()
        for evs, _tr in paths:
            for ev in evs:
                for x in ev[1:]:
                    if isinstance(x, int) and not isinstance(x, bool):
                        used.add(x)
                    elif isinstance(x, list):
                        used.update(y for y in x if y is not None)
        mentioned_pos = [pos[fx.labels[i]] for i in sig_params if i in used]
        rk = RET_KIND.get(name)
        if rk:
            for evs, _tr in paths:
                r = evs[-1][1]
                if r is not None and fx.kinds.get(r) != rk:
                    raise Abort("%s returns a value of kind %s, table says %s" % (name, fx.kinds.get(r), rk))
        self.summaries[name] = {"ret": "ptr" if (rtype.endswith("*") and rtype.startswith("PyObject")) else rtype,
                                "tparam_pos": tpos, "param_pos": param_pos, "mentioned_pos": mentioned_pos}
        return fx, paths


# --------------------------------------------------------------------------- output

def coq_ev(e):
    k = e[0]
    if k in ("EMayCall", "EKeyCall"):
        return k
    if k == "EReturn":
        return "EReturn None" if e[1] is None else "EReturn (Some %d)" % e[1]
    if k == "EAssumeSlot":
        return "EAssumeSlot %d %s" % (e[1], "true" if e[2] else "false")
    if k == "ECall":
        ret = "None" if e[3] is None else "(Some %d)" % e[3]
        return "ECall %d [%s] %s" % (e[1], "; ".join("None" if a is None else "Some %d" % a for a in e[2]), ret)
    return "%s %s" % (k, " ".join(str(x) for x in e[1:]))


def extract(repo=None):
    """-> (coq text, json-able description).  Raises Abort."""
    path = os.path.join(repo or C.REPO, SOURCE)
    text = strip_comments(open(path).read())
    ex = Exec(text, find_macros(text), {})
    got, desc = {}, []
    for name in ALL_FUNCS:
        try:
            fx, paths = ex.function(name)
        except Abort as e:
            if name not in EXT_FUNCS:
                raise
            # stays an entry of the API table; reported in the evidence
            ex.failed[name] = str(e)
            ex.summaries.pop(name, None)
            continue
        got[name] = (fx, paths)
    fns = []
    for name in FUNCS + EXT_FUNCS:
        if name in got:
            fx, paths = got[name]
            fns.append((name, fx, paths))
            desc.append({"name": name, "id": FN_ID[name], "notes": fx.notes, "vars": fx.labels, "params": fx.params,
                         "sig_params": [i for i in fx.params if i not in fx.late_params], "tparams": fx.tparams,
                         "paths": [{"trail": tr, "events": [coq_ev(e) for e in evs]} for evs, tr in paths],
                         "loops": [{"line": lp["line"], "pre": [coq_ev(e) for e in lp["pre"]],
                                    "iterations": [{"trail": tr, "events": [coq_ev(e) for e in evs]} for evs, tr in lp["conts"]]}
                                   for lp in fx.loops]})
        else:
            fns.append((name, None, []))
            desc.append({"name": name, "id": FN_ID[name], "table_entry": ex.failed[name], "notes": [], "vars": [],
                         "params": [], "sig_params": [], "tparams": [], "paths": []})
    lines = ["(* GENERATED on every run by harness/translate/cskeleton.py from",
             "   src/zope/interface/_zope_interface_coptimizations.c -- do not edit. *)",
             "From Coq Require Import List.", "Import ListNotations.", "From ZI Require Import Model.Own.", ""]
    for name, fx, paths in fns:
        if fx is None:
            lines.append("(* %s: NOT extracted (%s); it stays an entry of the API table *)" % (name, ex.failed[name].replace("*)", "* )")))
            lines.append("Definition fn_%s : fn := mkFn %d [] []." % (name.strip("_"), FN_ID[name]))
            lines.append("")
            continue
        lines.append("(* %s: variables %s *)" % (name, ", ".join("%d=%s" % (i, l) for i, l in enumerate(fx.labels))))
        lines.append("Definition fn_%s : fn := mkFn %d [%s] [" % (
            name.strip("_"), FN_ID[name], "; ".join(map(str, fx.params))))
        plines = []
        for evs, tr in paths:
            plines.append("  (* %s *)\n  [%s]" % ("; ".join(tr).replace("*)", "* )"), "; ".join(coq_ev(e) for e in evs)))
        lines.append(";\n".join(plines))
        lines.append("].")
        lines.append("")
    lines.append("Definition skeleton : list fn := [%s]." % "; ".join("fn_" + n.strip("_") for n, _f, _p in fns))
    lines.append("")
    lines.append("(* loop schemas: (parameters of the function, events up to the loop head, the complete iterations) *)")
    schemas = []
    for name, fx, _paths in fns:
        if fx is None:
            continue
        for lp in fx.loops:
            schemas.append("  (* %s, loop at line %d *)\n  ([%s], [%s],\n   [%s])" % (
                name, lp["line"], "; ".join(map(str, fx.params)), "; ".join(coq_ev(e) for e in lp["pre"]),
                ";\n    ".join("[%s]" % "; ".join(coq_ev(e) for e in evs) for evs, _tr in lp["conts"])))
    lines.append("Definition skeleton_loops : list (list var * list ev * list (list ev)) := [\n%s\n]." % ";\n".join(schemas))
    lines.append("")
    return "\n".join(lines), desc


def regenerate(repo=None):
    """Write coq/Gen/CSkeleton.v (+ .json for diagnostics); -> list of error strings."""
    try:
        text, desc = extract(repo)
    except Abort as e:
        # leave a file that cannot satisfy the proof obligation
        C.write_if_changed(OUT, "(* extraction ABORTED: %s *)\nFrom Coq Require Import List.\nImport ListNotations.\n"
                                "From ZI Require Import Model.Own.\n"
                                "Definition skeleton : list fn := [mkFn 0 [] [[]]].\n"
                                "Definition skeleton_loops : list (list var * list ev * list (list ev)) := [].\n" % str(e).replace("*)", "* )"))
        C.write_if_changed(OUT_JSON, json.dumps({"aborted": str(e)}))
        return ["C skeleton extraction aborted: %s" % e]
    C.write_if_changed(OUT, text)
    C.write_if_changed(OUT_JSON, json.dumps(desc, indent=1))
    return []


if __name__ == "__main__":
    import sys
    t, d = extract(sys.argv[1] if len(sys.argv) > 1 else None)
    print(t)
    print("paths:", {f["name"]: len(f["paths"]) for f in d}, file=sys.stderr)
