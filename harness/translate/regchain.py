"""Fail-closed translator: the registry-chain logic of ``zope/interface/adapter.py`` ->
``coq/Gen/RegChainKernel.v`` (vocabulary: coq/Model/RegPrim.v over coq/Model/RegSys.v).

Translated methods (Python versions; the C twins of LookupBase / VerifyingBase are tied by the
correspondence only):

  BaseAdapterRegistry   _setBases, _refresh_ro (the ``while True`` re-check loop), changed,
                        the ``__bases__`` property (must route assignments to _setBases)
  AdapterRegistry       __init__ (fate of an existing _v_subregistries), _addSubregistry,
                        _removeSubregistry, _setBases, _refresh_ro, changed
  LookupBase            changed
  VerifyingBase         changed, _verify
  AdapterLookupBase     changed
  VerifyingAdapterLookup changed
  + the class skeleton: who derives from whom, which LookupClass a registry class uses, and that no
    other class of the module defines one of these methods (method resolution is computed from it).

Every statement of these methods must unify with one of the templates below (Python source with
``V_xxx`` meta-variables standing for identifiers); a statement that matches nothing raises
``TranslationError``: the caller reports a broken tie, it never guesses.  Statements may come in any
order and number: the generated definition follows the source's order, and Proofs/RegChainKernel.v
only checks if the result is Model/RegSys.v.

Dynamic dispatch: ``self.m()`` on a registry becomes a match on the registry's flavour (class);
``super().m()`` becomes the next definition in the class's MRO.  Recursion through sub-registries
gets explicit fuel (a loop over sub-registries is skipped when the fuel is exhausted, as in
Model/RegSys.v).  The ``while True`` loop of _refresh_ro becomes a loop function returning ``None``
when its fuel runs out; Proofs/RegChainKernel.v proves it exits in its first round.
"""
import ast


class TranslationError(Exception):
    pass


def _fail(node, why):
    raise TranslationError("adapter.py:%s: %s: %s" % (
        getattr(node, "lineno", "?"), why,
        (ast.unparse(node) if isinstance(node, ast.AST) else str(node))[:200].replace("\n", " | ")))


SKIP_FIELDS = ("ctx", "type_comment", "kind", "type_ignores")


def unify(tmpl, node, env):
    """structural equality of two ASTs up to meta-variables V_xxx of the template (bound to identifiers)"""
    if isinstance(tmpl, ast.Name) and tmpl.id.startswith("V_"):
        if not isinstance(node, ast.Name):
            return False
        if env.setdefault(tmpl.id, node.id) != node.id:
            return False
        return True
    if isinstance(tmpl, ast.arg) and tmpl.arg.startswith("V_"):
        return isinstance(node, ast.arg) and env.setdefault(tmpl.arg, node.arg) == node.arg
    if type(tmpl) is not type(node):
        return False
    if isinstance(tmpl, ast.AST):
        for f in tmpl._fields:
            if f in SKIP_FIELDS:
                continue
            if not unify(getattr(tmpl, f, None), getattr(node, f, None), env):
                return False
        return True
    if isinstance(tmpl, list):
        return len(tmpl) == len(node) and all(unify(a, b, env) for a, b in zip(tmpl, node))
    return tmpl == node


def T(src):
    return ast.parse(src).body[0]


def match(stmt, src, env0=None):
    env = dict(env0 or {})
    return env if unify(T(src), stmt, env) else None


def _body(fn):
    stmts = list(fn.body)
    if stmts and isinstance(stmts[0], ast.Expr) and isinstance(stmts[0].value, ast.Constant) \
            and isinstance(stmts[0].value.value, str):
        stmts = stmts[1:]
    return stmts


def _params(fn, n):
    a = fn.args
    if (a.vararg or a.kwarg or a.kwonlyargs or getattr(a, "posonlyargs", None) or fn.decorator_list
            or len(a.args) != n or a.args[0].arg != "self"):
        _fail(fn, "unexpected signature of %s" % fn.name)
    return [x.arg for x in a.args[1:]]


# the loop that cancels the recorded subscriptions (AdapterLookupBase.changed), accepted verbatim only
REQUIRED_LOOP = '''
def changed(self, ignored=None):
    required = self._required
    while required:
        try:
            r, _ = required.popitem()
        except KeyError:
            break
        r = r()
        if r is not None:
            try:
                r.unsubscribe(self)
            except KeyError:
                pass
'''
# the form before the concurrency fix: the same net effect in a single thread
REQUIRED_LOOP_OLD = '''
def changed(self, ignored=None):
    for r in self._required.keys():
        r = r()
        if r is not None:
            r.unsubscribe(self)
    self._required.clear()
'''


class Module:
    def __init__(self, text):
        self.tree = ast.parse(text)
        self.classes = {}
        for n in ast.walk(self.tree):
            if isinstance(n, ast.ClassDef):
                if n.name in self.classes:
                    _fail(n, "class defined twice")
                self.classes[n.name] = n
        for n in self.tree.body:
            if isinstance(n, ast.ClassDef):
                continue
        self.top = {n.name for n in self.tree.body if isinstance(n, ast.ClassDef)}

    def cls(self, name):
        if name not in self.classes or name not in self.top:
            raise TranslationError("module-level class %s not found" % name)
        return self.classes[name]

    def bases(self, name):
        out = []
        for b in self.cls(name).bases:
            if not isinstance(b, ast.Name):
                _fail(b, "computed base class of %s" % name)
            out.append(b.id)
        if self.cls(name).keywords:
            _fail(self.cls(name), "class keywords on %s" % name)
        return out

    def decorators(self, name):
        out = []
        for d in self.cls(name).decorator_list:
            out.append(ast.unparse(d))
        return out

    def methods(self, name):
        out = {}
        for n in self.cls(name).body:
            if isinstance(n, (ast.FunctionDef, ast.AsyncFunctionDef)):
                if n.name in out or isinstance(n, ast.AsyncFunctionDef):
                    _fail(n, "method defined twice / async")
                out[n.name] = n
        return out

    def method(self, cls, name):
        m = self.methods(cls)
        if name not in m:
            raise TranslationError("%s.%s not found" % (cls, name))
        return m[name]

    def class_attr(self, cls, attr):
        vals = []
        for n in self.cls(cls).body:
            if isinstance(n, ast.Assign):
                for t in n.targets:
                    if isinstance(t, ast.Name) and t.id == attr:
                        vals.append(n.value)
        if len(vals) != 1 or not isinstance(vals[0], ast.Name):
            raise TranslationError("%s.%s is not assigned exactly once to a name" % (cls, attr))
        return vals[0].id


REG_METHODS = ("_setBases", "_refresh_ro", "changed", "_addSubregistry", "_removeSubregistry")
LOOKUP_METHODS = ("changed", "_verify")
EXPECTED_DEFINERS = {
    "_setBases": {"BaseAdapterRegistry", "AdapterRegistry"},
    "_refresh_ro": {"BaseAdapterRegistry", "AdapterRegistry"},
    "_addSubregistry": {"AdapterRegistry"},
    "_removeSubregistry": {"AdapterRegistry"},
    "_verify": {"VerifyingBase"},
    "changed": {"BaseAdapterRegistry", "AdapterRegistry", "LookupBase", "VerifyingBase", "AdapterLookupBase",
                "VerifyingAdapterLookup"},
}


def check_skeleton(M):
    want = {
        "BaseAdapterRegistry": [], "AdapterRegistry": ["BaseAdapterRegistry"],
        "VerifyingAdapterRegistry": ["BaseAdapterRegistry"],
        "LookupBase": [], "VerifyingBase": ["LookupBaseFallback"], "AdapterLookupBase": [],
        "AdapterLookup": ["AdapterLookupBase", "LookupBase"],
        "VerifyingAdapterLookup": ["AdapterLookupBase", "VerifyingBase"],
    }
    for c, bs in want.items():
        if M.bases(c) != bs:
            raise TranslationError("class %s has bases %r, expected %r" % (c, M.bases(c), bs))
    # LookupBaseFallback / VerifyingBaseFallback are what @_use_c_impl records for the Python versions
    for c in ("LookupBase", "VerifyingBase"):
        if M.decorators(c) != ["_use_c_impl"]:
            raise TranslationError("%s is not decorated with exactly @_use_c_impl" % c)
    for c in ("AdapterRegistry", "VerifyingAdapterRegistry"):
        if M.decorators(c) != ["implementer(IAdapterRegistry)"]:
            raise TranslationError("unexpected decorators on %s" % c)
    for c in ("BaseAdapterRegistry", "AdapterLookupBase", "AdapterLookup", "VerifyingAdapterLookup"):
        if M.decorators(c):
            raise TranslationError("unexpected decorators on %s" % c)
    if M.class_attr("AdapterRegistry", "LookupClass") != "AdapterLookup":
        raise TranslationError("AdapterRegistry.LookupClass is not AdapterLookup")
    if M.class_attr("VerifyingAdapterRegistry", "LookupClass") != "VerifyingAdapterLookup":
        raise TranslationError("VerifyingAdapterRegistry.LookupClass is not VerifyingAdapterLookup")
    if M.methods("VerifyingAdapterRegistry") or M.methods("AdapterLookup"):
        raise TranslationError("VerifyingAdapterRegistry / AdapterLookup define methods of their own")
    # nobody else defines (overrides) one of the translated methods
    for name, want_cls in EXPECTED_DEFINERS.items():
        have = {c for c in M.classes if name in M.methods(c)} if all(c in M.top for c in M.classes) else None
        have = {c for c in M.top if name in M.methods(c)}
        if have != want_cls:
            raise TranslationError("method %s is defined by %s, expected %s" % (name, sorted(have), sorted(want_cls)))
    # the generation counter is a class attribute that instances only ever increment: rebuild() runs
    # __init__ again on a live registry, so (re)initialising it there would let it fall
    gens0 = [n for n in M.cls("BaseAdapterRegistry").body
             if isinstance(n, ast.Assign) and match(n, "_generation = 0") is not None]
    if len(gens0) != 1:
        raise TranslationError("BaseAdapterRegistry does not define the class attribute _generation = 0 exactly once")
    for c in ("BaseAdapterRegistry", "AdapterRegistry", "VerifyingAdapterRegistry"):
        for mname, fn in M.methods(c).items():
            for n in ast.walk(fn):
                tg = []
                if isinstance(n, ast.Assign):
                    tg = n.targets
                elif isinstance(n, (ast.AnnAssign, ast.AugAssign)):
                    tg = [n.target]
                elif isinstance(n, ast.Delete):
                    tg = n.targets
                for x in tg:
                    for y in ast.walk(x):
                        if isinstance(y, ast.Attribute) and y.attr == "_generation":
                            if isinstance(n, ast.AugAssign) and (c, mname) == ("BaseAdapterRegistry", "changed"):
                                continue
                            _fail(n, "%s.%s writes _generation (only BaseAdapterRegistry.changed may, by += 1)" % (c, mname))
                if isinstance(n, ast.Call) and isinstance(n.func, ast.Name) and n.func.id in ("setattr", "delattr") \
                        and any(isinstance(a, ast.Constant) and a.value == "_generation" for a in n.args):
                    _fail(n, "%s.%s writes _generation through setattr" % (c, mname))
    # assignments to registry.__bases__ go through _setBases
    props = [n for n in M.cls("BaseAdapterRegistry").body if isinstance(n, ast.Assign)
             and any(isinstance(t, ast.Name) and t.id == "__bases__" for t in n.targets)]
    if len(props) != 1 or match(props[0], "__bases__ = property(lambda self: self.__dict__['__bases__'], "
                                          "lambda self, V_b: self._setBases(V_b))") is None:
        raise TranslationError("BaseAdapterRegistry.__bases__ is not the property routing assignment to _setBases")
    # __init__ of a registry assigns __bases__ (-> _setBases) after creating the lookup object
    init = _body(M.method("BaseAdapterRegistry", "__init__"))
    if not init or match(init[-1], "self.__bases__ = V_b") is None:
        raise TranslationError("BaseAdapterRegistry.__init__ does not end with self.__bases__ = bases")


def lets(lines, indent="  "):
    return "".join("%slet s := %s in\n" % (indent, l) for l in lines) + indent + "s"


# --------------------------------------------------------------------------- lookup objects

def tr_LookupBase_changed(M):
    fn = M.method("LookupBase", "changed")
    if [a.arg for a in fn.args.args] != ["self", "ignored"] or fn.decorator_list:
        _fail(fn, "unexpected signature")
    out = []
    for st in _body(fn):
        for attr, prim in (("_cache", "p_clear_cache"), ("_mcache", "p_clear_mcache"), ("_scache", "p_clear_scache")):
            if match(st, "self.%s.clear()" % attr) is not None:
                out.append("%s s r" % prim)
                break
        else:
            _fail(st, "LookupBase.changed: unknown statement")
    return ("Definition g_LookupBase_changed (s : sys) (r : nat) : sys :=\n" + lets(out) + ".\n")


def tr_VerifyingBase_changed(M):
    fn = M.method("VerifyingBase", "changed")
    (oc,) = _params(fn, 2)
    out = []
    for st in _body(fn):
        if match(st, "LookupBaseFallback.changed(self, %s)" % oc) is not None:
            out.append("g_LookupBase_changed s r")
        elif match(st, "self._verify_ro = self._registry.ro[1:]") is not None:
            out.append("p_set_verify_ro s r")
        elif match(st, "self._verify_generations = [V_x._generation for V_x in self._verify_ro]") is not None:
            out.append("p_set_verify_gens s r (p_gens_of_verify_ro s r)")
        else:
            _fail(st, "VerifyingBase.changed: unknown statement")
    return ("Definition g_VerifyingBase_changed (s : sys) (r : nat) : sys :=\n" + lets(out) + ".\n")


def tr_VerifyingBase_verify(M):
    fn = M.method("VerifyingBase", "_verify")
    _params(fn, 1)
    out = []
    for st in _body(fn):
        if match(st, "if [V_x._generation for V_x in self._verify_ro] != self._verify_generations:\n"
                     "    self.changed(None)") is not None:
            # self.changed: the lookup object's own (most derived) changed
            out.append("if p_gens_neqb (p_gens_of_verify_ro s r) (p_verify_gens s r) then g_lookup_changed s r else s")
        else:
            _fail(st, "VerifyingBase._verify: unknown statement")
    return ("Definition g_VerifyingBase_verify (s : sys) (r : nat) : sys :=\n" + lets(out) + ".\n")


def tr_AdapterLookupBase_changed(M):
    fn = M.method("AdapterLookupBase", "changed")
    if [a.arg for a in fn.args.args] != ["self", "ignored"] or fn.decorator_list:
        _fail(fn, "unexpected signature")
    stmts = _body(fn)
    out = []
    i = 0
    while i < len(stmts):
        st = stmts[i]
        if match(st, "super().changed(None)") is not None:
            out.append("sup s r")
            i += 1
            continue
        done = False
        for pinned in (REQUIRED_LOOP, REQUIRED_LOOP_OLD):
            pb = T(pinned.strip()).body
            if unify(pb, stmts[i:i + len(pb)], {}):
                out.append("p_drop_required s r")
                i += len(pb)
                done = True
                break
        if not done:
            _fail(st, "AdapterLookupBase.changed: unknown statement")
    return ("(* [sup]: the next ``changed`` in the concrete lookup class's MRO *)\n"
            "Definition g_AdapterLookupBase_changed (sup : sys -> nat -> sys) (s : sys) (r : nat) : sys :=\n"
            + lets(out) + ".\n")


def tr_VerifyingAdapterLookup_changed(M):
    fn = M.method("VerifyingAdapterLookup", "changed")
    (oc,) = _params(fn, 2)
    out = []
    for st in _body(fn):
        if match(st, "self._registry._refresh_ro()") is not None:
            out.append("g_refresh_ro (length s) s r")
        elif match(st, "super().changed(%s)" % oc) is not None or match(st, "super().changed(None)") is not None:
            # MRO of VerifyingAdapterLookup: AdapterLookupBase, then VerifyingBase
            out.append("g_AdapterLookupBase_changed g_VerifyingBase_changed s r")
        else:
            _fail(st, "VerifyingAdapterLookup.changed: unknown statement")
    return ("Definition g_VerifyingAdapterLookup_changed (s : sys) (r : nat) : sys :=\n" + lets(out) + ".\n")


# --------------------------------------------------------------------------- registries

def tr_Base_refresh_ro(M):
    fn = M.method("BaseAdapterRegistry", "_refresh_ro")
    _params(fn, 1)
    stmts = _body(fn)
    if len(stmts) == 1 and match(stmts[0], "self.ro = ro.ro(self)") is not None:
        # the form before the re-check loop
        return ("Definition g_Base_refresh_ro (s : sys) (r : nat) : sys :=\n  p_store_ro s r (p_ro s r).\n")
    if len(stmts) != 1 or not isinstance(stmts[0], ast.While) or stmts[0].orelse \
            or not (isinstance(stmts[0].test, ast.Constant) and stmts[0].test.value is True):
        _fail(fn, "BaseAdapterRegistry._refresh_ro is neither ``self.ro = ro.ro(self)`` nor a ``while True`` loop")
    body = stmts[0].body
    if not body:
        _fail(fn, "empty loop")
    lines = []
    order = None
    for st in body[:-1]:
        e = match(st, "V_o = ro.ro(self)")
        if e is not None:
            order = e["V_o"]
            lines.append("let order := p_ro s r in")
            continue
        if order is not None and match(st, "self.ro = %s" % order) is not None:
            lines.append("let s := p_store_ro s r order in")
            continue
        _fail(st, "_refresh_ro loop: unknown statement")
    last = body[-1]
    if order is None or (match(last, "if ro.ro(self) == %s:\n    break" % order) is None
                         and match(last, "if %s == ro.ro(self):\n    break" % order) is None):
        _fail(last, "_refresh_ro loop does not end with ``if ro.ro(self) == order: break``")
    return ("(* one round per unit of fuel; None = the loop did not exit *)\n"
            "Fixpoint g_Base_refresh_ro_loop (n : nat) (s : sys) (r : nat) : option sys :=\n"
            "  match n with\n  | 0 => None\n  | S n' =>\n"
            + "".join("      %s\n" % l for l in lines)
            + "      if p_order_eqb (p_ro s r) order then Some s else g_Base_refresh_ro_loop n' s r\n  end.\n"
            "Definition g_Base_refresh_ro (s : sys) (r : nat) : sys :=\n"
            "  match g_Base_refresh_ro_loop (S (length s)) s r with Some s' => s' | None => s end.\n")


def _sub_loop(st, call_src):
    """for V_x in self._v_subregistries.keys(): V_x.<call>"""
    return match(st, "for V_x in self._v_subregistries.keys():\n    V_x.%s" % call_src) is not None \
        or match(st, "for V_x in self._v_subregistries:\n    V_x.%s" % call_src) is not None


def tr_dispatch(name, ar_lines, base_call, extra_args=""):
    """Fixpoint g_<name> fuel s r: dispatch on the registry class (flavour)"""
    body = []
    for l in ar_lines:
        body.append("      let s := %s in\n" % l)
    return ("Fixpoint g_%s (fuel : nat) (s : sys) (r : nat) : sys :=\n"
            "  match rs_flavour (get s r) with\n"
            "  | Push =>   (* AdapterRegistry.%s *)\n" % (name, name.replace("refresh_ro", "_refresh_ro"))
            + "".join(body) + "      s\n"
            "  | Verifying =>   (* VerifyingAdapterRegistry inherits BaseAdapterRegistry's *)\n"
            "      %s\n  end.\n" % base_call)


def tr_AR_refresh_ro(M):
    fn = M.method("AdapterRegistry", "_refresh_ro")
    _params(fn, 1)
    out = []
    for st in _body(fn):
        if match(st, "super()._refresh_ro()") is not None:
            out.append("g_Base_refresh_ro s r")
        elif _sub_loop(st, "_refresh_ro()"):
            out.append("match fuel with 0 => s | S f => fold_left (fun s sub => g_refresh_ro f s sub) (p_subs s r) s end")
        else:
            _fail(st, "AdapterRegistry._refresh_ro: unknown statement")
    return tr_dispatch("refresh_ro", out, "g_Base_refresh_ro s r")


def tr_Base_changed(M):
    fn = M.method("BaseAdapterRegistry", "changed")
    (oc,) = _params(fn, 2)
    out = []
    for st in _body(fn):
        if match(st, "self._generation += 1") is not None:
            out.append("p_bump_gen s r")
        elif match(st, "self._v_lookup.changed(%s)" % oc) is not None:
            out.append("g_lookup_changed s r")
        else:
            _fail(st, "BaseAdapterRegistry.changed: unknown statement")
    return ("Definition g_Base_changed (s : sys) (r : nat) : sys :=\n" + lets(out) + ".\n")


def tr_AR_changed(M):
    fn = M.method("AdapterRegistry", "changed")
    (oc,) = _params(fn, 2)
    out = []
    for st in _body(fn):
        if match(st, "super().changed(%s)" % oc) is not None:
            out.append("g_Base_changed s r")
        elif _sub_loop(st, "changed(%s)" % oc):
            out.append("match fuel with 0 => s | S f => fold_left (fun s sub => g_changed f s sub) (p_subs s r) s end")
        else:
            _fail(st, "AdapterRegistry.changed: unknown statement")
    return tr_dispatch("changed", out, "g_Base_changed s r")


def tr_Base_setBases(M):
    fn = M.method("BaseAdapterRegistry", "_setBases")
    (b,) = _params(fn, 2)
    out = []
    for st in _body(fn):
        if match(st, "self.__dict__['__bases__'] = %s" % b) is not None:
            out.append("p_set_bases s r bases")
        elif match(st, "self._refresh_ro()") is not None:
            out.append("g_refresh_ro fr s r")
        elif match(st, "self.changed(self)") is not None:
            out.append("g_changed fc s r")
        else:
            _fail(st, "BaseAdapterRegistry._setBases: unknown statement")
    return ("(* [fr] / [fc]: fuel of the _refresh_ro / changed recursions *)\n"
            "Definition g_Base_setBases (fr fc : nat) (s : sys) (r : nat) (bases : list nat) : sys :=\n"
            + lets(out) + ".\n")


def tr_sub_dict(M):
    fn = M.method("AdapterRegistry", "_addSubregistry")
    (x,) = _params(fn, 2)
    out = []
    for st in _body(fn):
        if match(st, "self._v_subregistries[%s] = 1" % x) is not None:
            out.append("p_add_sub s self r")
        else:
            _fail(st, "_addSubregistry: unknown statement")
    text = ("Definition g_addSubregistry (s : sys) (self r : nat) : sys :=\n" + lets(out) + ".\n")
    fn = M.method("AdapterRegistry", "_removeSubregistry")
    (x,) = _params(fn, 2)
    out = []
    for st in _body(fn):
        if match(st, "if %s in self._v_subregistries:\n    del self._v_subregistries[%s]" % (x, x)) is not None:
            out.append("if mem r (p_subs s self) then p_del_sub s self r else s")
        elif match(st, "del self._v_subregistries[%s]" % x) is not None:
            _fail(st, "unguarded del raises KeyError for a registry that is not listed")
        else:
            _fail(st, "_removeSubregistry: unknown statement")
    return text + ("Definition g_removeSubregistry (s : sys) (self r : nat) : sys :=\n" + lets(out) + ".\n")


def tr_AR_setBases(M):
    fn = M.method("AdapterRegistry", "_setBases")
    (b,) = _params(fn, 2)
    lines = []
    old = None
    for st in _body(fn):
        e = match(st, "V_old = self.__dict__.get('__bases__', ())")
        if e is not None and old is None:
            old = e["V_old"]
            lines.append("let old := p_bases s r in")
            continue
        if old is not None and match(st, "for V_x in %s:\n    if V_x not in %s:\n        V_x._removeSubregistry(self)"
                                     % (old, b)) is not None:
            lines.append("let s := fold_left (fun s b => if negb (mem b bases) then g_removeSubregistry s b r else s) old s in")
            continue
        if old is not None and match(st, "for V_x in %s:\n    if V_x not in %s:\n        V_x._addSubregistry(self)"
                                     % (b, old)) is not None:
            lines.append("let s := fold_left (fun s b => if negb (mem b old) then g_addSubregistry s b r else s) bases s in")
            continue
        if match(st, "super()._setBases(%s)" % b) is not None:
            lines.append("let s := g_Base_setBases fr fc s r bases in")
            continue
        _fail(st, "AdapterRegistry._setBases: unknown statement")
    return ("Definition g_AR_setBases (fr fc : nat) (s : sys) (r : nat) (bases : list nat) : sys :=\n"
            + "".join("  %s\n" % l for l in lines) + "  s.\n"
            "Definition g_setBases (fr fc : nat) (s : sys) (r : nat) (bases : list nat) : sys :=\n"
            "  match rs_flavour (get s r) with\n"
            "  | Push => g_AR_setBases fr fc s r bases\n"
            "  | Verifying => g_Base_setBases fr fc s r bases\n  end.\n")


def tr_AR_init(M):
    fn = M.method("AdapterRegistry", "__init__")
    a = fn.args
    if [x.arg for x in a.args] != ["self", "bases"] or a.vararg or a.kwarg or a.kwonlyargs or fn.decorator_list:
        _fail(fn, "unexpected signature of AdapterRegistry.__init__")
    stmts = _body(fn)
    kind = None
    for st in stmts[:-1]:
        if kind is None and match(st, "if '_v_subregistries' not in self.__dict__:\n"
                                      "    self._v_subregistries = weakref.WeakKeyDictionary()") is not None:
            kind = "keep"
        elif kind is None and match(st, "self._v_subregistries = weakref.WeakKeyDictionary()") is not None:
            kind = "fresh"
        else:
            _fail(st, "AdapterRegistry.__init__: unknown statement")
    if kind is None or match(stmts[-1], "super().__init__(bases)") is None:
        _fail(fn, "AdapterRegistry.__init__ does not create _v_subregistries and then call super().__init__(bases)")
    body = "match existing with Some l => l | None => [] end" if kind == "keep" else "[]"
    return ("(* _v_subregistries after __init__ ; [existing] = the attribute before the call, if any\n"
            "   (rebuild() runs __init__ again on a live registry) *)\n"
            "Definition g_AR_init_subs (existing : option (list nat)) : list nat :=\n  %s.\n" % body)


HEADER = """(* GENERATED by harness/translate/regchain.py from %s -- do not edit.
   Regenerated on every run; Proofs/RegChainKernel.v and the C06_generated_* theorems of
   Properties/C06.v are re-checked against it.  Vocabulary: Model/RegPrim.v. *)
From Coq Require Import List Arith Bool.
Import ListNotations.
From ZI Require Import Model.Ro Model.Adapter Model.Lookup Model.RegSys Model.RegPrim.

Definition translation_ok : bool := true.

"""


def translate_source(text, origin="adapter.py"):
    M = Module(text)
    check_skeleton(M)
    parts = [
        "(* ---- AdapterRegistry.__init__ *)\n" + tr_AR_init(M),
        "(* ---- LookupBase.changed *)\n" + tr_LookupBase_changed(M),
        "(* ---- BaseAdapterRegistry._refresh_ro *)\n" + tr_Base_refresh_ro(M),
        "(* ---- registry._refresh_ro() *)\n" + tr_AR_refresh_ro(M),
        "(* ---- VerifyingBase.changed *)\n" + tr_VerifyingBase_changed(M),
        "(* ---- AdapterLookupBase.changed *)\n" + tr_AdapterLookupBase_changed(M),
        "(* ---- AdapterLookup.changed: MRO AdapterLookupBase, LookupBase *)\n"
        "Definition g_AdapterLookup_changed (s : sys) (r : nat) : sys :=\n"
        "  g_AdapterLookupBase_changed g_LookupBase_changed s r.\n",
        "(* ---- VerifyingAdapterLookup.changed *)\n" + tr_VerifyingAdapterLookup_changed(M),
        "(* ---- registry._v_lookup.changed(...): the registry class fixes the lookup class *)\n"
        "Definition g_lookup_changed (s : sys) (r : nat) : sys :=\n"
        "  match rs_flavour (get s r) with\n"
        "  | Push => g_AdapterLookup_changed s r\n"
        "  | Verifying => g_VerifyingAdapterLookup_changed s r\n  end.\n",
        "(* ---- VerifyingBase._verify *)\n" + tr_VerifyingBase_verify(M),
        "(* ---- _verify as run by the lookup entry points: AdapterLookup has none *)\n"
        "Definition g_verify (s : sys) (r : nat) : sys :=\n"
        "  match rs_flavour (get s r) with\n  | Push => s\n  | Verifying => g_VerifyingBase_verify s r\n  end.\n",
        "(* ---- BaseAdapterRegistry.changed *)\n" + tr_Base_changed(M),
        "(* ---- registry.changed(...) *)\n" + tr_AR_changed(M),
        "(* ---- BaseAdapterRegistry._setBases *)\n" + tr_Base_setBases(M),
        "(* ---- AdapterRegistry._addSubregistry / _removeSubregistry *)\n" + tr_sub_dict(M),
        "(* ---- AdapterRegistry._setBases and registry.__bases__ = ... *)\n" + tr_AR_setBases(M),
    ]
    return HEADER % origin + "\n".join(parts)


def translate_file(path):
    with open(path) as fh:
        return translate_source(fh.read(), origin=path)


def stub(origin, why):
    """no kernel: the proofs over it cannot be re-checked (the abort is reported by the caller)"""
    return ("(* GENERATED by harness/translate/regchain.py: translation of %s ABORTED:\n   %s\n"
            "   No kernel is available; Proofs/RegChainKernel.v does not build. *)\n"
            "Definition translation_ok : bool := false.\n"
            % (origin, why.replace("*)", "* )").replace("(*", "( *")))


if __name__ == "__main__":   # python -m harness.translate.regchain /repo/src/zope/interface/adapter.py
    import sys
    print(translate_file(sys.argv[1]))
