"""Fail-closed translator: the ``super`` kernel of zope.interface -> ``coq/Gen/SuperKernel.v``.

From ``declarations.py``
    _next_super_class                      -> gen_next_super_class
    _implementedBy_super                   -> gen_implementedBy_super
    Implements.changed                     -> gen_implements_changed   (up to the super().changed call)
    implementedBy, the ``super`` branch    -> gen_py_implementedBy
    providedBy,    the ``super`` branch    -> gen_py_providedBy
and from ``adapter.py``
    LookupBase.adapter_hook                -> gen_adapter_hook
    AdapterLookupBase.queryMultiAdapter    -> gen_queryMultiAdapter

The Gallina vocabulary is coq/Model/SuperPrims.v (one total function per accepted Python construct)
plus Model/Super.v (state, nget) and Model/Lookup.v (lookup, caches, res).  Control flow is the
source's own: statements are translated in order; an ``if`` without ``else`` becomes a two-armed
``match``/``if`` whose arms both continue with the statements that follow (no join points), an
``X is None`` test refines the type of ``X`` in each arm.  Every variable carries a type; any AST
shape, attribute, call or type combination not listed here raises ``TranslationError`` -- the
caller then reports a broken proof obligation and compiles the proofs against the pinned text
below (never against a guess).
"""
import ast


class TranslationError(Exception):
    pass


def _fail(node, why):
    raise TranslationError("line %s: %s: %s" % (
        getattr(node, "lineno", "?"), why, ast.dump(node)[:160] if isinstance(node, ast.AST) else node))


def _is_name(n, name=None):
    return isinstance(n, ast.Name) and (name is None or n.id == name)


def _is_none(n):
    return isinstance(n, ast.Constant) and n.value is None


def _strip(stmts):
    """drop a docstring / bare string expressions and ``pass``"""
    return [s for s in stmts
            if not (isinstance(s, ast.Expr) and isinstance(s.value, ast.Constant) and isinstance(s.value.value, str))
            and not isinstance(s, ast.Pass)]


def _seq(body, rest):
    """the statements executed when [body] is entered and [rest] follows the enclosing statement"""
    b = _strip(body)
    if b and isinstance(b[-1], (ast.Return, ast.Raise)):
        return list(body)
    return list(body) + list(rest)


def _plain_args(fn, names):
    a = fn.args
    if a.vararg or a.kwarg or a.kwonlyargs or getattr(a, "posonlyargs", None):
        _fail(fn, "unexpected parameter kinds")
    if [x.arg for x in a.args] != names:
        _fail(fn, "unexpected parameter list (expected %s)" % names)


class Var:
    __slots__ = ("term", "typ", "owner")

    def __init__(self, term, typ, owner=None):
        self.term, self.typ, self.owner = term, typ, owner


# =========================================================================== declarations.py

class Decl:
    """mode 'pure'   : no state; failure None;        return e -> Some e
       mode 'state'  : state st; failure (st, None);  return e -> (st, Some e)
       mode 'changed': state st; result is the state"""

    def __init__(self, mode, known_fns=()):
        self.mode = mode
        self.known = set(known_fns)
        self.tmp = 0

    def fail_term(self):
        return "None" if self.mode == "pure" else "(st, None)"

    def fresh(self):
        self.tmp += 1
        return "t_%d" % self.tmp

    # ---- expressions: -> (prelude [(var, partial term)], term, type, owner)
    def expr(self, n, env):
        if isinstance(n, ast.Name):
            if n.id not in env:
                _fail(n, "unknown variable")
            v = env[n.id]
            if v.typ == "none":
                _fail(n, "variable is None here")
            return [], v.term, v.typ, v.owner
        if isinstance(n, ast.Constant):
            if isinstance(n.value, bool) or n.value is None:
                _fail(n, "unsupported constant")
            if isinstance(n.value, int):
                return [], "(%d)%%Z" % n.value, "int", None
            if isinstance(n.value, str):
                return [], "tt", "str", None
            _fail(n, "unsupported constant")
        if isinstance(n, ast.Attribute):
            pre, t, ty, _o = self.expr(n.value, env)
            a = n.attr
            if ty == "sup" and a in ("__self_class__", "__thisclass__"):
                return pre, "(%s %s)" % ({"__self_class__": "ps_self_class", "__thisclass__": "ps_thisclass"}[a], t), "cls", None
            if ty == "cls" and a == "__mro__":
                x = self.fresh()
                return pre + [(x, "py_mro E %s" % t)], x, "lcls", None
            if ty == "sref" and self.mode != "pure":
                if a == "_super_cache":
                    return pre, "(get_super_cache st %s)" % t, "ocache", t
                if a == "inherit":
                    return pre, "(spec_inherit st %s)" % t, "inhflag", None
                if a == "declared":
                    return pre, "(spec_declared st %s)" % t, "liface", None
                if a == "__name__":
                    return pre, "tt", "str", None
            _fail(n, "unsupported attribute .%s of a %s" % (a, ty))
        if isinstance(n, ast.BinOp):
            if not isinstance(n.op, (ast.Add, ast.Sub)):
                _fail(n, "unsupported operator")
            p1, a, ta, _ = self.expr(n.left, env)
            p2, b, tb, _ = self.expr(n.right, env)
            if ta == "int" and tb == "int":
                return p1 + p2, "(%s %s %s)%%Z" % (a, "+" if isinstance(n.op, ast.Add) else "-", b), "int", None
            if ta == "str" and tb == "str" and isinstance(n.op, ast.Add):
                return p1 + p2, "tt", "str", None
            _fail(n, "unsupported operand types %s, %s" % (ta, tb))
        if isinstance(n, ast.Subscript):
            pre, t, ty, _ = self.expr(n.value, env)
            sl = n.slice
            if ty != "lcls":
                _fail(n, "subscript of a %s" % ty)
            if isinstance(sl, ast.Slice):
                if sl.upper is not None or sl.step is not None or sl.lower is None:
                    _fail(n, "only tuple[lower:] slices are known")
                p2, lo, tlo, _ = self.expr(sl.lower, env)
                if tlo != "int":
                    _fail(n, "slice bound is not an int")
                return pre + p2, "(py_slice_from %s %s)" % (t, lo), "lcls", None
            p2, ix, tix, _ = self.expr(sl, env)
            if tix != "int":
                _fail(n, "index is not an int")
            x = self.fresh()
            return pre + p2 + [(x, "py_item %s %s" % (t, ix))], x, "cls", None
        if isinstance(n, ast.Call):
            if n.keywords:
                _fail(n, "keyword arguments")
            f = n.func
            if isinstance(f, ast.Attribute) and f.attr == "index" and len(n.args) == 1:
                pre, t, ty, _ = self.expr(f.value, env)
                p2, a, ta, _ = self.expr(n.args[0], env)
                if ty != "lcls" or ta != "cls":
                    _fail(n, ".index of %s with %s" % (ty, ta))
                x = self.fresh()
                return pre + p2 + [(x, "py_index %s %s" % (t, a))], x, "int", None
            if _is_name(f, "implementedBy") and len(n.args) == 1 and self.mode == "state":
                pre, a, ta, _ = self.expr(n.args[0], env)
                if ta != "cls":
                    _fail(n, "implementedBy of a %s" % ta)
                return pre, "(RCls %s)" % a, "sref", None
            if _is_name(f, "_next_super_class") and len(n.args) == 1 and "_next_super_class" in self.known:
                pre, a, ta, _ = self.expr(n.args[0], env)
                if ta != "sup":
                    _fail(n, "_next_super_class of a %s" % ta)
                x = self.fresh()
                return pre + [(x, "gen_next_super_class E %s" % a)], x, "cls", None
            if (isinstance(f, ast.Attribute) and f.attr == "WeakKeyDictionary" and _is_name(f.value, "weakref")
                    and not n.args):
                return [], "[]", "cache", None
            _fail(n, "unsupported call")
        if isinstance(n, ast.ListComp):
            if len(n.generators) != 1:
                _fail(n, "nested comprehension")
            g = n.generators[0]
            if g.ifs or g.is_async or not _is_name(g.target):
                _fail(n, "unsupported comprehension")
            pre, it, tit, _ = self.expr(g.iter, env)
            if tit != "lcls":
                _fail(n, "comprehension over a %s" % tit)
            env2 = dict(env)
            cv = "v_" + g.target.id
            env2[g.target.id] = Var(cv, "cls")
            p2, e, te, _ = self.expr(n.elt, env2)
            if p2:
                _fail(n, "comprehension element may raise")
            if te not in ("sref", "cls"):
                _fail(n, "comprehension element is a %s" % te)
            return pre, "(map (fun %s => %s) %s)" % (cv, e, it), {"sref": "lsref", "cls": "lcls"}[te], None
        if isinstance(n, (ast.List, ast.Tuple)) and isinstance(n.ctx, ast.Load) and n.elts:
            pre, terms, types = [], [], set()
            for e in n.elts:
                p, t, ty, _ = self.expr(e, env)
                pre += p
                terms.append(t)
                types.add(ty)
            if types == {"sref"}:
                return pre, "[%s]" % "; ".join(terms), "lsref", None
            if types == {"cls"}:
                return pre, "[%s]" % "; ".join(terms), "lcls", None
            _fail(n, "list of %s" % sorted(types))
        _fail(n, "unsupported expression")

    def bind(self, pre, body):
        """wrap [body] in the matches of the partial operations of [pre]"""
        for var, term in reversed(pre):
            body = "match %s with\n| None => %s\n| Some %s =>\n%s\nend" % (term, self.fail_term(), var, body)
        return body

    # ---- statements
    def block(self, stmts, env):
        stmts = _strip(stmts)
        if not stmts:
            _fail("end of function", "control reaches the end without a return")
        s, rest = stmts[0], stmts[1:]

        if isinstance(s, ast.Return):
            if rest:
                _fail(rest[0], "statement after return")
            if self.mode == "changed":
                v = s.value
                ok = (isinstance(v, ast.Call) and isinstance(v.func, ast.Attribute) and v.func.attr == "changed"
                      and isinstance(v.func.value, ast.Call) and _is_name(v.func.value.func, "super")
                      and not v.func.value.args and len(v.args) == 1 and _is_name(v.args[0], "originally_changed")
                      and not v.keywords)
                if not ok:
                    _fail(s, "expected `return super().changed(originally_changed)`")
                return "st   (* then Specification.changed: recompute, notify the dependents *)"
            if s.value is None:
                _fail(s, "bare return")
            pre, t, ty, _ = self.expr(s.value, env)
            want = "cls" if self.mode == "pure" else "sref"
            if ty != want:
                _fail(s, "returns a %s, expected a %s" % (ty, want))
            return self.bind(pre, "Some %s" % t if self.mode == "pure" else "(st, Some %s)" % t)

        if isinstance(s, ast.Assign):
            tg = s.targets
            # cache = spec._super_cache = weakref.WeakKeyDictionary()
            if len(tg) == 2:
                names = [t for t in tg if _is_name(t)]
                attrs = [t for t in tg if isinstance(t, ast.Attribute)]
                if len(names) != 1 or len(attrs) != 1 or attrs[0].attr != "_super_cache" or self.mode != "state":
                    _fail(s, "unsupported chained assignment")
                pv, val, tv, _ = self.expr(s.value, env)
                po, owner, to, _ = self.expr(attrs[0].value, env)
                if tv != "cache" or to != "sref" or pv or po:
                    _fail(s, "unsupported chained assignment")
                env2 = dict(env)
                cv = "v_" + names[0].id
                env2[names[0].id] = Var(cv, "cache", owner)
                return "let st := set_super_cache st %s %s in\nlet %s := %s in\n%s" % (
                    owner, val, cv, val, self.block(rest, env2))
            if len(tg) != 1:
                _fail(s, "unsupported assignment")
            t0 = tg[0]
            if _is_name(t0):
                # new = Implements.named(name, *bases)
                v = s.value
                if (isinstance(v, ast.Call) and isinstance(v.func, ast.Attribute) and v.func.attr == "named"
                        and _is_name(v.func.value, "Implements")):
                    if self.mode != "state" or v.keywords or len(v.args) != 2 or not isinstance(v.args[1], ast.Starred):
                        _fail(s, "expected Implements.named(<name>, *<bases>)")
                    pn, _t, tn, _ = self.expr(v.args[0], env)
                    pb, bs, tb, _ = self.expr(v.args[1].value, env)
                    if tn != "str" or tb != "lsref":
                        _fail(s, "Implements.named(%s, *%s)" % (tn, tb))
                    env2 = dict(env)
                    cv = "v_" + t0.id
                    env2[t0.id] = Var(cv, "sref")
                    return self.bind(pn + pb, "let '(st, %s) := alloc_implements st %s in\n%s" % (
                        cv, bs, self.block(rest, env2)))
                pre, t, ty, owner = self.expr(v, env)
                env2 = dict(env)
                cv = "v_" + t0.id
                env2[t0.id] = Var(cv, ty, owner)
                return self.bind(pre, "let %s := %s in\n%s" % (cv, t, self.block(rest, env2)))
            if isinstance(t0, ast.Attribute) and self.mode == "state":
                po, obj, to, _ = self.expr(t0.value, env)
                pv, val, tv, _ = self.expr(s.value, env)
                if to == "sref" and t0.attr == "inherit" and tv == "inhflag":
                    return self.bind(po + pv, "let st := set_spec_inherit st %s %s in\n%s" % (obj, val, self.block(rest, env)))
                if to == "sref" and t0.attr == "declared" and tv == "liface":
                    return self.bind(po + pv, "let st := set_spec_declared st %s %s in\n%s" % (obj, val, self.block(rest, env)))
                _fail(s, "unsupported attribute assignment .%s of a %s := %s" % (t0.attr, to, tv))
            if isinstance(t0, ast.Subscript) and self.mode == "state":
                if not _is_name(t0.value) or t0.value.id not in env:
                    _fail(s, "unsupported item assignment")
                d = env[t0.value.id]
                pk, key, tk, _ = self.expr(t0.slice, env)
                pv, val, tv, _ = self.expr(s.value, env)
                if d.typ != "cache" or d.owner is None or tk != "cls" or tv != "sref":
                    _fail(s, "item assignment %s[%s] = %s" % (d.typ, tk, tv))
                return self.bind(pk + pv, "let st := store_super_cache st %s %s %s in\n%s" % (
                    d.owner, key, val, self.block(rest, env)))
            _fail(s, "unsupported assignment target")

        if isinstance(s, ast.If):
            if s.orelse:
                _fail(s, "if with else")
            t = s.test
            if (isinstance(t, ast.Compare) and len(t.ops) == 1 and isinstance(t.ops[0], (ast.Is, ast.IsNot))
                    and _is_name(t.left) and _is_none(t.comparators[0]) and t.left.id in env
                    and env[t.left.id].typ == "ocache"):
                v = env[t.left.id]
                cv = "v_" + t.left.id
                env_none = dict(env)
                env_none[t.left.id] = Var(cv, "none")
                env_some = dict(env)
                env_some[t.left.id] = Var(cv, "cache", v.owner)
                if isinstance(t.ops[0], ast.Is):
                    a_none, a_some = self.block(_seq(s.body, rest), env_none), self.block(rest, env_some)
                else:
                    a_none, a_some = self.block(rest, env_none), self.block(_seq(s.body, rest), env_some)
                return "match %s with\n| None =>\n%s\n| Some %s =>\n%s\nend" % (v.term, a_none, cv, a_some)
            _fail(s, "unsupported condition")

        if isinstance(s, ast.Try):
            if s.orelse or s.finalbody or len(s.handlers) != 1 or len(s.body) != 1:
                _fail(s, "unsupported try statement")
            h = s.handlers[0]
            if h.name or _strip(h.body) or not isinstance(h.type, ast.Name):
                _fail(s, "handler is not `except X: pass`")
            b = s.body[0]
            # try: return cache[key] / except KeyError: pass
            if (isinstance(b, ast.Return) and isinstance(b.value, ast.Subscript) and h.type.id == "KeyError"
                    and self.mode == "state" and _is_name(b.value.value) and b.value.value.id in env):
                d = env[b.value.value.id]
                pk, key, tk, _ = self.expr(b.value.slice, env)
                if d.typ != "cache" or tk != "cls" or pk:
                    _fail(s, "lookup %s[%s]" % (d.typ, tk))
                x = self.fresh()
                return "match nget %s %s with\n| Some %s => (st, Some (RSynth %s))\n| None =>\n%s\nend" % (
                    d.term, key, x, x, self.block(rest, env))
            # try: del self._super_cache / except AttributeError: pass
            if (isinstance(b, ast.Delete) and len(b.targets) == 1 and isinstance(b.targets[0], ast.Attribute)
                    and b.targets[0].attr == "_super_cache" and h.type.id == "AttributeError"
                    and self.mode in ("state", "changed")):
                po, obj, to, _ = self.expr(b.targets[0].value, env)
                if to != "sref" or po:
                    _fail(s, "del of an attribute of a %s" % to)
                return "let st := del_super_cache st %s in\n%s" % (obj, self.block(rest, env))
            _fail(s, "unsupported try statement")

        _fail(s, "unsupported statement")


def _branch_super(fn, argname, callee):
    """the function body (after the docstring) must be a ``try`` whose first statement is
    ``if isinstance(<arg>, super): return <callee>(<arg>)``"""
    body = _strip(fn.body)
    if not body or not isinstance(body[0], ast.Try):
        _fail(fn, "expected the body to start with try:")
    tb = _strip(body[0].body)
    s = tb[0] if tb else None
    ok = (isinstance(s, ast.If) and not s.orelse and isinstance(s.test, ast.Call) and _is_name(s.test.func, "isinstance")
          and len(s.test.args) == 2 and _is_name(s.test.args[0], argname) and _is_name(s.test.args[1], "super")
          and not s.test.keywords and len(s.body) == 1 and isinstance(s.body[0], ast.Return)
          and isinstance(s.body[0].value, ast.Call) and _is_name(s.body[0].value.func, callee)
          and len(s.body[0].value.args) == 1 and _is_name(s.body[0].value.args[0], argname)
          and not s.body[0].value.keywords)
    if not ok:
        _fail(s if s is not None else fn, "expected `if isinstance(%s, super): return %s(%s)` first" % (argname, callee, argname))
    if fn.args.args[0].arg != argname:
        _fail(fn, "unexpected first parameter")


# =========================================================================== adapter.py

class Look:
    """LookupBase.adapter_hook / AdapterLookupBase.queryMultiAdapter.  State: the lookup caches c."""

    def __init__(self):
        self.tmp = 0

    def fresh(self):
        self.tmp += 1
        return "t_%d" % self.tmp

    def expr(self, n, env):
        """-> (term, type)"""
        if isinstance(n, ast.Name):
            if n.id == "default":
                return "", "default"
            if n.id not in env:
                _fail(n, "unknown variable")
            v = env[n.id]
            if v.typ == "none":
                _fail(n, "variable is None here")
            return v.term, v.typ
        if isinstance(n, ast.Attribute) and n.attr == "__self__":
            t, ty = self.expr(n.value, env)
            if ty != "obj":
                _fail(n, ".__self__ of a %s" % ty)
            return "(obj_self %s)" % t, "obj"
        if isinstance(n, ast.IfExp):
            c, tc = self.expr(n.test, env)
            a, ta = self.expr(n.body, env)
            b, tb = self.expr(n.orelse, env)
            if tc != "bool" or ta != "obj" or tb != "obj":
                _fail(n, "conditional expression %s ? %s : %s" % (tc, ta, tb))
            return "(if %s then %s else %s)" % (c, a, b), "obj"
        if isinstance(n, ast.Call) and not n.keywords:
            f = n.func
            if _is_name(f, "isinstance") and len(n.args) == 2 and _is_name(n.args[1], "super"):
                t, ty = self.expr(n.args[0], env)
                if ty != "obj":
                    _fail(n, "isinstance(<%s>, super)" % ty)
                return "(is_super_obj %s)" % t, "bool"
            if _is_name(f, "providedBy") and len(n.args) == 1:
                t, ty = self.expr(n.args[0], env)
                if ty != "obj":
                    _fail(n, "providedBy of a %s" % ty)
                return "(o_provides %s)" % t, "spec"
            if (isinstance(f, ast.Attribute) and _is_name(f.value, "self") and f.attr == "_getcache"
                    and len(n.args) == 2):
                p, tp = self.expr(n.args[0], env)
                nm, tn = self.expr(n.args[1], env)
                if tp != "spec" or tn != "name":
                    _fail(n, "_getcache(%s, %s)" % (tp, tn))
                return "%s, %s" % (p, nm), "regcache"
            if (isinstance(f, ast.Attribute) and f.attr == "get" and len(n.args) == 2
                    and _is_name(n.args[1], "_not_in_mapping")):
                d, td = self.expr(f.value, env)
                k, tk = self.expr(n.args[0], env)
                if td != "regcache" or tk != "spec":
                    _fail(n, "%s.get(%s, _not_in_mapping)" % (td, tk))
                return "(aget cache_key_eqb (c_cache c) (%s, CSingle %s))" % (d, k), "mfactory"
            if _is_name(f) and f.id in env and env[f.id].typ == "factory":
                fv = env[f.id].term
                if len(n.args) != 1:
                    _fail(n, "factory call with %d arguments" % len(n.args))
                a = n.args[0]
                if isinstance(a, ast.Starred):
                    lc = a.value
                    if not (isinstance(lc, ast.ListComp) and len(lc.generators) == 1):
                        _fail(n, "factory(*<not a comprehension>)")
                    g = lc.generators[0]
                    it, tit = self.expr(g.iter, env)
                    if g.ifs or g.is_async or not _is_name(g.target) or tit != "lobj":
                        _fail(n, "unsupported comprehension")
                    env2 = dict(env)
                    cv = "v_" + g.target.id
                    env2[g.target.id] = Var(cv, "obj")
                    e, te = self.expr(lc.elt, env2)
                    if te != "obj":
                        _fail(n, "comprehension element is a %s" % te)
                    return "(fcall %s (map (fun %s => o_id %s) %s))" % (fv, cv, e, it), "oresult"
                t, ty = self.expr(a, env)
                if ty != "obj":
                    _fail(n, "factory(<%s>)" % ty)
                return "(fcall %s [o_id %s])" % (fv, t), "oresult"
        _fail(n, "unsupported expression")

    def required(self, n, env):
        """the first argument of self.lookup: (required, ) or [providedBy(o) for o in objects]"""
        if isinstance(n, ast.Tuple) and len(n.elts) == 1:
            t, ty = self.expr(n.elts[0], env)
            if ty != "spec":
                _fail(n, "tuple of a %s" % ty)
            return "[%s]" % t
        if isinstance(n, ast.ListComp) and len(n.generators) == 1:
            g = n.generators[0]
            it, tit = self.expr(g.iter, env)
            if g.ifs or g.is_async or not _is_name(g.target) or tit != "lobj":
                _fail(n, "unsupported comprehension")
            env2 = dict(env)
            cv = "v_" + g.target.id
            env2[g.target.id] = Var(cv, "obj")
            e, te = self.expr(n.elt, env2)
            if te != "spec":
                _fail(n, "comprehension element is a %s" % te)
            return "(map (fun %s => %s) %s)" % (cv, e, it)
        _fail(n, "unsupported `required` argument of self.lookup")

    def block(self, stmts, env):
        stmts = _strip(stmts)
        if not stmts:
            _fail("end of function", "control reaches the end without a return")
        s, rest = stmts[0], stmts[1:]

        if isinstance(s, ast.Return):
            if rest:
                _fail(rest[0], "statement after return")
            if s.value is None:
                _fail(s, "bare return")
            t, ty = self.expr(s.value, env)
            if ty == "default":
                return "(c, RDefault)"
            if ty == "result":
                return "(c, RVal %s)" % t
            _fail(s, "returns a %s" % ty)

        if isinstance(s, ast.Assign) and len(s.targets) == 1 and _is_name(s.targets[0]):
            name = s.targets[0].id
            cv = "v_" + name
            v = s.value
            # factory = self.lookup(<required>, provided, name)
            if (isinstance(v, ast.Call) and isinstance(v.func, ast.Attribute) and _is_name(v.func.value, "self")
                    and v.func.attr == "lookup"):
                if v.keywords or len(v.args) != 3:
                    _fail(s, "expected self.lookup(required, provided, name)")
                req = self.required(v.args[0], env)
                p, tp = self.expr(v.args[1], env)
                nm, tn = self.expr(v.args[2], env)
                if tp != "spec" or tn not in ("name", "narg"):
                    _fail(s, "self.lookup(_, %s, %s)" % (tp, tn))
                narg = "(NStr %s)" % nm if tn == "name" else nm
                x = self.fresh()
                env2 = dict(env)
                env2[name] = Var(cv, "ofactory")
                return ("match lookup ul c %s %s %s with\n| (c, RValueError) => (c, RValueError)\n| (c, %s) =>\n"
                        "let %s := res_opt %s in\n%s\nend" % (req, p, narg, x, cv, x, self.block(rest, env2)))
            t, ty = self.expr(v, env)
            if ty in ("default", "bool"):
                _fail(s, "unsupported assignment of a %s" % ty)
            env2 = dict(env)
            if ty == "regcache":
                env2[name] = Var(t, "regcache")          # symbolic: no Coq binding
                return self.block(rest, env2)
            env2[name] = Var(cv, ty)
            return "let %s := %s in\n%s" % (cv, t, self.block(rest, env2))

        if isinstance(s, ast.If):
            if s.orelse:
                _fail(s, "if with else")
            t = s.test
            body = list(s.body)
            # if not isinstance(name, str): raise ValueError(...)
            if (isinstance(t, ast.UnaryOp) and isinstance(t.op, ast.Not) and isinstance(t.operand, ast.Call)
                    and _is_name(t.operand.func, "isinstance") and len(t.operand.args) == 2
                    and _is_name(t.operand.args[0]) and _is_name(t.operand.args[1], "str")):
                nm = t.operand.args[0].id
                if nm not in env or env[nm].typ != "narg":
                    _fail(s, "isinstance(<not the name argument>, str)")
                b = _strip(body)
                ok = (len(b) == 1 and isinstance(b[0], ast.Raise) and isinstance(b[0].exc, ast.Call)
                      and _is_name(b[0].exc.func, "ValueError") and b[0].cause is None)
                if not ok:
                    _fail(s, "expected `raise ValueError(...)`")
                env2 = dict(env)
                cv = env[nm].term + "_s"
                env2[nm] = Var(cv, "name")
                return "match %s with\n| NotAString => (c, RValueError)\n| NStr %s =>\n%s\nend" % (
                    env[nm].term, cv, self.block(rest, env2))
            # if X is _not_in_mapping / X is None / X is not None
            if (isinstance(t, ast.Compare) and len(t.ops) == 1 and isinstance(t.ops[0], (ast.Is, ast.IsNot))
                    and _is_name(t.left) and t.left.id in env):
                nm = t.left.id
                v = env[nm]
                rhs = t.comparators[0]
                cv = "v_" + nm
                if _is_name(rhs, "_not_in_mapping") and v.typ == "mfactory" and isinstance(t.ops[0], ast.Is):
                    env_miss = dict(env)
                    env_miss[nm] = Var(cv, "none")
                    env_hit = dict(env)
                    env_hit[nm] = Var(cv, "ofactory")
                    return "match %s with\n| None =>\n%s\n| Some %s =>\n%s\nend" % (
                        v.term, self.block(_seq(body, rest), env_miss), cv, self.block(rest, env_hit))
                if _is_none(rhs) and v.typ in ("ofactory", "oresult"):
                    refined = {"ofactory": "factory", "oresult": "result"}[v.typ]
                    env_none = dict(env)
                    env_none[nm] = Var(cv, "none")
                    env_some = dict(env)
                    env_some[nm] = Var(cv, refined)
                    if isinstance(t.ops[0], ast.Is):
                        a_none, a_some = self.block(_seq(body, rest), env_none), self.block(rest, env_some)
                    else:
                        a_none, a_some = self.block(rest, env_none), self.block(_seq(body, rest), env_some)
                    return "match %s with\n| None =>\n%s\n| Some %s =>\n%s\nend" % (v.term, a_none, cv, a_some)
                _fail(s, "unsupported identity test on a %s" % v.typ)
            c, tc = self.expr(t, env)
            if tc != "bool":
                _fail(s, "condition is a %s" % tc)
            return "if %s then\n%s\nelse\n%s" % (c, self.block(_seq(body, rest), env), self.block(rest, env))

        _fail(s, "unsupported statement")


# =========================================================================== driver

def _find_fn(body, name, origin):
    hits = [n for n in body if isinstance(n, ast.FunctionDef) and n.name == name]
    if len(hits) != 1:
        raise TranslationError("%s: expected exactly one def %s, found %d" % (origin, name, len(hits)))
    return hits[0]


def _find_class(tree, name, origin):
    hits = [n for n in tree.body if isinstance(n, ast.ClassDef) and n.name == name]
    if len(hits) != 1:
        raise TranslationError("%s: expected exactly one class %s, found %d" % (origin, name, len(hits)))
    return hits[0]


def _not_rebound(tree, names, origin):
    for n in ast.walk(tree):
        if isinstance(n, ast.Name) and n.id in names and not isinstance(n.ctx, ast.Load):
            raise TranslationError("%s: %s is rebound at line %s" % (origin, n.id, n.lineno))


def _indent(text, k=2):
    return "\n".join(" " * k + l for l in text.split("\n"))


def translate_sources(decl_text, adapter_text, origin="<source>"):
    dt = ast.parse(decl_text)
    at = ast.parse(adapter_text)
    _not_rebound(dt, {"_next_super_class", "_implementedBy_super", "super", "isinstance"}, "declarations.py")
    _not_rebound(at, {"super", "isinstance"}, "adapter.py")

    nsc = _find_fn(dt.body, "_next_super_class", "declarations.py")
    ibs = _find_fn(dt.body, "_implementedBy_super", "declarations.py")
    iby = _find_fn(dt.body, "implementedBy", "declarations.py")
    pby = _find_fn(dt.body, "providedBy", "declarations.py")
    chg = _find_fn(_find_class(dt, "Implements", "declarations.py").body, "changed", "declarations.py")
    hook = _find_fn(_find_class(at, "LookupBase", "adapter.py").body, "adapter_hook", "adapter.py")
    qma = _find_fn(_find_class(at, "AdapterLookupBase", "adapter.py").body, "queryMultiAdapter", "adapter.py")
    for fn in (nsc, ibs, chg, hook, qma):
        if fn.decorator_list:
            _fail(fn, "decorated function")

    _plain_args(nsc, ["ob"])
    g_nsc = Decl("pure").block(nsc.body, {"ob": Var("ob", "sup")})
    _plain_args(ibs, ["sup"])
    g_ibs = Decl("state", known_fns=["_next_super_class"]).block(ibs.body, {"sup": Var("sup", "sup")})
    _plain_args(chg, ["self", "originally_changed"])
    g_chg = Decl("changed").block(chg.body, {"self": Var("self", "sref")})
    _branch_super(iby, "cls", "_implementedBy_super")
    _branch_super(pby, "ob", "implementedBy")

    _plain_args(hook, ["self", "provided", "object", "name", "default"])
    _plain_args(qma, ["self", "objects", "provided", "name", "default"])
    for fn in (hook, qma):
        d = fn.args.defaults
        if not (len(d) == 2 and isinstance(d[0], ast.Constant) and d[0].value == "" and _is_none(d[1])):
            _fail(fn, "unexpected defaults")
    g_hook = Look().block(hook.body, {"provided": Var("v_provided", "spec"), "object": Var("v_object", "obj"),
                                      "name": Var("v_name", "narg")})
    g_qma = Look().block(qma.body, {"provided": Var("v_provided", "spec"), "objects": Var("v_objects", "lobj"),
                                    "name": Var("v_name", "narg")})

    sec = ("(ul : list spec -> spec -> name -> option value) (fcall : value -> list nat -> option nat)\n"
           "           (c : caches)")
    out = [
        "(* GENERATED by harness/translate/super_kernel.py from %s" % origin,
        "   (declarations.py: _next_super_class, _implementedBy_super, Implements.changed, the super branches of",
        "   implementedBy / providedBy; adapter.py: LookupBase.adapter_hook, AdapterLookupBase.queryMultiAdapter).",
        "   Do not edit; regenerated on every run.  Proofs/SuperKernel.v proves these equal to Model/Super.v and",
        "   Model/Lookup.v. *)",
        "From Coq Require Import List Arith Bool ZArith.",
        "Import ListNotations.",
        "From ZI Require Import Model.Ro Model.Adapter Model.Lookup Model.Super Model.SuperPrims.",
        "",
        "Definition gen_next_super_class (E : env) (ob : psuper) : option cls :=",
        _indent(g_nsc) + ".",
        "",
        "Definition gen_implementedBy_super (E : env) (st : state) (sup : psuper) : state * option sref :=",
        _indent(g_ibs) + ".",
        "",
        "Definition gen_implements_changed (st : state) (self : sref) : state :=",
        _indent(g_chg) + ".",
        "",
        "(* implementedBy: `if isinstance(cls, super): return _implementedBy_super(cls)` comes first *)",
        "Definition gen_py_implementedBy (E : env) (st : state) (a : arg) : state * option sref :=",
        "  if is_super_arg a then gen_implementedBy_super E st (psuper_of E a) else implementedBy_rest E st a.",
        "",
        "(* providedBy: `if isinstance(ob, super): return implementedBy(ob)` comes first *)",
        "Definition gen_py_providedBy (E : env) (st : state) (a : arg) : state * option sref :=",
        "  if is_super_arg a then gen_py_implementedBy E st a else providedBy_rest E st a.",
        "",
        "Definition gen_adapter_hook %s" % sec,
        "           (v_provided : spec) (v_object : obj) (v_name : name_arg) : caches * res nat :=",
        _indent(g_hook) + ".",
        "",
        "Definition gen_queryMultiAdapter %s" % sec,
        "           (v_objects : list obj) (v_provided : spec) (v_name : name_arg) : caches * res nat :=",
        _indent(g_qma) + ".",
        "",
    ]
    return "\n".join(out)


def translate_files(decl_path, adapter_path):
    with open(decl_path) as fh:
        d = fh.read()
    with open(adapter_path) as fh:
        a = fh.read()
    return translate_sources(d, a, origin="%s, %s" % (decl_path, adapter_path))


# The text of the kernel this framework was developed against.  Used only when the translation of
# the current source is refused, so that Proofs/SuperKernel.v and Properties/C19.v still compile
# (and say so); the refusal itself is always reported as a broken obligation.
PINNED_DECL = '''
def _next_super_class(ob):
    self_class = ob.__self_class__
    class_that_invoked_super = ob.__thisclass__
    complete_mro = self_class.__mro__
    next_class = complete_mro[complete_mro.index(class_that_invoked_super) + 1]
    return next_class


class Implements:
    def changed(self, originally_changed):
        try:
            del self._super_cache
        except AttributeError:
            pass
        return super().changed(originally_changed)


def _implementedBy_super(sup):
    implemented_by_self = implementedBy(sup.__self_class__)
    cache = implemented_by_self._super_cache
    if cache is None:
        cache = implemented_by_self._super_cache = weakref.WeakKeyDictionary()

    key = sup.__thisclass__
    try:
        return cache[key]
    except KeyError:
        pass

    next_cls = _next_super_class(sup)
    implemented_by_next = implementedBy(next_cls)
    mro = sup.__self_class__.__mro__
    ix_next_cls = mro.index(next_cls)
    classes_to_keep = mro[ix_next_cls:]
    new_bases = [implementedBy(c) for c in classes_to_keep]

    new = Implements.named(
        implemented_by_self.__name__ + ':' + implemented_by_next.__name__,
        *new_bases
    )
    new.inherit = implemented_by_next.inherit
    new.declared = implemented_by_next.declared
    cache[key] = new

    return new


def implementedBy(cls):
    try:
        if isinstance(cls, super):
            return _implementedBy_super(cls)
    except AttributeError:
        pass


def providedBy(ob):
    try:
        if isinstance(ob, super):
            return implementedBy(ob)
    except AttributeError:
        pass
'''

PINNED_ADAPTER = '''
class LookupBase:
    def adapter_hook(self, provided, object, name='', default=None):
        if not isinstance(name, str):
            raise ValueError('name is not a string')
        required = providedBy(object)
        cache = self._getcache(provided, name)
        factory = cache.get(required, _not_in_mapping)
        if factory is _not_in_mapping:
            factory = self.lookup((required, ), provided, name)

        if factory is not None:
            if isinstance(object, super):
                object = object.__self__
            result = factory(object)
            if result is not None:
                return result

        return default


class AdapterLookupBase:
    def queryMultiAdapter(self, objects, provided, name='', default=None):
        factory = self.lookup([providedBy(o) for o in objects], provided, name)
        if factory is None:
            return default

        result = factory(*[
            o.__self__ if isinstance(o, super) else o for o in objects
        ])
        if result is None:
            return default

        return result
'''


def pinned():
    return translate_sources(PINNED_DECL, PINNED_ADAPTER, origin="<pinned copy in harness/translate/super_kernel.py>")


if __name__ == "__main__":  # manual use: python -m harness.translate.super_kernel /repo/src/zope/interface
    import os
    import sys
    print(translate_files(os.path.join(sys.argv[1], "declarations.py"), os.path.join(sys.argv[1], "adapter.py")))
