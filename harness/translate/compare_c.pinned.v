(* GENERATED on every run by harness/translate/compare_c.py from
   src/zope/interface/_zope_interface_coptimizations.c (IB_richcompare) — do not edit. *)
From Coq Require Import List NArith Bool.
From ZI Require Import Lib.Str Model.Order.

Definition gen_c_same_true (o : op) : bool := match o with OpEq | OpLe | OpGe => true | _ => false end.
Definition gen_c_same_false (o : op) : bool := match o with OpNe => true | _ => false end.
Definition gen_c_none_true (o : op) : bool := match o with OpLt | OpLe | OpNe => true | _ => false end.

Definition gen_c_richcompare (o : op) (self other : operand) : mres :=
  if same_obj self other && (gen_c_same_true o || gen_c_same_false o) then MBool (gen_c_same_true o)
  else match okind_of other with
       | KNone => MBool (gen_c_none_true o)
       | _ =>
           if has_key other then
             if str_eqb (oname self) (oname other)
             then MBool (op_on o (str_cmp (omodule self) (omodule other)))
             else MBool (op_on o (str_cmp (oname self) (oname other)))
           else MNotImpl
       end.

