"""Fail-closed translator: zope/interface/declarations.py -> Gallina (coq/Gen/DeclKernel.v).

Translated (statement by statement, from the text of the current working tree):

    _classImplements_ordered   classImplements   classImplementsOnly   classImplementsFirst
    Declaration._add_interfaces_to_cls           Provides (the factory)   Provides.changed
    directlyProvides           alsoProvides      noLongerProvides         directlyProvidedBy

The target vocabulary is coq/Model/DeclKernelPrims.v: a kernel state ``s`` (threaded through
every statement) and primitives ``p_*`` that stand for what an attribute access / builtin /
hand-modelled callee does.  Every generated function is ``gen_<name> g s <params>``.

Scheme
    x = e                         let x := e in
    obj.attr = e                  let s := p_set_<attr> s obj e in          (known attrs only)
    lst.append(e) / st.add(e)     let lst := lst ++ [e] in / let st := e :: st in
    f(args)   (translated f)      let s := gen_f g s args in
    for x in it: body             let '(s, v1..vn) := fold_left (fun '(s, v1..vn) x => body) it (s, v1..vn) in
                                  (v1..vn = the variables assigned in nested blocks and used outside them)
    for lst in a, b, c: for x in lst: body       the same over a ++ b ++ c
    for x in it: if c: body; break  else: other  if existsb (fun x => c) it then body else other
                                                 (x may not occur in body)
    if c: a  else: b              let '(s, v1..vn) := if c then a else b in
    if with raise/return inside   if c then <a; rest> else <b; rest>
    raise TypeError/ValueError    p_raise exc_.. s          return e   ->   e
    [x for x in it if c]          filter (fun x => c) it
Anything else (unknown statement, expression, callee, attribute, signature, decorator, a
second definition of a translated name, aliasing of a list that is used afterwards ...) raises
``TranslationError``: no kernel is produced for the current source and the caller reports the
broken tie.
"""
import ast


class TranslationError(Exception):
    pass


def _where(node):
    try:
        text = ast.unparse(node).split("\n")[0][:90]
    except Exception:  # pragma: no cover
        text = "?"
    return "declarations.py:%s: %s" % (getattr(node, "lineno", "?"), text)


def _fail(node, why):
    raise TranslationError("%s -- %s" % (_where(node), why))


# kinds: list (list node) | node | spec (node) | clsref | target | key | prov | optprov | got | origin
#        | decl (list node: the bases of a Declaration) | bool | cls_list (list kclsref)

SIGS = {
    # name: (coq name, [(param, kind)], vararg (name, kind) or None, returns)
    "_classImplements_ordered": ("gen_classImplements_ordered", [("spec", "spec"), ("before", "list"), ("after", "list")], None, "state"),
    "classImplements": ("gen_classImplements", [("cls", "clsref")], ("interfaces", "list"), "state"),
    "classImplementsOnly": ("gen_classImplementsOnly", [("cls", "clsref")], ("interfaces", "list"), "state"),
    "classImplementsFirst": ("gen_classImplementsFirst", [("cls", "clsref"), ("iface", "node")], None, "state"),
    "_add_interfaces_to_cls": ("gen_add_interfaces_to_cls", [("interfaces", "list"), ("cls", "clsref")], None, "list"),
    "Provides": ("gen_Provides", [], ("interfaces", "key"), "state+prov"),
    "changed": ("gen_Provides_changed", [("self", "prov"), ("originally_changed", "origin")], None, "state"),
    "directlyProvides": ("gen_directlyProvides", [("object", "target")], ("interfaces", "list"), "state"),
    "alsoProvides": ("gen_alsoProvides", [("object", "target")], ("interfaces", "list"), "state"),
    "noLongerProvides": ("gen_noLongerProvides", [("object", "target"), ("interface", "node")], None, "state"),
    "directlyProvidedBy": ("gen_directlyProvidedBy", [("object", "target")], None, "decl"),
    # the statement of implementedBy() that installs the ClassProvides of a new class
    "implementedBy_class_provides": ("gen_implementedBy_class_provides", [("cls", "target")], None, "state"),
    # implementedBy itself (the path for a class whose __dict__ can be read; recursion on fuel)
    "implementedBy": ("gen_implementedBy", [("cls", "clsref")], None, "state+node"),
}
DEFAULTS_OK = {"_classImplements_ordered": ["()", "()"]}
ORDER = ["_add_interfaces_to_cls", "implementedBy_class_provides", "implementedBy", "changed", "_classImplements_ordered", "classImplements", "classImplementsOnly",
         "classImplementsFirst", "Provides", "directlyProvidedBy", "directlyProvides", "alsoProvides",
         "noLongerProvides"]
COQ_TYPE = {"dv": "kdv", "list": "list node", "node": "node", "spec": "node", "clsref": "kclsref", "target": "target",
            "key": "kkey", "prov": "kprov", "origin": "korigin", "decl": "list node"}
LISTY = ("list", "decl")


class _Fn:
    def __init__(self, name, node):
        self.name = name
        self.node = node
        self.coq, self.params, self.vararg, self.returns = SIGS[name]
        self.env = {}
        self.tuple_vars = []
        self.fresh = 0

    # ------------------------------------------------------------ signature
    def check_signature(self):
        fn, a = self.node, self.node.args
        want = [p for p, _k in self.params]
        if [x.arg for x in a.args] != want:
            _fail(fn, "parameters are %r, expected %r" % ([x.arg for x in a.args], want))
        if a.kwarg or a.kwonlyargs or a.kw_defaults or getattr(a, "posonlyargs", None):
            _fail(fn, "unexpected keyword / positional-only parameters")
        if (a.vararg.arg if a.vararg else None) != (self.vararg[0] if self.vararg else None):
            _fail(fn, "unexpected *args parameter")
        if [ast.unparse(d) for d in a.defaults] != DEFAULTS_OK.get(self.name, []):
            _fail(fn, "unexpected parameter defaults")
        decos = [ast.unparse(d) for d in fn.decorator_list]
        if decos != {"_add_interfaces_to_cls": ["staticmethod"], "implementedBy": ["_use_c_impl"]}.get(self.name, []):
            _fail(fn, "unexpected decorators %r" % decos)
        for p, k in self.params:
            self.env[p] = k
        if self.vararg:
            self.env[self.vararg[0]] = self.vararg[1]

    # ------------------------------------------------------------ variable analysis
    def analyse(self, stmts):
        """tuple variables: assigned / mutated inside a nested block and used outside it"""
        mutated_lists = []

        def targets(st):
            out = []
            if isinstance(st, ast.Assign):
                for t in st.targets:
                    if isinstance(t, ast.Name):
                        out.append(t.id)
            if isinstance(st, ast.Expr) and isinstance(st.value, ast.Call) and isinstance(st.value.func, ast.Attribute) \
                    and st.value.func.attr in ("append", "add") and isinstance(st.value.func.value, ast.Name):
                out.append(st.value.func.value.id)
                if st.value.func.value.id not in mutated_lists:
                    mutated_lists.append(st.value.func.value.id)
            return out

        def names_in(nodes):
            s = set()
            for n in nodes:
                for x in ast.walk(n):
                    if isinstance(x, ast.Name):
                        s.add(x.id)
            return s

        tv = []

        def visit(stmts, outer_rest):
            """outer_rest: statements that follow the enclosing nested block (at any level)"""
            for i, st in enumerate(stmts):
                rest = stmts[i + 1:]
                if isinstance(st, (ast.For, ast.If)):
                    inner = list(st.body) + list(st.orelse)
                    assigned = []
                    loopvars = set()
                    for x in ast.walk(st):
                        if isinstance(x, ast.For):
                            for n in ast.walk(x.target):
                                if isinstance(n, ast.Name):
                                    loopvars.add(n.id)
                    for x in ast.walk(ast.Module(body=inner, type_ignores=[])):
                        if isinstance(x, ast.stmt):
                            for t in targets(x):
                                if t not in assigned:
                                    assigned.append(t)
                    used_after = names_in(rest + outer_rest)
                    for t in assigned:
                        if t in loopvars:
                            continue
                        # a list that is appended to in a loop carries its value around the loop
                        in_loop = isinstance(st, ast.For) and t in mutated_lists
                        if (t in used_after or in_loop) and t not in tv:
                            tv.append(t)
                    visit(st.body, rest + outer_rest)
                    visit(st.orelse, rest + outer_rest)

        for st in stmts:
            targets(st)
        for x in ast.walk(ast.Module(body=list(stmts), type_ignores=[])):
            if isinstance(x, ast.stmt):
                targets(x)
        visit(list(stmts), [])
        self.tuple_vars = tv
        self.mutated_lists = mutated_lists

    # ------------------------------------------------------------ expressions
    def expr(self, e, want=None):
        """-> (coq text, kind); ``want`` coerces (node <- spec, prov <- optprov, bool <- list ...)"""
        txt, kind = self._expr(e)
        if want is None or want == kind:
            return txt, kind
        if want == "node" and kind == "spec":
            return txt, "node"
        if want == "spec" and kind == "node":
            return txt, "spec"
        if want == "list" and kind == "decl":
            return "(p_decl_interfaces %s)" % txt, "list"
        if want == "prov" and kind == "optprov":
            return "(p_the %s)" % txt, "prov"
        if want == "optprov" and kind == "prov":
            return "(Some %s)" % txt, "optprov"
        if want in ("spec", "node") and kind == "dv":
            return "(p_dv_spec %s)" % txt, want
        if want == "target" and kind == "clsref" and self.name == "implementedBy":
            return "(p_as_object %s)" % txt, "target"
        if want == "bool" and kind in LISTY:
            return "(p_truth %s)" % txt, "bool"
        _fail(e, "expression of kind %s where %s is needed" % (kind, want))

    def _expr(self, e):
        if isinstance(e, ast.Name):
            if e.id in self.env:
                return e.id.replace("object", "object_"), self.env[e.id]
            if e.id == "_empty":
                return "p_empty", "decl"
            if e.id == "type":
                return "RType", "clsref"
            _fail(e, "unknown name")
        if isinstance(e, ast.Constant) and e.value is None:
            _fail(e, "None outside an 'is None' test")
        if isinstance(e, (ast.Tuple, ast.List)):
            if any(isinstance(x, ast.Starred) for x in e.elts):
                _fail(e, "starred element")
            if not e.elts:
                return "(@nil node)", "list"
            if len(e.elts) == 1 and isinstance(e.elts[0], ast.Name) and self.env.get(e.elts[0].id) == "dv":
                return "(p_dv_old %s)" % e.elts[0].id, "list"   # an old-style __implemented__ value
            return "[" + "; ".join(self.expr(x, "node")[0] for x in e.elts) + "]", "list"
        if isinstance(e, ast.ListComp):
            return self.comprehension(e)
        if isinstance(e, ast.BoolOp):
            op = "andb" if isinstance(e.op, ast.And) else "orb"
            parts = [self.expr(v, "bool")[0] for v in e.values]
            out = parts[-1]
            for p in reversed(parts[:-1]):
                out = "(%s %s %s)" % (op, p, out)
            return out, "bool"
        if isinstance(e, ast.UnaryOp) and isinstance(e.op, ast.Not):
            return "(negb %s)" % self.expr(e.operand, "bool")[0], "bool"
        if isinstance(e, ast.Compare):
            return self.compare(e)
        if isinstance(e, ast.BinOp):
            if isinstance(e.op, ast.Add):
                a, ka = self.expr(e.left)
                b, kb = self.expr(e.right)
                if ka != "list" or kb != "list":
                    _fail(e, "+ of non-lists")
                return "(%s ++ %s)" % (a, b), "list"
            if isinstance(e.op, ast.Sub):
                a, ka = self.expr(e.left)
                if ka != "decl":
                    _fail(e, "- on something that is not a Declaration")
                return "(p_decl_sub g %s %s)" % (a, self.expr(e.right, "node")[0]), "decl"
            _fail(e, "unsupported operator")
        if isinstance(e, ast.Subscript):
            if ast.unparse(e.slice) != ":-1":
                _fail(e, "unsupported subscript")
            a, ka = self.expr(e.value)
            if ka != "list":
                _fail(e, "slice of a non-list")
            return "(removelast %s)" % a, "list"
        if isinstance(e, ast.Attribute):
            return self.attribute(e)
        if isinstance(e, ast.Call):
            return self.call(e)
        _fail(e, "unsupported expression")

    def comprehension(self, e):
        if len(e.generators) != 1:
            _fail(e, "nested comprehension")
        gen = e.generators[0]
        if gen.is_async or not isinstance(gen.target, ast.Name) or not isinstance(e.elt, ast.Name) \
                or e.elt.id != gen.target.id:
            _fail(e, "comprehension is not a filter [x for x in .. if ..]")
        it, k = self.expr(gen.iter)
        if k != "list":
            _fail(e, "comprehension over a non-list")
        if len(gen.ifs) != 1:
            _fail(e, "comprehension without exactly one condition")
        var = gen.target.id
        if var in self.env:
            _fail(e, "comprehension variable shadows %s" % var)
        self.env[var] = "node"
        cond = self.expr(gen.ifs[0], "bool")[0]
        del self.env[var]
        return "(filter (fun %s => %s) %s)" % (var, cond, it), "list"

    def compare(self, e):
        if len(e.ops) != 1:
            _fail(e, "chained comparison")
        op, l, r = e.ops[0], e.left, e.comparators[0]
        neg = isinstance(op, (ast.IsNot, ast.NotIn))
        wrap = (lambda t: "(negb %s)" % t) if neg else (lambda t: t)
        if isinstance(op, (ast.In, ast.NotIn)) and isinstance(l, ast.Constant) and l.value == "__provides__" \
                and isinstance(r, ast.Attribute) and r.attr == "__dict__" and isinstance(r.value, ast.Name) \
                and self.env.get(r.value.id) in ("target", "clsref"):
            return wrap("(p_has_own_provides s %s)" % self.expr(r.value, "target")[0]), "bool"
        if isinstance(op, (ast.In, ast.NotIn)):
            a = self.expr(l, "node")[0]
            b, kb = self.expr(r)
            if kb != "list":
                _fail(e, "membership in a non-list")
            return wrap("(p_in %s %s)" % (a, b)), "bool"
        if not isinstance(op, (ast.Is, ast.IsNot)):
            _fail(e, "unsupported comparison")
        if isinstance(r, ast.Constant) and r.value is None:
            if isinstance(l, ast.Attribute) and ast.unparse(l).endswith(".inherit") and isinstance(l.value, ast.Name) \
                    and self.env.get(l.value.id) == "spec":
                return wrap("(negb (p_inherit_is_set s %s))" % l.value.id), "bool"
            a, k = self.expr(l)
            prim = {"clsref": "p_is_none_ref", "optprov": "p_is_none_opt", "got": "p_got_is_none",
                    "dv": "p_dv_is_none"}.get(k)
            if prim is None:
                _fail(e, "'is None' on a value of kind %s" % k)
            return wrap("(%s %s)" % (prim, a)), "bool"
        if isinstance(r, ast.Name) and r.id == "Interface" and "Interface" not in self.env:
            return wrap("(p_is_root %s)" % self.expr(l, "node")[0]), "bool"
        a, ka = self.expr(l)
        b, kb = self.expr(r)
        if ka == "clsref" and kb == "clsref":
            return wrap("(kclsref_eqb %s %s)" % (a, b)), "bool"
        if ka == "origin" and kb == "prov":
            return wrap("(p_origin_is %s %s)" % (a, b)), "bool"
        if ka == "optprov" and kb == "prov":
            return wrap("(p_opt_is %s %s)" % (a, b)), "bool"
        _fail(e, "'is' between values of kind %s and %s" % (ka, kb))

    def attribute(self, e):
        src = ast.unparse(e)
        if isinstance(e.value, ast.Name) and e.value.id in self.env:
            base, k = e.value.id, self.env[e.value.id]
            if k == "spec" and e.attr == "declared":
                return "(p_declared s %s)" % base, "list"
            if k == "prov" and e.attr == "__args":
                return "(p_args %s)" % base, "key"
            if k == "got" and e.attr == "__bases__":
                return "(p_bases %s)" % base, "list"
        if self.name == "implementedBy" and src == "cls.__bases__":
            return "(p_pybases s cls)", "cls_list"
        if isinstance(e.value, ast.Attribute) and isinstance(e.value.value, ast.Name) \
                and self.env.get(e.value.value.id) == "spec" and e.value.attr == "inherit" and e.attr == "__bases__":
            return "(p_inherit_pybases s %s)" % e.value.value.id, "cls_list"
        _fail(e, "unsupported attribute access %s" % src)

    def call(self, e):
        if e.keywords:
            _fail(e, "keyword arguments")
        f = e.func
        args = e.args
        if isinstance(f, ast.Name):
            n = f.id
            if self.name == "implementedBy":
                if n == "isinstance" and len(args) == 2 and isinstance(args[1], ast.Name):
                    a, k = self.expr(args[0])
                    if (k, args[1].id) == ("clsref", "super"):
                        return "(p_isinstance_super %s)" % a, "bool"
                    if (k, args[1].id) == ("dv", "Implements"):
                        return "(p_dv_is_implements %s)" % a, "bool"
                    if (k, args[1].id) == ("clsref", "type"):
                        return "(p_isinstance_type (p_as_object %s))" % a, "bool"
                if n == "_implements_name" and len(args) == 1:
                    return "(p_implements_name %s)" % self.expr(args[0], "clsref")[0], "clsref"
                if n == "hasattr" and len(args) == 2 and isinstance(args[1], ast.Constant) \
                        and args[1].value == "__providedBy__":
                    return "(p_hasattr_providedBy s %s)" % self.expr(args[0], "clsref")[0], "bool"
                if n == "getattr" and len(args) == 3 and ast.unparse(e) == "getattr(cls, '__class__', type(cls))":
                    return "(p_getattr_class s (p_as_object cls))", "clsref"
            if n in ("tuple", "list") and len(args) == 1 and not isinstance(args[0], ast.Starred):
                a, k = self.expr(args[0])
                if k not in ("list", "cls_list"):
                    _fail(e, "%s() of a non-list" % n)
                return a, k
            if n == "set" and not args:
                return "(@nil node)", "list"
            if n == "implementedBy" and len(args) == 1:
                return "(p_implementedBy %s)" % self.expr(args[0], "clsref")[0], "spec"
            if n == "_normalizeargs" and len(args) == 1:
                return "(p_normalizeargs %s)" % self.expr(args[0], "list")[0], "list"
            if n == "getattr" and len(args) == 3 and isinstance(args[2], ast.Constant) and args[2].value is None \
                    and isinstance(args[1], ast.Constant):
                a, k = self.expr(args[0])
                key = (k, args[1].value)
                if key == ("target", "__class__"):
                    return "(p_getattr_class s %s)" % a, "clsref"
                if key == ("clsref", "__class__"):
                    return "(p_getattr_class_of_class %s)" % a, "clsref"
                if key == ("target", "__provides__"):
                    return "(p_getattr_provides s %s)" % a, "got"
                _fail(e, "unsupported getattr")
            if n == "getattr" and len(args) == 3 and isinstance(args[1], ast.Constant) and args[1].value == "__class__" \
                    and ast.unparse(args[2]) == "type(%s)" % ast.unparse(args[0]):
                a, k = self.expr(args[0])
                if k != "target":
                    _fail(e, "unsupported getattr")
                return "(p_getattr_class s %s)" % a, "clsref"
            if n == "type" and len(args) == 1:
                return "(p_type_of s %s)" % self.expr(args[0], "target")[0], "clsref"
            if n == "isinstance" and len(args) == 2 and isinstance(args[1], ast.Name):
                a, k = self.expr(args[0])
                if (k, args[1].id) == ("target", "type"):
                    return "(p_isinstance_type %s)" % a, "bool"
                if (k, args[1].id) == ("got", "Implements"):
                    return "(p_got_is_implements %s)" % a, "bool"
                _fail(e, "unsupported isinstance")
            if n == "issubclass" and len(args) == 2 and isinstance(args[1], ast.Name):
                a = self.expr(args[0], "clsref")[0]
                if args[1].id == "type":
                    return "(p_issubclass_type %s)" % a, "bool"
                if args[1].id == "ModuleType":
                    return "(p_issubclass_module %s)" % a, "bool"
                _fail(e, "unsupported issubclass")
            if n == "hasattr" and len(args) == 2 and isinstance(args[1], ast.Constant) and args[1].value == "__name__":
                return "(p_hasattr_name %s)" % self.expr(args[0], "target")[0], "bool"
            if n == "Declaration" and len(args) == 1:
                return "(p_declaration %s)" % self.expr(args[0], "list")[0], "decl"
            if n == "ClassProvides" and len(args) == 3 and isinstance(args[2], ast.Starred):
                return "(p_new_class_provides gen_add_interfaces_to_cls g s %s %s %s)" % (
                    self.expr(args[0], "target")[0], self.expr(args[1], "clsref")[0],
                    self.expr(args[2].value, "list")[0]), "prov"
            if n == "ClassProvides" and len(args) == 2 and not any(isinstance(a, ast.Starred) for a in args):
                return "(p_new_class_provides gen_add_interfaces_to_cls g s %s %s (@nil node))" % (
                    self.expr(args[0], "target")[0], self.expr(args[1], "clsref")[0]), "prov"
            if n == "ProvidesClass" and len(args) == 1 and isinstance(args[0], ast.Starred):
                return "(p_new_provides gen_add_interfaces_to_cls g s %s)" % self.expr(args[0].value, "key")[0], "prov"
            if n == "directlyProvidedBy" and len(args) == 1:
                return "(gen_directlyProvidedBy g s %s)" % self.expr(args[0], "target")[0], "decl"
            _fail(e, "call of %s is not known to the translator" % n)
        if self.name == "implementedBy" and ast.unparse(e) == "cls.__dict__.get('__implemented__')":
            return "(p_dict_get_implemented s cls)", "dv"
        if self.name == "implementedBy" and ast.unparse(e) == "BuiltinImplementationSpecifications.get(cls)":
            return "(p_table_get s cls)", "dv"
        if isinstance(f, ast.Attribute) and isinstance(f.value, ast.Name):
            base, m = f.value.id, f.attr
            if base == "InstanceDeclarations" and m == "get" and len(args) == 1 and base not in self.env:
                return "(p_cache_get s %s)" % self.expr(args[0], "key")[0], "optprov"
            k = self.env.get(base)
            if k == "spec" and m == "isOrExtends" and len(args) == 1:
                return "(p_isOrExtends g s %s %s)" % (base, self.expr(args[0], "node")[0]), "bool"
            if k == "node" and m == "extends" and len(args) == 1:
                return "(p_extends g %s %s)" % (base, self.expr(args[0], "node")[0]), "bool"
            if k == "node" and m == "providedBy" and len(args) == 1:
                return "(p_providedBy g s %s %s)" % (base, self.expr(args[0], "target")[0]), "bool"
        _fail(e, "unsupported call")

    # ------------------------------------------------------------ statements
    def tup(self, bound):
        vs = ["s"] + [v.replace("object", "object_") for v in self.tuple_vars if v in bound]
        return vs

    @staticmethod
    def pat(vs):
        return vs[0] if len(vs) == 1 else "'(" + ", ".join(vs) + ")"

    @staticmethod
    def val(vs):
        return vs[0] if len(vs) == 1 else "(" + ", ".join(vs) + ")"

    def has_exit(self, stmts):
        for st in stmts:
            for x in ast.walk(st):
                if isinstance(x, (ast.Return, ast.Raise)):
                    return True
        return False

    def block(self, stmts, final, ind):
        """final(): the expression the block evaluates to when control falls off its end"""
        pad = "  " * ind
        if not stmts:
            return pad + final()
        st, rest = stmts[0], list(stmts[1:])
        if isinstance(st, ast.Expr) and isinstance(st.value, ast.Constant) and isinstance(st.value.value, str):
            return self.block(rest, final, ind)   # docstring
        if isinstance(st, ast.Try):
            return self.try_stmt(st, rest, final, ind)
        saved = dict(self.env)
        try:
            head = self.stmt(st, rest, final, ind)
            if head is None:      # the statement consumed the rest itself
                return self._consumed
            return pad + head + "\n" + self.block(rest, final, ind)
        finally:
            # bindings made by a block stay visible for its continuation only
            if False:
                self.env = saved

    TRY_ATTR_BODIES = (
        # reading the class: the handler is the security-proxy / non-class path, which is outside
        # the modelled universe (cls is a type whose __dict__ and __bases__ can be read)
        ["if isinstance(cls, super):\n    return _implementedBy_super(cls)", "spec = cls.__dict__.get('__implemented__')"],
        ["bases = cls.__bases__"],
    )

    def try_stmt(self, st, rest, final, ind):
        if self.name != "implementedBy" or st.orelse or st.finalbody or len(st.handlers) != 1 \
                or st.handlers[0].name is not None or not isinstance(st.handlers[0].type, ast.Name):
            _fail(st, "unsupported try statement")
        exc = st.handlers[0].type.id
        body = [ast.unparse(x) for x in st.body]
        if exc == "AttributeError" and body in [list(b) for b in self.TRY_ATTR_BODIES]:
            return self.block(list(st.body) + list(rest), final, ind)
        if exc == "TypeError" and body and body[0] == "cls.__implemented__ = spec":
            # the first statement is the one that raises (immutable type), before any effect
            pad = "  " * ind
            env0 = dict(self.env)
            a = self.block(list(st.body) + list(rest), final, ind + 1)
            self.env = dict(env0)
            b = self.block(list(st.handlers[0].body) + list(rest), final, ind + 1)
            self.env = env0
            return "%sif p_can_setattr s cls then\n%s\n%selse\n%s" % (pad, a, pad, b)
        _fail(st, "try statement of a shape the translator does not know")

    def stmt(self, st, rest, final, ind):
        pad = "  " * ind
        self._pad = pad
        if isinstance(st, ast.Return):
            if st.value is None:
                _fail(st, "bare return")
            if self.returns == "state":
                _fail(st, "return of a value in a procedure")
            if self.returns == "state+node":
                if ast.unparse(st.value) == "_implementedBy_super(cls)" and self.env.get("cls") == "clsref":
                    self._consumed = pad + "p_implementedBy_super s cls"
                else:
                    self._consumed = pad + "(s, %s)" % self.expr(st.value, "spec")[0]
                self.returned = True
                return None
            want = {"state+prov": "prov", "list": "list", "decl": "decl"}[self.returns]
            v = self.expr(st.value, want)[0]
            self._consumed = pad + ("(s, %s)" % v if self.returns.startswith("state+") else v)
            self.returned = True
            return None
        if isinstance(st, ast.Raise):
            exc = st.exc
            if not (isinstance(exc, ast.Call) and isinstance(exc.func, ast.Name)
                    and exc.func.id in ("TypeError", "ValueError")) or st.cause is not None:
                _fail(st, "unsupported raise")
            if self.returns == "state+node":
                self._consumed = pad + "(p_raise exc_%s s, p_no_spec)" % exc.func.id
                return None
            if self.returns != "state":
                _fail(st, "raise in a function that returns a value")
            self._consumed = pad + "p_raise exc_%s s" % exc.func.id
            return None
        if isinstance(st, ast.If):
            if self.has_exit(list(st.body) + list(st.orelse)):
                cond = self.expr(st.test, "bool")[0]
                env0 = dict(self.env)
                a = self.block(list(st.body) + rest, final, ind + 1)
                self.env = dict(env0)
                b = self.block(list(st.orelse) + rest, final, ind + 1)
                self.env = env0
                self._consumed = "%sif %s then\n%s\n%selse\n%s" % (pad, cond, a, pad, b)
                return None
            cond = self.expr(st.test, "bool")[0]
            vs = self.tup(self.env)
            env0 = dict(self.env)
            a = self.block(list(st.body), lambda: self.val(vs), ind + 2)
            self.env = dict(env0)
            b = self.block(list(st.orelse), lambda: self.val(vs), ind + 2)
            self.env = env0
            return "let %s :=\n%s  if %s then\n%s\n%s  else\n%s in" % (self.pat(vs), pad, cond, a, pad, b)
        if isinstance(st, ast.For):
            return self.loop(st, ind)
        if isinstance(st, ast.Assign):
            return self.assign(st)
        if isinstance(st, ast.AugAssign):
            if ast.unparse(st) == "provides._v_module_names += (object.__name__,)" and self.env.get("provides") == "prov":
                return "let s := p_note_module_name s provides object_ in"
            _fail(st, "unsupported augmented assignment")
        if isinstance(st, ast.Delete):
            if ast.unparse(st) == "del InstanceDeclarations[self.__args]" and self.env.get("self") == "prov":
                return "let s := p_cache_del s (p_args self) in"
            if ast.unparse(st) == "del cls.__implemented__" and self.name == "implementedBy":
                return "let s := p_del_dict_implemented s cls in"
            _fail(st, "unsupported del")
        if isinstance(st, ast.Expr) and isinstance(st.value, ast.Call):
            return self.call_stmt(st)
        _fail(st, "unsupported statement")

    def assign_implementedBy(self, st):
        src = ast.unparse(st)
        if src == "spec = Implements.named(spec_name, *[implementedBy(c) for c in bases])":
            if self.env.get("bases") != "cls_list" or self.env.get("spec_name") != "clsref":
                _fail(st, "unexpected kinds")
            self.env["spec"] = "dv"
            return ("let '(s, base_specs) :=\n%s  fold_left (fun '(s, acc) c => let '(s, v) := gen_implementedBy fuel g s c in (s, acc ++ [v]))\n"
                    "%s    bases (s, (@nil node)) in\n%slet '(s, spec) := p_implements_named s spec_name base_specs in"
                    % (self._pad, self._pad, self._pad))
        if src == "spec = Implements.named(spec_name, *_normalizeargs(spec))":
            if self.env.get("spec") != "list" or self.env.get("spec_name") != "clsref":
                _fail(st, "unexpected kinds")
            self.env["spec"] = "dv"
            return "let '(s, spec) := p_implements_named s spec_name (p_normalizeargs spec) in"
        if src == "spec = Implements.named(spec_name, *declared)":
            if self.env.get("declared") != "list" or self.env.get("spec_name") != "clsref":
                _fail(st, "unexpected kinds")
            self.env["spec"] = "dv"
            return "let '(s, spec) := p_implements_named s spec_name declared in"
        if src == "spec.declared = declared" and self.env.get("spec") == "dv" and self.env.get("declared") == "list":
            return "let s := p_set_declared s (p_dv_spec spec) declared in"
        if src == "spec = (spec,)" and self.env.get("spec") == "dv":
            self.env["spec"] = "list"
            return "let spec := (p_dv_old spec) in"
        if src == "spec.inherit = None" and self.env.get("spec") == "dv":
            return "let s := p_set_inherit_none s (p_dv_spec spec) in"
        if src == "spec.inherit = cls" and self.env.get("spec") == "dv":
            return "let s := p_set_inherit_cls s (p_dv_spec spec) cls in"
        if src == "spec._implements_cls = cls" and self.env.get("spec") == "dv":
            return "let s := p_set_implements_cls s (p_dv_spec spec) cls in"
        if src == "cls.__implemented__ = spec" and self.env.get("spec") == "dv":
            return "let s := p_store_dict s cls (p_dv_spec spec) in"
        if src == "cls.__providedBy__ = objectSpecificationDescriptor":
            return "let s := p_install_osd s cls in"
        if src == "BuiltinImplementationSpecifications[cls] = spec" and self.env.get("spec") == "dv":
            return "let s := p_table_set s cls (p_dv_spec spec) in"
        if ast.unparse(st.targets[0]) == "cls.__provides__" and len(st.targets) == 1:
            return "let s := p_set_provides s (p_as_object cls) %s in" % self.expr(st.value, "prov")[0]
        return None

    def assign(self, st):
        if self.name == "implementedBy":
            r = self.assign_implementedBy(st)
            if r is not None:
                return r
        targets = st.targets
        # provides = object.__provides__ = Provides(cls, *interfaces)
        if len(targets) == 2 and isinstance(targets[0], ast.Name) and isinstance(targets[1], ast.Attribute):
            name = targets[0].id
            lets = self.bind_value(name, st.value, st)
            return lets + "\n" + self._pad + self.attr_assign(targets[1], ast.Name(id=name, ctx=ast.Load()), st)
        if len(targets) != 1:
            _fail(st, "multiple assignment targets")
        t = targets[0]
        if isinstance(t, ast.Name):
            return self.bind_value(t.id, st.value, st)
        if isinstance(t, ast.Attribute):
            return self.attr_assign(t, st.value, st)
        if isinstance(t, ast.Subscript) and ast.unparse(t) == "InstanceDeclarations[interfaces]" \
                and self.env.get("interfaces") == "key":
            return "let s := p_cache_set s interfaces %s in" % self.expr(st.value, "prov")[0]
        _fail(st, "unsupported assignment target")

    def bind_value(self, name, value, st):
        if name in ("s", "g", "fuel", "base_specs") or name.startswith("p_") or name.startswith("gen_"):
            _fail(st, "variable name clashes with the kernel vocabulary")
        cname = name.replace("object", "object_")
        # call of the translated Provides factory: state and value
        if isinstance(value, ast.Call) and isinstance(value.func, ast.Name) and value.func.id == "Provides" \
                and "Provides" not in self.env:
            a = value.args
            if value.keywords or len(a) != 2 or not isinstance(a[1], ast.Starred):
                _fail(st, "unsupported call of Provides")
            key = "(%s, %s)" % (self.expr(a[0], "clsref")[0], self.expr(a[1].value, "list")[0])
            self.env[name] = "prov"
            return "let '(s, %s) := gen_Provides g s %s in" % (cname, key)
        old = self.env.get(name)
        if isinstance(value, ast.Name) and value.id in self.env and self.env[value.id] in LISTY \
                and (value.id in self.mutated_lists or name in self.mutated_lists):
            # aliasing of a mutable list: the old name must be dead afterwards
            self.dead = getattr(self, "dead", set()) | {value.id}
        txt, kind = self.expr(value, old if old in ("optprov",) else None)
        if old is not None and old != kind and not (old in LISTY and kind in LISTY):
            _fail(st, "variable %s changes kind from %s to %s" % (name, old, kind))
        self.env[name] = kind
        return "let %s := %s in" % (cname, txt)

    def attr_assign(self, t, value, st):
        if not isinstance(t.value, ast.Name) or t.value.id not in self.env:
            _fail(st, "assignment to an attribute of something unknown")
        base, k = t.value.id, self.env[t.value.id]
        if k == "spec" and t.attr == "declared":
            return "let s := p_set_declared s %s %s in" % (base, self.expr(value, "list")[0])
        if k == "spec" and t.attr == "inherit":
            if not (isinstance(value, ast.Constant) and value.value is None):
                _fail(st, "spec.inherit assigned something other than None")
            return "let s := p_set_inherit_none s %s in" % base
        if k == "spec" and t.attr == "__bases__":
            return "let s := p_set_bases gen_Provides_changed g s %s %s in" % (base, self.expr(value, "list")[0])
        if k == "target" and t.attr == "__provides__":
            return "let s := p_set_provides s %s %s in" % (base.replace("object", "object_"), self.expr(value, "prov")[0])
        _fail(st, "assignment to unsupported attribute %s" % t.attr)

    def call_stmt(self, st):
        c = st.value
        f = c.func
        if c.keywords:
            _fail(st, "keyword arguments")
        if isinstance(f, ast.Attribute) and isinstance(f.value, ast.Name) and f.attr in ("append", "add") \
                and len(c.args) == 1:
            name = f.value.id
            if self.env.get(name) != "list":
                _fail(st, "%s of something that is not a local list" % f.attr)
            if name in getattr(self, "dead", set()):
                _fail(st, "mutation of an aliased list")
            v = self.expr(c.args[0], "node")[0]
            return ("let %s := %s ++ [%s] in" if f.attr == "append" else "let %s := %s :: %s in") % (
                (name, name, v) if f.attr == "append" else (name, v, name))
        if isinstance(f, ast.Attribute) and ast.unparse(f) == "super().changed" and len(c.args) == 1 \
                and self.env.get("self") == "prov":
            return "let s := p_super_changed s self %s in" % self.expr(c.args[0], "origin")[0]
        if isinstance(f, ast.Name) and f.id == "_classImplements_ordered" and len(c.args) == 3:
            return "let s := gen_classImplements_ordered g s %s %s %s in" % (
                self.expr(c.args[0], "spec")[0], self.expr(c.args[1], "list")[0], self.expr(c.args[2], "list")[0])
        if isinstance(f, ast.Name) and f.id == "directlyProvides" and len(c.args) >= 1:
            ob = self.expr(c.args[0], "target")[0]
            parts = []
            for a in c.args[1:]:
                if isinstance(a, ast.Starred):
                    parts.append(self.expr(a.value, "list")[0])
                else:
                    txt, k = self.expr(a)
                    if k == "decl":   # _normalizeargs expands a Declaration into its interfaces()
                        parts.append("(p_decl_interfaces %s)" % txt)
                    elif k in ("node", "spec"):
                        parts.append("[%s]" % txt)
                    else:
                        _fail(st, "argument of kind %s to directlyProvides" % k)
            return "let s := gen_directlyProvides g s %s (%s) in" % (ob, " ++ ".join(parts) if parts else "(@nil node)")
        _fail(st, "unsupported call statement")

    def loop(self, st, ind):
        pad = "  " * ind
        if st.type_comment or not isinstance(st.target, ast.Name):
            _fail(st, "unsupported loop header")
        var = st.target.id
        if var in self.env and var not in getattr(self, "loopvars", set()):
            _fail(st, "loop variable %s shadows another variable" % var)
        self.loopvars = getattr(self, "loopvars", set()) | {var}
        # for x in it: if c: body; break  else: other
        if st.orelse:
            if not (len(st.body) == 1 and isinstance(st.body[0], ast.If) and not st.body[0].orelse
                    and st.body[0].body and isinstance(st.body[0].body[-1], ast.Break)):
                _fail(st, "for/else that is not the search idiom")
            inner = st.body[0]
            found = inner.body[:-1]
            for x in ast.walk(ast.Module(body=list(found) + list(st.orelse), type_ignores=[])):
                if isinstance(x, ast.Name) and x.id == var:
                    _fail(st, "search loop uses its variable outside the condition")
                if isinstance(x, (ast.Break, ast.Continue, ast.For, ast.Return, ast.Raise)):
                    _fail(st, "unsupported statement in a search loop")
            it, k = self.expr(st.iter)
            if k != "list":
                _fail(st, "loop over a non-list")
            env0 = dict(self.env)
            self.env[var] = "node"
            cond = self.expr(inner.test, "bool")[0]
            self.env = dict(env0)
            vs = self.tup(self.env)
            a = self.block(list(found), lambda: self.val(vs), ind + 2)
            self.env = dict(env0)
            b = self.block(list(st.orelse), lambda: self.val(vs), ind + 2)
            self.env = env0
            return "let %s :=\n%s  if existsb (fun %s => %s) %s then\n%s\n%s  else\n%s in" % (
                self.pat(vs), pad, var, cond, it, a, pad, b)
        def scan(nodes, depth):
            for n in nodes:
                if isinstance(n, (ast.Return, ast.Raise)):
                    _fail(st, "return/raise in a loop")
                if isinstance(n, (ast.Break, ast.Continue)) and depth == 0:
                    _fail(st, "break/continue in a loop that is not the search idiom")
                if isinstance(n, ast.For):
                    scan(n.body, depth + 1)
                    scan(n.orelse, depth)
                elif isinstance(n, ast.If):
                    scan(n.body, depth)
                    scan(n.orelse, depth)
                elif isinstance(n, (ast.While, ast.Try, ast.With, ast.FunctionDef, ast.ClassDef)):
                    _fail(n, "unsupported statement in a loop")
        scan(st.body, 0)
        # for lst in a, b, c: for x in lst: body
        if isinstance(st.iter, ast.Tuple):
            if not (len(st.body) == 1 and isinstance(st.body[0], ast.For) and isinstance(st.body[0].iter, ast.Name)
                    and st.body[0].iter.id == var and not st.body[0].orelse and isinstance(st.body[0].target, ast.Name)):
                _fail(st, "loop over a tuple of lists that is not 'for l in a, b: for x in l:'")
            parts = []
            for x in st.iter.elts:
                t, k = self.expr(x)
                if k != "list":
                    _fail(st, "tuple element is not a list")
                parts.append(t)
            inner = st.body[0]
            for x in ast.walk(ast.Module(body=list(inner.body), type_ignores=[])):
                if isinstance(x, ast.Name) and x.id == var:
                    _fail(st, "inner loop body uses the outer variable")
            return self.fold(inner.target.id, "(" + " ++ ".join(parts) + ")", "node", inner.body, ind, inner)
        it, k = self.expr(st.iter)
        if k not in ("list", "cls_list"):
            _fail(st, "loop over a non-list")
        return self.fold(var, it, "node" if k == "list" else "clsref", st.body, ind, st)

    def fold(self, var, it, elem_kind, body, ind, node):
        pad = "  " * ind
        if var in self.env and var not in getattr(self, "loopvars", set()):
            _fail(node, "loop variable %s shadows another variable" % var)
        self.loopvars = getattr(self, "loopvars", set()) | {var}
        vs = self.tup(self.env)
        env0 = dict(self.env)
        self.env[var] = elem_kind
        b = self.block(list(body), lambda: self.val(vs), ind + 2)
        self.env = env0
        return "let %s :=\n%s  fold_left (fun %s %s =>\n%s)\n%s    %s %s in" % (
            self.pat(vs), pad, self.pat(vs), var, b, pad, it, self.val(vs))

    # ------------------------------------------------------------ whole function
    def translate(self):
        self.check_signature()
        stmts = list(self.node.body)

        def tails(block):
            for i, st in enumerate(block):
                if isinstance(st, (ast.Return, ast.Raise)) and i != len(block) - 1:
                    _fail(st, "unreachable statements after return/raise")
                if isinstance(st, (ast.If, ast.For)):
                    tails(st.body)
                    tails(st.orelse)
                elif isinstance(st, ast.Try) and self.name == "implementedBy":
                    tails(st.body)
                elif not isinstance(st, (ast.Return, ast.Raise, ast.Assign, ast.AugAssign, ast.Expr, ast.Delete, ast.Break)):
                    _fail(st, "unsupported statement")
        tails(stmts)
        self.analyse(stmts)
        self.returned = False
        header = []
        for v in self.tuple_vars:
            if v in self.mutated_lists and v not in self.env:
                header.append("  let %s := (@nil node) in" % v)
                self.env[v] = "list"
        for v in self.tuple_vars:
            if v not in self.mutated_lists and v not in self.env:
                pass   # must be bound before the first nested block that needs it (checked by Coq)
        body = self.block(stmts, lambda: self.fall_off(), 1)
        # a dead (aliased) list must not be read after the aliasing
        ps = " ".join("(%s : %s)" % (p.replace("object", "object_"), COQ_TYPE[k]) for p, k in
                      self.params + ([self.vararg] if self.vararg else []))
        rt = {"state": "kstate", "list": "list node", "decl": "list node", "state+prov": "kstate * kprov",
              "state+node": "kstate * node"}[self.returns]
        if self.name == "implementedBy":
            if header:
                _fail(self.node, "unexpected loop variables")
            return ("Fixpoint %s (fuel : nat) (g : igraph) (s : kstate) %s {struct fuel} : %s :=\n"
                    "  match fuel with\n  | 0 => (s, p_no_spec)\n  | S fuel =>\n%s\n  end." % (self.coq, ps, rt, body))
        return "Definition %s (g : igraph) (s : kstate) %s : %s :=\n%s\n%s." % (
            self.coq, ps, rt, "\n".join(header), body) if header else \
            "Definition %s (g : igraph) (s : kstate) %s : %s :=\n%s." % (self.coq, ps, rt, body)

    def fall_off(self):
        if self.returns != "state":
            _fail(self.node, "control can fall off the end of a function that returns a value")
        return "s"


def _check_alias_dead(fn):
    """after ``a = b`` between mutable lists, b must not be used again"""
    dead = getattr(fn, "dead", set())
    if not dead:
        return
    stmts = list(fn.node.body)
    for name in dead:
        seen_alias = False
        for st in stmts:
            for x in ast.walk(st):
                if isinstance(x, ast.Assign) and isinstance(x.value, ast.Name) and x.value.id == name:
                    seen_alias = True
                    marker = x
            if seen_alias:
                for x in ast.walk(st):
                    if isinstance(x, ast.Name) and x.id == name and getattr(x, "lineno", 0) > marker.lineno:
                        _fail(x, "list %s is used after being aliased" % name)


def _find(module):
    """locate the eleven definitions; every translated name must be defined exactly once"""
    found = {}

    def funcs_named(body, name):
        return [n for n in body if isinstance(n, ast.FunctionDef) and n.name == name]

    top = module.body
    for name in ("_classImplements_ordered", "classImplements", "classImplementsOnly", "classImplementsFirst",
                 "Provides", "directlyProvides", "alsoProvides", "noLongerProvides", "directlyProvidedBy"):
        fs = funcs_named(top, name)
        if len(fs) != 1:
            raise TranslationError("expected exactly one module-level def %s, found %d" % (name, len(fs)))
        found[name] = fs[0]
    classes = {n.name: n for n in top if isinstance(n, ast.ClassDef)}
    for cname, meth in (("Declaration", "_add_interfaces_to_cls"), ("Provides", "changed")):
        if cname not in classes:
            raise TranslationError("class %s not found" % cname)
        fs = funcs_named(classes[cname].body, meth)
        if len(fs) != 1:
            raise TranslationError("expected exactly one %s.%s, found %d (without it the inherited method runs)"
                                   % (cname, meth, len(fs)))
        found[meth] = fs[0]
    # the statement of implementedBy that gives a new class its ClassProvides
    fs = funcs_named(top, "implementedBy")
    if len(fs) != 1:
        raise TranslationError("expected exactly one module-level def implementedBy, found %d" % len(fs))
    want = "isinstance(cls, type) and '__provides__' not in cls.__dict__"
    ifs = [n for n in ast.walk(fs[0]) if isinstance(n, ast.If) and ast.unparse(n.test) == want]
    sets = [n for n in ast.walk(fs[0]) if isinstance(n, (ast.Assign, ast.AugAssign, ast.AnnAssign))
            and "__provides__" in ast.unparse(n.targets[0] if isinstance(n, ast.Assign) else n.target)]
    if len(ifs) != 1 or len(sets) != 1 or ifs[0].orelse or len(ifs[0].body) != 1 or ifs[0].body[0] is not sets[0]:
        raise TranslationError("implementedBy no longer installs cls.__provides__ in exactly one guarded statement "
                               "'if %s: cls.__provides__ = ...'" % want)
    if [a.arg for a in fs[0].args.args] != ["cls"]:
        _fail(fs[0], "unexpected parameters of implementedBy")
    synth = ast.FunctionDef(name="implementedBy_class_provides",
                            args=ast.arguments(posonlyargs=[], args=[ast.arg(arg="cls")], vararg=None, kwonlyargs=[],
                                               kw_defaults=[], kwarg=None, defaults=[]),
                            body=[ifs[0]], decorator_list=[], returns=None, type_comment=None)
    synth.lineno = ifs[0].lineno
    found["implementedBy_class_provides"] = synth
    found["implementedBy"] = fs[0]
    # the names the functions rely on are bound once, as expected
    binds = {}
    for n in ast.walk(module):
        if isinstance(n, ast.Assign):
            for t in n.targets:
                if isinstance(t, ast.Name):
                    binds.setdefault(t.id, []).append(ast.unparse(n.value))
    if binds.get("ProvidesClass") != ["Provides"]:
        raise TranslationError("ProvidesClass is not bound exactly once to the class Provides")
    if binds.get("InstanceDeclarations") != ["weakref.WeakValueDictionary()"]:
        raise TranslationError("InstanceDeclarations is not bound exactly once to a WeakValueDictionary")
    order = [n.name if not isinstance(n, ast.Assign) else
             (n.targets[0].id if isinstance(n.targets[0], ast.Name) else None) for n in top
             if isinstance(n, (ast.ClassDef, ast.FunctionDef, ast.Assign))]
    try:
        i_cls = [i for i, n in enumerate(top) if isinstance(n, ast.ClassDef) and n.name == "Provides"][0]
        i_alias = [i for i, n in enumerate(top) if isinstance(n, ast.Assign) and ast.unparse(n) == "ProvidesClass = Provides"][0]
        i_fn = [i for i, n in enumerate(top) if isinstance(n, ast.FunctionDef) and n.name == "Provides"][0]
    except IndexError:
        raise TranslationError("class Provides / ProvidesClass = Provides / def Provides not found")
    if not i_cls < i_alias < i_fn:
        raise TranslationError("ProvidesClass = Provides must sit between the class and the factory")
    del order
    # nobody rebinds a translated function afterwards
    for n in ast.walk(module):
        if isinstance(n, (ast.Assign, ast.AugAssign, ast.AnnAssign)):
            ts = n.targets if isinstance(n, ast.Assign) else [n.target]
            for t in ts:
                if isinstance(t, ast.Name) and t.id in found and t.id != "Provides" and n in top:
                    _fail(n, "%s is rebound" % t.id)
                if isinstance(t, ast.Attribute) and t.attr in ("changed", "_add_interfaces_to_cls"):
                    _fail(n, "%s is patched" % t.attr)
    for cname in ("Declaration", "Provides"):
        for n in classes[cname].body:
            if isinstance(n, (ast.Assign, ast.AugAssign, ast.AnnAssign)):
                ts = n.targets if isinstance(n, ast.Assign) else [n.target]
                for t in ts:
                    if isinstance(t, ast.Name) and t.id in ("changed", "_add_interfaces_to_cls"):
                        _fail(n, "%s is rebound in class %s" % (t.id, cname))
    return found


HEADER = """(* GENERATED by harness/translate/decl.py from %s -- do not edit.
   Regenerated on every run; Proofs/DeclKernel.v and the C01_generated_* theorems of
   Properties/C01.v are re-checked against it. *)
From Coq Require Import List Arith Bool.
Import ListNotations.
From ZI Require Import Lib.Util Model.DeclKernelPrims.
"""


EPILOGUE = """(* One declaration call of a history; [nl] = what _normalizeargs makes of the call's arguments
   (Model/Decl.v [nargs]).  Decorators are applied as calls: the translator checked that
   implementer.__call__ delegates to classImplements for a type, implementer_only.__call__ to
   classImplementsOnly and provider.__call__ to directlyProvides. *)
Definition gen_step (g : igraph) (s : kstate) (o : op) (nl : list iface) : kstate :=
  match o with
  | Implementer c _ | ClassImplements c _ => gen_classImplements g s (RClass c) (map NI nl)
  | ImplementerOnly c _ | ClassImplementsOnly c _ => gen_classImplementsOnly g s (RClass c) (map NI nl)
  | ClassImplementsFirst c i => gen_classImplementsFirst g s (RClass c) (NI i)
  | DirectlyProvides t _ | Provider t _ => gen_directlyProvides g s t (map NI nl)
  | AlsoProvides t _ => gen_alsoProvides g s t (map NI nl)
  | NoLongerProvides t i => gen_noLongerProvides g s t (NI i)
  | _ => s
  end.
"""

DELEGATES = {
    "implementer": ("if isinstance(ob, type):\n    classImplements(ob, *self.interfaces)\n    return ob", 0),
    "implementer_only": ("classImplementsOnly(ob, *self.interfaces)", -2),
    "provider": ("directlyProvides(ob, *self.interfaces)", 0),
}


def _check_delegates(module):
    classes = {n.name: n for n in module.body if isinstance(n, ast.ClassDef)}
    for cname, (want, pos) in DELEGATES.items():
        if cname not in classes:
            raise TranslationError("class %s not found" % cname)
        calls = [n for n in classes[cname].body if isinstance(n, ast.FunctionDef) and n.name == "__call__"]
        inits = [n for n in classes[cname].body if isinstance(n, ast.FunctionDef) and n.name == "__init__"]
        if len(calls) != 1 or len(inits) != 1:
            raise TranslationError("%s.__call__ / __init__ not found exactly once" % cname)
        if [a.arg for a in calls[0].args.args] != ["self", "ob"]:
            _fail(calls[0], "unexpected parameters of %s.__call__" % cname)
        if ast.unparse(inits[0].body[-1]) != "self.interfaces = interfaces" or inits[0].args.vararg is None \
                or inits[0].args.vararg.arg != "interfaces":
            _fail(inits[0], "%s.__init__ does not store *interfaces" % cname)
        body = [st for st in calls[0].body
                if not (isinstance(st, ast.Expr) and isinstance(st.value, ast.Constant))]
        try:
            got = ast.unparse(body[pos])
        except IndexError:
            got = ""
        if got != want:
            _fail(calls[0], "%s.__call__ no longer delegates as expected (found %r)" % (cname, got[:80]))
        if ast.unparse(body[-1]) != "return ob" and cname != "implementer":
            _fail(calls[0], "%s.__call__ does not return the object" % cname)


def translate_source(text, origin="declarations.py"):
    module = ast.parse(text)
    found = _find(module)
    _check_delegates(module)
    out = [HEADER % origin]
    for name in ORDER:
        fn = _Fn(name, found[name])
        out.append("(* %s, line %d *)" % (name, found[name].lineno))
        out.append(fn.translate())
        _check_alias_dead(fn)
        out.append("")
    out.append(EPILOGUE)
    return "\n".join(out)


def translate_file(path):
    with open(path) as fh:
        return translate_source(fh.read(), origin=path)


# The text of the kernel functions this framework was developed against (docstrings removed).
# Used only when the translation of the current source is refused, so that Proofs/DeclKernel.v
# and Properties/C01.v still have a kernel to compile against; the refusal itself is always
# reported as an error (the theorems are then NOT about the current source).
PINNED_SOURCE = r'''
@_use_c_impl
def implementedBy(cls):
    try:
        if isinstance(cls, super):
            return _implementedBy_super(cls)
        spec = cls.__dict__.get('__implemented__')
    except AttributeError:
        spec = getattr(cls, '__implemented__', None)
        if spec is None:
            spec = BuiltinImplementationSpecifications.get(cls)
            if spec is not None:
                return spec
            return _empty
        if spec.__class__ == Implements:
            return spec
        return Declaration(*_normalizeargs((spec,)))
    if isinstance(spec, Implements):
        return spec
    if spec is None:
        spec = BuiltinImplementationSpecifications.get(cls)
        if spec is not None:
            return spec
    spec_name = _implements_name(cls)
    if spec is not None:
        spec = (spec,)
        declared = tuple(_normalizeargs(spec))
        spec = Implements.named(spec_name, *declared)
        spec.inherit = None
        spec.declared = declared
        del cls.__implemented__
    else:
        try:
            bases = cls.__bases__
        except AttributeError:
            if not callable(cls):
                raise TypeError('ImplementedBy called for non-factory', cls)
            bases = ()
        spec = Implements.named(spec_name, *[implementedBy(c) for c in bases])
        spec.inherit = cls
    spec._implements_cls = cls
    try:
        cls.__implemented__ = spec
        if not hasattr(cls, '__providedBy__'):
            cls.__providedBy__ = objectSpecificationDescriptor
        if isinstance(cls, type) and '__provides__' not in cls.__dict__:
            cls.__provides__ = ClassProvides(cls, getattr(cls, '__class__', type(cls)))
    except TypeError:
        if not isinstance(cls, type):
            raise TypeError('ImplementedBy called for non-type', cls)
        BuiltinImplementationSpecifications[cls] = spec
    return spec


class Declaration(Specification):

    @staticmethod
    def _add_interfaces_to_cls(interfaces, cls):
        implemented_by_cls = implementedBy(cls)
        interfaces = tuple([iface for iface in interfaces if not implemented_by_cls.isOrExtends(iface)])
        return interfaces + (implemented_by_cls,)

def classImplementsOnly(cls, *interfaces):
    spec = implementedBy(cls)
    spec.declared = ()
    spec.inherit = None
    spec.__bases__ = ()
    _classImplements_ordered(spec, interfaces, ())

def classImplements(cls, *interfaces):
    spec = implementedBy(cls)
    interfaces = tuple(_normalizeargs(interfaces))
    before = []
    after = []
    for iface in interfaces:
        for b in spec.declared:
            if iface.extends(b):
                before.append(iface)
                break
        else:
            after.append(iface)
    _classImplements_ordered(spec, tuple(before), tuple(after))

def classImplementsFirst(cls, iface):
    spec = implementedBy(cls)
    _classImplements_ordered(spec, (iface,), ())

def _classImplements_ordered(spec, before=(), after=()):
    before = [x for x in before if not spec.isOrExtends(x) or (x is Interface and (not spec.declared))]
    after = [x for x in after if not spec.isOrExtends(x) or (x is Interface and (not spec.declared))]
    new_declared = []
    seen = set()
    for lst in (before, spec.declared, after):
        for b in lst:
            if b not in seen:
                new_declared.append(b)
                seen.add(b)
    spec.declared = tuple(new_declared)
    bases = new_declared
    if spec.inherit is not None:
        for c in spec.inherit.__bases__:
            b = implementedBy(c)
            if b not in seen:
                seen.add(b)
                bases.append(b)
    spec.__bases__ = tuple(bases)

class implementer:

    def __init__(self, *interfaces):
        self.interfaces = interfaces

    def __call__(self, ob):
        if isinstance(ob, type):
            classImplements(ob, *self.interfaces)
            return ob
        spec_name = _implements_name(ob)
        spec = Implements.named(spec_name, *self.interfaces)
        try:
            ob.__implemented__ = spec
        except AttributeError:
            raise TypeError("Can't declare implements", ob)
        return ob

class implementer_only:

    def __init__(self, *interfaces):
        self.interfaces = interfaces

    def __call__(self, ob):
        if isinstance(ob, (FunctionType, MethodType)):
            raise ValueError('The implementer_only decorator is not supported for methods or functions.')
        classImplementsOnly(ob, *self.interfaces)
        return ob

class Provides(Declaration):

    def changed(self, originally_changed):
        if originally_changed is not self:
            if InstanceDeclarations.get(self.__args) is self:
                del InstanceDeclarations[self.__args]
        super().changed(originally_changed)

ProvidesClass = Provides

InstanceDeclarations = weakref.WeakValueDictionary()

def Provides(*interfaces):
    spec = InstanceDeclarations.get(interfaces)
    if spec is None:
        spec = ProvidesClass(*interfaces)
        InstanceDeclarations[interfaces] = spec
    return spec

def directlyProvides(object, *interfaces):
    cls = getattr(object, '__class__', None)
    if cls is not None and getattr(cls, '__class__', None) is cls:
        if not isinstance(object, type):
            raise TypeError('Attempt to make an interface declaration on a non-descriptor-aware class')
    interfaces = _normalizeargs(interfaces)
    if cls is None:
        cls = type(object)
    if issubclass(cls, type):
        object.__provides__ = ClassProvides(object, cls, *interfaces)
    else:
        provides = object.__provides__ = Provides(cls, *interfaces)
        if issubclass(cls, ModuleType) and hasattr(object, '__name__'):
            provides._v_module_names += (object.__name__,)

def alsoProvides(object, *interfaces):
    directlyProvides(object, directlyProvidedBy(object), *interfaces)

def noLongerProvides(object, interface):
    directlyProvides(object, directlyProvidedBy(object) - interface)
    if interface.providedBy(object):
        raise ValueError('Can only remove directly provided interfaces.')

def directlyProvidedBy(object):
    provides = getattr(object, '__provides__', None)
    if provides is None or isinstance(provides, Implements):
        return _empty
    return Declaration(provides.__bases__[:-1])

class provider:

    def __init__(self, *interfaces):
        self.interfaces = interfaces

    def __call__(self, ob):
        directlyProvides(ob, *self.interfaces)
        return ob
'''


def pinned():
    return translate_source(PINNED_SOURCE, origin="<pinned copy in harness/translate/decl.py>")


if __name__ == "__main__":   # python -m harness.translate.decl /repo/src/zope/interface/declarations.py
    import sys
    print(translate_file(sys.argv[1]))
