"""Fail-closed translator: the declaration algebra of zope.interface -> ``coq/Gen/DeclAlgKernel.v``.

Translated from ``declarations.py``:
    Declaration.__init__ / __contains__ / __iter__ / flattened / __sub__ / __add__ / __radd__ /
    _add_interfaces_to_cls, _normalizeargs, directlyProvidedBy, alsoProvides, noLongerProvides
and from ``interface.py``:
    SpecificationBase.isOrExtends, Specification.interfaces / extends, InterfaceClass.interfaces

Value domain of the generated Gallina (vocabulary of Model/DeclAlg.v):

    node        an interface or class specification (``nat``)
    nodes       ``list node``: tuples / lists / sets / dict-used-as-set / generators of nodes
    obj         a Declaration-like object, represented by its ``__bases__`` (``decl = list node``);
                an interface used as the right operand of ``-`` is the one-element ``[i]``
    trees       ``list tree``: a ``*args`` tuple of declaration arguments
    state       ``option decl``: what ``getattr(object, '__provides__', None)`` finds on an object
    bool

What other objects do is abstract (Section variables of the generated file, instantiated with
the model's definitions in Proofs/DeclAlgKernel.v):

    o_interfaces d          d.interfaces()  /  iterating d          (obj)
    o_extends d x strict    d.extends(x, strict)                    (obj)
    o_iro d                 d.__iro__
    o_is_Implements d       isinstance(d, Implements)
    n_interfaces x          x.interfaces()                          (node)
    n_extends x y strict    x.extends(y, strict)
    n_isOrExtends x y       x.isOrExtends(y)
    n_bases x               x.__bases__
    n_in_implied x y        y in x._implied
    n_providedBy i st       i.providedBy(object)
    implementedBy c         implementedBy(cls)   (a class is represented by its specification)
    directlyProvides st ts  the state of ``object`` after directlyProvides(object, *ts)

Control flow: ``for`` loops become ``fold_left`` over the tuple of the variables the body
mutates (``.append`` -> ``++ [x]``, ``.add`` / ``d[k] = 1`` -> ``x ::``, ``yield`` -> the
output list), ``continue`` / ``if`` become conditionals, comprehensions become ``filter`` /
``map``, ``any`` becomes ``existsb``, the truth value of a list is ``nonempty``.

Only the AST shapes handled below are accepted; anything else raises ``TranslationError``
(the caller reports a broken tie and falls back to the pinned kernel, it never guesses).
"""
import ast


class TranslationError(Exception):
    pass


def _fail(node, why):
    raise TranslationError("%s at line %s: %s" % (why, getattr(node, "lineno", "?"),
                                                  ast.dump(node)[:160] if isinstance(node, ast.AST) else node))


def _is_name(n, name=None):
    return isinstance(n, ast.Name) and (name is None or n.id == name)


def _strip_doc(stmts):
    stmts = list(stmts)
    if stmts and isinstance(stmts[0], ast.Expr) and isinstance(stmts[0].value, ast.Constant) \
            and isinstance(stmts[0].value.value, str):
        stmts = stmts[1:]
    return stmts


def _plain_args(fn, names, defaults=0, vararg=None):
    a = fn.args
    if (a.kwarg or a.kwonlyargs or a.kw_defaults or getattr(a, "posonlyargs", None)
            or [x.arg for x in a.args] != list(names) or len(a.defaults) != defaults
            or (a.vararg.arg if a.vararg else None) != vararg):
        _fail(fn, "unexpected parameter list of %s" % fn.name)


OUT = "out_"          # the list a generator has yielded so far


class Env(dict):
    """python name -> (coq name, type)"""

    def bind(self, name, ty):
        e = Env(self)
        e[name] = ("v_" + name if name != OUT else OUT, ty)
        return e


class Tr:
    def __init__(self, extends_default):
        self.extends_default = extends_default      # default of Specification.extends(strict=...)

    # ------------------------------------------------------------------ coercions
    def to_nodes(self, node, txt, ty):
        if ty == "nodes":
            return txt
        if ty == "obj":            # iterating a Declaration is Declaration.__iter__
            return "(o_interfaces %s)" % txt
        _fail(node, "cannot iterate a value of type %s" % ty)

    def to_bool(self, node, txt, ty):
        if ty == "bool":
            return txt
        if ty == "nodes":          # truth value of a list / tuple
            return "(nonempty %s)" % txt
        _fail(node, "no truth value for type %s" % ty)

    def flag(self, node):
        """a literal used as the ``strict`` argument"""
        if isinstance(node, ast.Constant) and node.value in (True, False, 0, 1) and not isinstance(node.value, str):
            return "true" if node.value else "false"
        _fail(node, "strict argument must be a literal True/False/0/1")

    def star_args(self, args, env):
        """positional arguments of a ``f(*args)``-style call -> Coq ``list tree``"""
        parts = []
        for a in args:
            if isinstance(a, ast.Starred):
                t, ty = self.expr(a.value, env)
                if ty == "trees":
                    parts.append(t)
                elif ty in ("nodes", "obj"):
                    parts.append("(map Leaf %s)" % self.to_nodes(a, t, ty))
                else:
                    _fail(a, "cannot splice a value of type %s" % ty)
            else:
                t, ty = self.expr(a, env)
                if ty == "node":
                    parts.append("[Leaf %s]" % t)
                elif ty == "obj":
                    parts.append("[OfDecl %s]" % t)
                elif ty == "nodes":
                    parts.append("[Seq (map Leaf %s)]" % t)
                elif ty == "trees":
                    parts.append("[Seq %s]" % t)
                else:
                    _fail(a, "cannot pass a value of type %s as a declaration argument" % ty)
        if not parts:
            return "[]"
        return "(" + " ++ ".join(parts) + ")" if len(parts) > 1 else parts[0]

    # ------------------------------------------------------------------ expressions
    def expr(self, n, env):
        if isinstance(n, ast.Name):
            if n.id in env:
                return env[n.id]
            if n.id == "_empty" and env.get("@empty"):
                return ("([] : decl)", "obj")
            _fail(n, "unknown name %s" % n.id)
        if isinstance(n, ast.Constant):
            if n.value is True or n.value is False:
                return ("true" if n.value else "false", "bool")
            _fail(n, "unsupported constant")
        if isinstance(n, (ast.List, ast.Tuple)):
            if not isinstance(n.ctx, ast.Load):
                _fail(n, "tuple target")
            items = []
            for e in n.elts:
                t, ty = self.expr(e, env)
                if ty != "node":
                    _fail(e, "sequence display of non-nodes")
                items.append(t)
            return ("[" + "; ".join(items) + "]", "nodes")
        if isinstance(n, ast.Dict):
            if n.keys:
                _fail(n, "non-empty dict display")
            return ("[]", "nodes")          # a dict used as a set
        if isinstance(n, ast.Attribute):
            t, ty = self.expr(n.value, env)
            if n.attr == "__bases__":
                if ty == "obj":
                    return (t, "nodes")      # a declaration object IS its bases here
                if ty == "node":
                    return ("(n_bases %s)" % t, "nodes")
                if ty == "specself":
                    return ("v_self_bases", "nodes")
            if n.attr == "__iro__" and ty == "obj":
                return ("(o_iro %s)" % t, "nodes")
            _fail(n, "unsupported attribute .%s of a %s" % (n.attr, ty))
        if isinstance(n, ast.Subscript):
            t, ty = self.expr(n.value, env)
            sl = n.slice
            if ty != "nodes" or not isinstance(sl, ast.Slice) or sl.lower is not None or sl.step is not None:
                _fail(n, "only seq[:k] slices of node sequences")
            up = sl.upper
            if isinstance(up, ast.UnaryOp) and isinstance(up.op, ast.USub) and isinstance(up.operand, ast.Constant) \
                    and up.operand.value == 1:
                return ("(removelast %s)" % t, "nodes")
            if isinstance(up, ast.Constant) and isinstance(up.value, int) and not isinstance(up.value, bool) and up.value >= 0:
                return ("(firstn %d %s)" % (up.value, t), "nodes")
            _fail(n, "unsupported slice bound")
        if isinstance(n, ast.UnaryOp) and isinstance(n.op, ast.Not):
            t, ty = self.expr(n.operand, env)
            return ("(negb %s)" % self.to_bool(n.operand, t, ty), "bool")
        if isinstance(n, ast.BoolOp):
            op = {ast.And: "andb", ast.Or: "orb"}[type(n.op)]
            parts = []
            for v in n.values:
                t, ty = self.expr(v, env)
                parts.append(self.to_bool(v, t, ty))
            out = parts[-1]
            for p in reversed(parts[:-1]):
                out = "(%s %s %s)" % (op, p, out)
            return (out, "bool")
        if isinstance(n, ast.Compare):
            if len(n.ops) != 1:
                _fail(n, "chained comparison")
            op, right = n.ops[0], n.comparators[0]
            lt, lty = self.expr(n.left, env)
            if isinstance(op, (ast.In, ast.NotIn)):
                if lty != "node":
                    _fail(n, "membership test of a non-node")
                if isinstance(right, ast.Attribute) and right.attr == "_implied":
                    rt, rty = self.expr(right.value, env)
                    if rty != "node":
                        _fail(right, "._implied of a non-node")
                    res = "(n_in_implied %s %s)" % (rt, lt)
                else:
                    rt, rty = self.expr(right, env)
                    res = "(mem %s %s)" % (lt, self.to_nodes(right, rt, rty))
                return (res if isinstance(op, ast.In) else "(negb %s)" % res, "bool")
            if isinstance(op, (ast.Is, ast.IsNot, ast.Eq, ast.NotEq)):
                rt, rty = self.expr(right, env)
                if lty != "node" or rty != "node":
                    _fail(n, "identity / equality of non-nodes")
                res = "(Nat.eqb %s %s)" % (lt, rt)     # unique names: == on interfaces is identity
                return (res if isinstance(op, (ast.Is, ast.Eq)) else "(negb %s)" % res, "bool")
            _fail(n, "unsupported comparison")
        if isinstance(n, ast.BinOp):
            lt, lty = self.expr(n.left, env)
            rt, rty = self.expr(n.right, env)
            if isinstance(n.op, ast.Add) and lty == "nodes" and rty == "nodes":
                return ("(%s ++ %s)" % (lt, rt), "nodes")
            if isinstance(n.op, (ast.Add, ast.Sub)) and lty == "obj" and rty in ("obj", "node"):
                if rty == "node":
                    rt = "[%s]" % rt            # an interface as operand: the declaration of just it
                return ("(%s %s %s)" % ("gen_add" if isinstance(n.op, ast.Add) else "gen_sub", lt, rt), "obj")
            _fail(n, "unsupported binary operation")
        if isinstance(n, (ast.ListComp, ast.GeneratorExp)):
            return self.comprehension(n, env)
        if isinstance(n, ast.Call):
            return self.call(n, env)
        _fail(n, "unsupported expression")

    def comprehension(self, n, env):
        if len(n.generators) != 1:
            _fail(n, "nested generators")
        g = n.generators[0]
        if g.is_async or not _is_name(g.target):
            _fail(n, "unsupported comprehension target")
        it, ity = self.expr(g.iter, env)
        src = self.to_nodes(g.iter, it, ity)
        env2 = env.bind(g.target.id, "node")
        var = env2[g.target.id][0]
        conds = []
        for c in g.ifs:
            t, ty = self.expr(c, env2)
            conds.append(self.to_bool(c, t, ty))
        if conds:
            cond = conds[-1]
            for c in reversed(conds[:-1]):
                cond = "(andb %s %s)" % (c, cond)
            src = "(filter (fun %s => %s) %s)" % (var, cond, src)
        et, ety = self.expr(n.elt, env2)
        if et == var and ety == "node":
            return (src, "nodes")
        if ety == "node":
            return ("(map (fun %s => %s) %s)" % (var, et, src), "nodes")
        if ety == "bool":
            return ("(map (fun %s => %s) %s)" % (var, et, src), "bools")
        _fail(n, "unsupported comprehension element")

    def call(self, n, env):
        if n.keywords:
            _fail(n, "keyword arguments")
        f = n.func
        if isinstance(f, ast.Attribute):
            t, ty = self.expr(f.value, env)
            args = n.args
            if f.attr == "interfaces" and not args:
                if ty == "obj":
                    return ("(o_interfaces %s)" % t, "nodes")
                if ty == "node":
                    return ("(n_interfaces %s)" % t, "nodes")
            if f.attr == "extends" and len(args) in (1, 2) and not any(isinstance(a, ast.Starred) for a in args):
                at, aty = self.expr(args[0], env)
                if aty != "node":
                    _fail(n, "extends() of a non-node")
                strict = self.flag(args[1]) if len(args) == 2 else self.extends_default
                if ty == "obj":
                    return ("(o_extends %s %s %s)" % (t, at, strict), "bool")
                if ty == "node":
                    return ("(n_extends %s %s %s)" % (t, at, strict), "bool")
            if f.attr == "isOrExtends" and len(args) == 1 and ty == "node":
                at, aty = self.expr(args[0], env)
                if aty != "node":
                    _fail(n, "isOrExtends() of a non-node")
                return ("(n_isOrExtends %s %s)" % (t, at), "bool")
            if f.attr == "providedBy" and len(args) == 1 and ty == "node":
                at, aty = self.expr(args[0], env)
                if aty != "state":
                    _fail(n, "providedBy() of something that is not the object")
                return ("(n_providedBy %s %s)" % (t, at), "bool")
            _fail(n, "unsupported method call .%s on a %s" % (f.attr, ty))
        if not isinstance(f, ast.Name):
            _fail(n, "unsupported callee")
        if f.id in env:
            _fail(n, "call of a local name")
        if f.id in ("list", "tuple", "set", "iter") and len(n.args) == 1 and not isinstance(n.args[0], ast.Starred):
            t, ty = self.expr(n.args[0], env)
            return (self.to_nodes(n.args[0], t, ty), "nodes")
        if f.id == "any" and len(n.args) == 1 and isinstance(n.args[0], ast.GeneratorExp):
            t, ty = self.comprehension(n.args[0], env)
            if ty != "bools" or not t.startswith("(map "):
                _fail(n, "any() of something that is not a generator of tests")
            return ("(existsb" + t[len("(map"):], "bool")
        if f.id == "Declaration":
            return ("(gen_Declaration %s)" % self.star_args(n.args, env), "obj")
        if f.id == "implementedBy" and len(n.args) == 1:
            t, ty = self.expr(n.args[0], env)
            if ty != "node":
                _fail(n, "implementedBy() of a non-class")
            return ("(implementedBy %s)" % t, "node")
        if f.id == "directlyProvidedBy" and len(n.args) == 1:
            t, ty = self.expr(n.args[0], env)
            if ty != "state":
                _fail(n, "directlyProvidedBy() of something that is not the object")
            return ("(gen_directlyProvidedBy %s)" % t, "obj")
        if f.id == "isinstance" and len(n.args) == 2 and _is_name(n.args[1], "Implements"):
            t, ty = self.expr(n.args[0], env)
            if ty != "obj":
                _fail(n, "isinstance(_, Implements) of a non-declaration")
            return ("(o_is_Implements %s)" % t, "bool")
        _fail(n, "unsupported function call %s" % f.id)

    # ------------------------------------------------------------------ statements
    def mutated(self, stmts, env):
        """names (already bound) that the statements rebind or mutate, in order of first use"""
        found = []

        def add(name):
            if name in env and name not in found:
                found.append(name)

        def walk(ss):
            for s in ss:
                if isinstance(s, ast.Assign):
                    for t in s.targets:
                        if _is_name(t):
                            add(t.id)
                        elif isinstance(t, ast.Subscript) and _is_name(t.value):
                            add(t.value.id)
                        else:
                            _fail(s, "unsupported assignment target")
                elif isinstance(s, ast.Expr):
                    v = s.value
                    if isinstance(v, ast.Yield):
                        add(OUT)
                    elif isinstance(v, ast.Call) and isinstance(v.func, ast.Attribute) and _is_name(v.func.value) \
                            and v.func.attr in ("append", "add"):
                        add(v.func.value.id)
                    elif isinstance(v, ast.Call) and _is_name(v.func, "_normalizeargs") and len(v.args) == 2 \
                            and _is_name(v.args[1]):
                        add(v.args[1].id)
                    elif isinstance(v, ast.Call) and _is_name(v.func, "directlyProvides") and v.args and _is_name(v.args[0]):
                        add(v.args[0].id)
                elif isinstance(s, ast.For):
                    walk(s.body)
                elif isinstance(s, ast.If):
                    walk(s.body)
                    walk(s.orelse)
        walk(stmts)
        return found

    @staticmethod
    def pattern(env, names):
        vs = [env[x][0] for x in names]
        if len(vs) == 1:
            return vs[0], vs[0]
        tup = "(" + ", ".join(vs) + ")"
        return "'" + tup, tup

    def block(self, stmts, env, tail, ind):
        """-> Coq expression for the statements; ``tail(env)`` is the value of falling off the end
        (and of ``continue``)."""
        pad = "  " * ind
        if not stmts:
            return pad + tail(env)
        s, rest = stmts[0], list(stmts[1:])
        if isinstance(s, ast.Pass):
            return self.block(rest, env, tail, ind)
        if isinstance(s, ast.Continue):
            if rest:
                _fail(rest[0], "statement after continue")
            return pad + tail(env)
        if isinstance(s, ast.Return):
            if rest:
                _fail(rest[0], "statement after return")
            if "@ret" not in env:
                _fail(s, "return not allowed here")
            if s.value is None:
                _fail(s, "bare return")
            t, ty = self.expr(s.value, env)
            want = env["@ret"]
            if want == "nodes":
                t = self.to_nodes(s.value, t, ty)
            elif want == "bool":
                t = self.to_bool(s.value, t, ty)
            elif ty != want:
                _fail(s, "returns a %s where a %s is expected" % (ty, want))
            return pad + t
        if isinstance(s, ast.Raise):
            if rest or "@proc" not in env:
                _fail(s, "raise not allowed here")
            e = s.exc
            if not (isinstance(e, ast.Call) and _is_name(e.func, "ValueError")):
                _fail(s, "only raise ValueError(...)")
            return pad + "(%s, true)" % env[env["@proc"]][0]
        if isinstance(s, ast.Assign):
            if len(s.targets) != 1:
                _fail(s, "multiple assignment")
            tg = s.targets[0]
            if _is_name(tg):
                if tg.id.startswith("@") or (tg.id in env and env[tg.id][1] in ("state", "specself")):
                    _fail(s, "rebinding of %s" % tg.id)
                t, ty = self.expr(s.value, env)
                if ty not in ("node", "nodes", "obj", "bool"):
                    _fail(s, "cannot bind a value of type %s" % ty)
                env2 = env.bind(tg.id, ty)
                return "%slet %s := %s in\n%s" % (pad, env2[tg.id][0], t, self.block(rest, env2, tail, ind))
            if isinstance(tg, ast.Subscript) and _is_name(tg.value) and tg.value.id in env \
                    and env[tg.value.id][1] == "nodes" and isinstance(s.value, ast.Constant) and s.value.value == 1:
                k, kty = self.expr(tg.slice, env)       # d[k] = 1 : a dict used as a set
                if kty != "node":
                    _fail(s, "set element is not a node")
                v = env[tg.value.id][0]
                return "%slet %s := %s :: %s in\n%s" % (pad, v, k, v, self.block(rest, env, tail, ind))
            _fail(s, "unsupported assignment")
        if isinstance(s, ast.Expr):
            v = s.value
            if isinstance(v, ast.Constant) and isinstance(v.value, str):
                return self.block(rest, env, tail, ind)
            if isinstance(v, ast.Yield):
                if OUT not in env or v.value is None:
                    _fail(s, "yield outside a generator")
                t, ty = self.expr(v.value, env)
                if ty != "node":
                    _fail(s, "yield of a non-node")
                return "%slet %s := %s ++ [%s] in\n%s" % (pad, OUT, OUT, t, self.block(rest, env, tail, ind))
            if isinstance(v, ast.Call) and not v.keywords:
                f = v.func
                if isinstance(f, ast.Attribute) and _is_name(f.value) and f.attr in ("append", "add") and len(v.args) == 1:
                    if f.value.id not in env or env[f.value.id][1] != "nodes":
                        _fail(s, "%s on something that is not a node sequence" % f.attr)
                    t, ty = self.expr(v.args[0], env)
                    if ty != "node":
                        _fail(s, "%s of a non-node" % f.attr)
                    x = env[f.value.id][0]
                    new = "%s ++ [%s]" % (x, t) if f.attr == "append" else "%s :: %s" % (t, x)
                    return "%slet %s := %s in\n%s" % (pad, x, new, self.block(rest, env, tail, ind))
                if _is_name(f, "_normalizeargs") and len(v.args) == 2 and _is_name(v.args[1]) \
                        and env.get(v.args[1].id, (None, None))[1] == "nodes" and "@normcall" in env:
                    x = env[v.args[1].id][0]
                    t, ty = self.expr(v.args[0], env)
                    new = env["@normcall"](t, ty, x, env)
                    return "%slet %s := %s in\n%s" % (pad, x, new, self.block(rest, env, tail, ind))
                if _is_name(f, "directlyProvides") and v.args and _is_name(v.args[0]) \
                        and env.get(v.args[0].id, (None, None))[1] == "state" and env.get("@proc") == v.args[0].id:
                    x = env[v.args[0].id][0]
                    return "%slet %s := directlyProvides %s %s in\n%s" % (
                        pad, x, x, self.star_args(v.args[1:], env), self.block(rest, env, tail, ind))
            _fail(s, "unsupported expression statement")
        if isinstance(s, ast.For):
            if s.orelse or not _is_name(s.target):
                _fail(s, "unsupported for statement")
            it, ity = self.expr(s.iter, env)
            if ity == "trees":
                src, vty = it, "tree"
            else:
                src, vty = self.to_nodes(s.iter, it, ity), "node"
            names = self.mutated(s.body, env)
            if not names:
                _fail(s, "loop without effect")
            envb = env.bind(s.target.id, vty)
            for k in ("@ret",):
                envb.pop(k, None)        # no return from inside a loop
            pat, tup = self.pattern(env, names)
            body = self.block(list(s.body), envb, lambda e: self.pattern(e, names)[1], ind + 2)
            return "%slet %s :=\n%s  fold_left (fun %s %s =>\n%s)\n%s    %s %s in\n%s" % (
                pad, pat, pad, pat, envb[s.target.id][0], body, pad, src, tup, self.block(rest, env, tail, ind))
        if isinstance(s, ast.If):
            t, ty = self.expr(s.test, env)
            c = self.to_bool(s.test, t, ty)
            def seq(branch):
                branch = list(branch)
                ends = branch and isinstance(branch[-1], (ast.Continue, ast.Return, ast.Raise))
                return branch if ends else branch + rest
            a = self.block(seq(s.body), env, tail, ind + 1)
            b = self.block(seq(s.orelse), env, tail, ind + 1)
            return "%sif %s then\n%s\n%selse\n%s" % (pad, c, a, pad, b)
        _fail(s, "unsupported statement")


# --------------------------------------------------------------------------- locating the sources

def _find_class(mod, name):
    found = [n for n in mod.body if isinstance(n, ast.ClassDef) and n.name == name]
    if len(found) != 1:
        raise TranslationError("expected exactly one class %s, found %d" % (name, len(found)))
    return found[0]


def _find_def(body, name, owner, decorators=()):
    found = [n for n in body if isinstance(n, (ast.FunctionDef, ast.AsyncFunctionDef)) and n.name == name]
    if len(found) != 1 or not isinstance(found[0], ast.FunctionDef):
        raise TranslationError("expected exactly one def %s in %s, found %d" % (name, owner, len(found)))
    fn = found[0]
    decs = [d.id if isinstance(d, ast.Name) else "?" for d in fn.decorator_list]
    if decs != list(decorators):
        _fail(fn, "unexpected decorators %r on %s" % (decs, name))
    # nobody else in that scope may bind the name
    for n in body:
        if isinstance(n, ast.Assign):
            for t in n.targets:
                if _is_name(t, name):
                    _fail(n, "%s is rebound in %s" % (name, owner))
    return fn


TRANSLATED_ATTRS = {"__init__", "__contains__", "__iter__", "flattened", "__sub__", "__add__", "__radd__",
                    "_add_interfaces_to_cls", "interfaces", "extends", "isOrExtends"}


def _no_foreign_rebinding(mod, cls_names, func_names):
    """``Declaration.__sub__ = ...`` / ``setattr`` style patching anywhere in the module, or a second
    module-level binding of a translated function, would make the translated text irrelevant."""
    for n in ast.walk(mod):
        if isinstance(n, (ast.Assign, ast.AugAssign, ast.AnnAssign)):
            targets = n.targets if isinstance(n, ast.Assign) else [n.target]
            for t in targets:
                if isinstance(t, ast.Attribute) and _is_name(t.value) and t.value.id in cls_names \
                        and t.attr in TRANSLATED_ATTRS:
                    _fail(n, "%s.%s is patched after the class definition" % (t.value.id, t.attr))
        if isinstance(n, ast.Call) and _is_name(n.func, "setattr") and n.args and _is_name(n.args[0]) \
                and n.args[0].id in cls_names:
            _fail(n, "class %s is patched with setattr" % n.args[0].id)
    for n in mod.body:
        if isinstance(n, ast.Assign):
            for t in n.targets:
                if _is_name(t) and t.id in func_names:
                    _fail(n, "module-level rebinding of %s" % t.id)


# --------------------------------------------------------------------------- the functions

def _simple(tr, fn, params, ret, name, generator=False, proc=None, empty=False):
    """a function whose body is made of the generic statements"""
    env = Env()
    binders = []
    for p, ty in params:
        if ty == "specself":
            env[p] = ("v_self", "specself")
            binders.append("(v_self_bases : list node)")
        else:
            env = env.bind(p, ty)
            cty = {"node": "node", "nodes": "list node", "obj": "decl", "bool": "bool", "trees": "list tree",
                   "state": "option decl"}[ty]
            binders.append("(%s : %s)" % (env[p][0], cty))
    if empty:
        env["@empty"] = True
    body = _strip_doc(fn.body)
    if generator:
        env = env.bind(OUT, "nodes")
        text = "  let %s := ([] : list node) in\n" % OUT + tr.block(body, env, lambda e: OUT, 1)
        rty = "list node"
    elif proc:
        env["@proc"] = proc
        text = tr.block(body, env, lambda e: "(%s, false)" % e[proc][0], 1)
        rty = "option decl * bool"
    else:
        env["@ret"] = ret

        def off_the_end(e):
            _fail(fn, "%s can fall off its end" % fn.name)
        text = tr.block(body, env, off_the_end, 1)
        rty = {"nodes": "list node", "bool": "bool", "obj": "decl"}[ret]
    return "Definition %s %s : %s :=\n%s." % (name, " ".join(binders), rty, text)


def _normalizeargs(tr, fn):
    _plain_args(fn, ["sequence", "output"], defaults=1)
    d = fn.args.defaults[0]
    if not (isinstance(d, ast.Constant) and d.value is None):
        _fail(fn, "default of output is not None")
    body = _strip_doc(fn.body)
    if len(body) != 4:
        _fail(fn, "unexpected body of _normalizeargs")
    s0, s1, s2, s3 = body
    ok0 = (isinstance(s0, ast.If) and not s0.orelse and isinstance(s0.test, ast.Compare) and len(s0.test.ops) == 1
           and isinstance(s0.test.ops[0], ast.Is) and _is_name(s0.test.left, "output")
           and isinstance(s0.test.comparators[0], ast.Constant) and s0.test.comparators[0].value is None
           and len(s0.body) == 1 and isinstance(s0.body[0], ast.Assign) and _is_name(s0.body[0].targets[0], "output")
           and isinstance(s0.body[0].value, ast.List) and not s0.body[0].value.elts)
    if not ok0:
        _fail(s0, "expected `if output is None: output = []`")
    ok1 = (isinstance(s1, ast.Assign) and len(s1.targets) == 1 and _is_name(s1.targets[0], "cls")
           and isinstance(s1.value, ast.Attribute) and s1.value.attr == "__class__" and _is_name(s1.value.value, "sequence"))
    if not ok1:
        _fail(s1, "expected `cls = sequence.__class__`")

    def mro_test(t, cname):
        return (isinstance(t, ast.Compare) and len(t.ops) == 1 and isinstance(t.ops[0], ast.In) and _is_name(t.left, cname)
                and isinstance(t.comparators[0], ast.Attribute) and t.comparators[0].attr == "__mro__"
                and _is_name(t.comparators[0].value, "cls"))
    ok2 = (isinstance(s2, ast.If) and isinstance(s2.test, ast.BoolOp) and isinstance(s2.test.op, ast.Or)
           and len(s2.test.values) == 2
           and sorted(c for c in ("InterfaceClass", "Implements") if any(mro_test(v, c) for v in s2.test.values))
           == ["Implements", "InterfaceClass"])
    if not ok2:
        _fail(s2, "expected `if InterfaceClass in cls.__mro__ or Implements in cls.__mro__:`")
    if not (isinstance(s3, ast.Return) and _is_name(s3.value, "output")):
        _fail(s3, "expected `return output`")
    if len(s2.orelse) != 1 or not isinstance(s2.orelse[0], ast.For) or not _is_name(s2.orelse[0].iter, "sequence"):
        _fail(s2, "expected `else: for v in sequence: ...`")

    def tail(e):
        return e["output"][0]

    # the argument is an interface / class specification: the class test is true
    def leaf_block(var_txt, env, ind):
        e = Env(env)
        e["sequence"] = (var_txt, "node")
        e.pop("@normcall", None)
        return tr.block(list(s2.body), e, tail, ind)

    base = Env().bind("output", "nodes")

    # the argument is a tuple / list: the loop variable is again an arbitrary argument
    def call_tree(t, ty, out, env):
        if ty != "tree":
            _fail(s2, "recursive call on a %s" % ty)
        return "gen_normalizeargs %s %s" % (t, out)
    e_seq = Env(base)
    e_seq["sequence"] = ("v_sequence", "trees")
    e_seq["@normcall"] = call_tree
    seq_case = tr.block(list(s2.orelse), e_seq, tail, 3)

    # the argument is a Declaration: iterating it yields interfaces, for which the recursive
    # call takes the first branch
    def call_leaf(t, ty, out, env):
        if ty != "node":
            _fail(s2, "recursive call on a %s" % ty)
        e = Env(env)
        e["output"] = (out, "nodes")
        return "(\n%s)" % leaf_block(t, e, 5)
    e_decl = Env(base)
    e_decl["sequence"] = ("v_sequence", "obj")
    e_decl["@normcall"] = call_leaf
    decl_case = tr.block(list(s2.orelse), e_decl, tail, 3)

    leaf_case = leaf_block("v_sequence", base, 3)
    return ("Fixpoint gen_normalizeargs (v_sequence : tree) (v_output : list node) {struct v_sequence} : list node :=\n"
            "  match v_sequence with\n"
            "  | Leaf v_sequence =>\n%s\n"
            "  | Seq v_sequence =>\n%s\n"
            "  | OfDecl v_sequence =>\n%s\n"
            "  end." % (leaf_case, seq_case, decl_case))


def _declaration_init(fn):
    _plain_args(fn, ["self"], vararg="bases")
    body = _strip_doc(fn.body)
    ok = (len(body) == 1 and isinstance(body[0], ast.Expr) and isinstance(body[0].value, ast.Call))
    if ok:
        c = body[0].value
        f = c.func
        ok = (isinstance(f, ast.Attribute) and f.attr == "__init__" and _is_name(f.value, "Specification")
              and not c.keywords and len(c.args) == 2 and _is_name(c.args[0], "self")
              and isinstance(c.args[1], ast.Call) and _is_name(c.args[1].func, "_normalizeargs")
              and not c.args[1].keywords and len(c.args[1].args) == 1 and _is_name(c.args[1].args[0], "bases"))
    if not ok:
        _fail(fn, "expected `Specification.__init__(self, _normalizeargs(bases))`")
    # the *bases tuple is itself the sequence handed to _normalizeargs; output defaults to []
    return ("Definition gen_Declaration (v_bases : list tree) : decl :=\n"
            "  gen_normalizeargs (Seq v_bases) [].")


def _directly_provided_by(tr, fn):
    _plain_args(fn, ["object"])
    body = _strip_doc(fn.body)
    if len(body) != 3:
        _fail(fn, "unexpected body of directlyProvidedBy")
    s0, s1, s2 = body
    ok0 = (isinstance(s0, ast.Assign) and len(s0.targets) == 1 and _is_name(s0.targets[0], "provides")
           and isinstance(s0.value, ast.Call) and _is_name(s0.value.func, "getattr") and not s0.value.keywords
           and len(s0.value.args) == 3 and _is_name(s0.value.args[0], "object")
           and isinstance(s0.value.args[1], ast.Constant) and s0.value.args[1].value == "__provides__"
           and isinstance(s0.value.args[2], ast.Constant) and s0.value.args[2].value is None)
    if not ok0:
        _fail(s0, "expected `provides = getattr(object, '__provides__', None)`")
    t = s1.test if isinstance(s1, ast.If) else None
    ok1 = (t is not None and not s1.orelse and isinstance(t, ast.BoolOp) and isinstance(t.op, ast.Or) and len(t.values) == 2
           and isinstance(t.values[0], ast.Compare) and len(t.values[0].ops) == 1 and isinstance(t.values[0].ops[0], ast.Is)
           and _is_name(t.values[0].left, "provides") and isinstance(t.values[0].comparators[0], ast.Constant)
           and t.values[0].comparators[0].value is None)
    if not ok1:
        _fail(s1, "expected `if provides is None or <test>: return ...`")
    env = Env().bind("provides", "obj")
    env["@ret"] = "obj"
    env["@empty"] = True

    def off(e):
        _fail(fn, "directlyProvidedBy can fall off its end")
    none_case = tr.block(list(s1.body), Env({"@ret": "obj", "@empty": True}), off, 3)
    ct, cty = tr.expr(t.values[1], env)
    cond = tr.to_bool(t.values[1], ct, cty)
    then = tr.block(list(s1.body), env, off, 4)
    rest = tr.block([s2], env, off, 4)
    return ("Definition gen_directlyProvidedBy (v_object : option decl) : decl :=\n"
            "  (* provides = getattr(object, '__provides__', None) *)\n"
            "  match v_object with\n"
            "  | None =>\n%s\n"
            "  | Some v_provides =>\n"
            "      if %s then\n%s\n"
            "      else\n%s\n"
            "  end." % (none_case, cond, then, rest))


HEADER = """(* GENERATED by harness/translate/declalg.py from
     %s
     %s
   -- do not edit.  Regenerated on every run; Proofs/DeclAlgKernel.v and the
   C20_generated_*_eq_model theorems of Properties/C20.v are re-checked against this text.
   Vocabulary and conventions: see the translator's docstring. *)
From Coq Require Import List Arith Bool.
Import ListNotations.
From ZI Require Import Model.Ro Model.DeclAlg.

Section Kernel.
  Variable o_interfaces : decl -> list node.
  Variable o_extends : decl -> node -> bool -> bool.
  Variable o_iro : decl -> list node.
  Variable o_is_Implements : decl -> bool.
  Variable n_interfaces : node -> list node.
  Variable n_extends : node -> node -> bool -> bool.
  Variable n_isOrExtends : node -> node -> bool.
  Variable n_bases : node -> list node.
  Variable n_in_implied : node -> node -> bool.
  Variable n_providedBy : node -> option decl -> bool.
  Variable implementedBy : node -> node.
  Variable directlyProvides : option decl -> list tree -> option decl.
"""


def translate_sources(decl_text, iface_text, origin=("declarations.py", "interface.py")):
    dmod = ast.parse(decl_text)
    imod = ast.parse(iface_text)
    _no_foreign_rebinding(dmod, {"Declaration"}, {"_normalizeargs", "directlyProvidedBy", "alsoProvides",
                                                   "noLongerProvides", "directlyProvides"})
    _no_foreign_rebinding(imod, {"Specification", "SpecificationBase", "InterfaceClass"}, set())

    spec = _find_class(imod, "Specification")
    specbase = _find_class(imod, "SpecificationBase")
    icls = _find_class(imod, "InterfaceClass")
    decl = _find_class(dmod, "Declaration")
    if [getattr(b, "id", None) for b in decl.bases] != ["Specification"]:
        _fail(decl, "Declaration no longer derives from Specification only")
    if [getattr(b, "id", None) for b in spec.bases] != ["SpecificationBase"]:
        _fail(spec, "Specification no longer derives from SpecificationBase only")

    # Specification.extends: the default of ``strict`` is needed at every call site
    ext = _find_def(spec.body, "extends", "Specification")
    _plain_args(ext, ["self", "interface", "strict"], defaults=1)
    d = ext.args.defaults[0]
    if not (isinstance(d, ast.Constant) and (d.value is True or d.value is False)):
        _fail(ext, "default of strict is not a literal bool")
    tr = Tr("true" if d.value else "false")

    # Declaration must not override what it inherits from Specification / SpecificationBase
    inherited = {"interfaces", "extends", "isOrExtends"}
    for n in decl.body:
        if isinstance(n, ast.FunctionDef) and n.name in inherited:
            _fail(n, "Declaration overrides %s" % n.name)
        if isinstance(n, ast.Assign) and any(_is_name(t) and t.id in inherited for t in n.targets):
            _fail(n, "Declaration rebinds an inherited method")
    for n in spec.body:
        if isinstance(n, ast.FunctionDef) and n.name == "isOrExtends":
            _fail(n, "Specification overrides isOrExtends")
        if isinstance(n, ast.Assign) and any(_is_name(t, "isOrExtends") for t in n.targets):
            v = n.value       # ``isOrExtends = SpecificationBase.isOrExtends`` (a speed copy) is fine
            if not (isinstance(v, ast.Attribute) and v.attr == "isOrExtends" and _is_name(v.value, "SpecificationBase")):
                _fail(n, "Specification rebinds isOrExtends")

    empty_ok = any(isinstance(n, ast.Assign) and len(n.targets) == 1 and _is_name(n.targets[0], "_empty")
                   and isinstance(n.value, ast.Call) and _is_name(n.value.func, "_ImmutableDeclaration")
                   and not n.value.args and not n.value.keywords for n in dmod.body)
    if not empty_ok or sum(1 for n in ast.walk(dmod) if isinstance(n, ast.Name) and n.id == "_empty"
                           and isinstance(n.ctx, ast.Store)) != 1:
        raise TranslationError("_empty is not the single _ImmutableDeclaration() instance any more")

    defs = []

    f = _find_def(specbase.body, "isOrExtends", "SpecificationBase")
    _plain_args(f, ["self", "interface"])
    defs.append(_simple(tr, f, [("self", "node"), ("interface", "node")], "bool", "gen_isOrExtends"))

    defs.append(_simple(tr, ext, [("self", "node"), ("interface", "node"), ("strict", "bool")], "bool", "gen_extends"))

    f = _find_def(spec.body, "interfaces", "Specification")
    _plain_args(f, ["self"])
    defs.append(_simple(tr, f, [("self", "specself")], None, "gen_Specification_interfaces", generator=True))

    f = _find_def(icls.body, "interfaces", "InterfaceClass")
    _plain_args(f, ["self"])
    defs.append(_simple(tr, f, [("self", "node")], None, "gen_InterfaceClass_interfaces", generator=True))

    defs.append(_normalizeargs(tr, _find_def(dmod.body, "_normalizeargs", "declarations.py")))
    defs.append(_declaration_init(_find_def(decl.body, "__init__", "Declaration")))

    f = _find_def(decl.body, "__contains__", "Declaration")
    _plain_args(f, ["self", "interface"])
    defs.append(_simple(tr, f, [("self", "obj"), ("interface", "node")], "bool", "gen_contains"))

    f = _find_def(decl.body, "__iter__", "Declaration")
    _plain_args(f, ["self"])
    defs.append(_simple(tr, f, [("self", "obj")], "nodes", "gen_iter"))

    f = _find_def(decl.body, "flattened", "Declaration")
    _plain_args(f, ["self"])
    defs.append(_simple(tr, f, [("self", "obj")], "nodes", "gen_flattened"))

    f = _find_def(decl.body, "__sub__", "Declaration")
    _plain_args(f, ["self", "other"])
    defs.append(_simple(tr, f, [("self", "obj"), ("other", "obj")], "obj", "gen_sub"))

    f = _find_def(decl.body, "__add__", "Declaration")
    _plain_args(f, ["self", "other"])
    defs.append(_simple(tr, f, [("self", "obj"), ("other", "obj")], "obj", "gen_add"))

    # __radd__ = __add__
    radd = [n for n in decl.body if (isinstance(n, ast.Assign) and any(_is_name(t, "__radd__") for t in n.targets))
            or (isinstance(n, ast.FunctionDef) and n.name == "__radd__")]
    if not (len(radd) == 1 and isinstance(radd[0], ast.Assign) and len(radd[0].targets) == 1
            and _is_name(radd[0].value, "__add__")):
        raise TranslationError("expected exactly `__radd__ = __add__` in Declaration")
    defs.append("Definition gen_radd := gen_add.")

    f = _find_def(decl.body, "_add_interfaces_to_cls", "Declaration", decorators=("staticmethod",))
    _plain_args(f, ["interfaces", "cls"])
    defs.append(_simple(tr, f, [("interfaces", "nodes"), ("cls", "node")], "nodes", "gen_add_interfaces_to_cls"))

    defs.append(_directly_provided_by(tr, _find_def(dmod.body, "directlyProvidedBy", "declarations.py")))

    f = _find_def(dmod.body, "alsoProvides", "declarations.py")
    _plain_args(f, ["object"], vararg="interfaces")
    defs.append(_simple(tr, f, [("object", "state"), ("interfaces", "trees")], None, "gen_alsoProvides", proc="object"))

    f = _find_def(dmod.body, "noLongerProvides", "declarations.py")
    _plain_args(f, ["object", "interface"])
    defs.append(_simple(tr, f, [("object", "state"), ("interface", "node")], None, "gen_noLongerProvides", proc="object"))

    body = "\n\n".join("  " + d.replace("\n", "\n  ") for d in defs)
    return HEADER % origin + "\n" + body + "\nEnd Kernel.\n"


def translate_files(decl_path, iface_path):
    with open(decl_path) as fh:
        d = fh.read()
    with open(iface_path) as fh:
        i = fh.read()
    return translate_sources(d, i, origin=(decl_path, iface_path))


def pinned():
    from . import declalg_pinned as P
    return translate_sources(P.DECLARATIONS, P.INTERFACE,
                             origin=("<pinned copy of declarations.py in harness/translate/declalg_pinned.py>",
                                     "<pinned copy of interface.py in harness/translate/declalg_pinned.py>"))


if __name__ == "__main__":  # python -m harness.translate.declalg /repo/src/zope/interface
    import os
    import sys
    base = sys.argv[1] if len(sys.argv) > 1 else "/repo/src/zope/interface"
    print(translate_files(os.path.join(base, "declarations.py"), os.path.join(base, "interface.py")))
