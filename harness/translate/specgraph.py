"""Fail-closed translator: ``zope/interface/interface.py`` class ``Specification`` (and
``SpecificationBase.isOrExtends``)  ->  ``coq/Gen/SpecGraphKernel.v``.

Translated methods (Python ``ast``; statement by statement, in source order):

    subscribe, unsubscribe        count arithmetic on the dependents dictionary, delete at zero
    __setBases                    unsubscribe from the old bases, assign, subscribe, changed()
    _calculate_sro                the call of ro.ro with the bases' cached orders + the root fix-up
    changed                       clear _implied, _calculate_sro, fill __sro__/__iro__/_implied, then
                                  the recursive notification loop (emitted as a Fixpoint on fuel,
                                  because Gallina needs a structurally decreasing argument; the dict
                                  iteration order is the section variable ``reorder``)
    isOrExtends, extends          membership in _implied, strict flag

The target is state passing Gallina over the vocabulary of Model/SpecGraph.v and
Model/SpecGraphPrim.v (``st`` is the world, ``self`` and every other object a ``node``).  What is
NOT generated: the primitives of SpecGraphPrim.v (dictionary operations, attribute writes,
``do_calculate_ro`` = the C3 kernel of ro.py, property C03), the fuel, and ``reorder``.
Attributes outside the vocabulary that may be assigned ``None`` and are otherwise ignored:
``_v_attrs`` (a memo).  ``assert`` statements are no-ops.  ``raise`` is only accepted in the shape
``try: n = d[k] / except TypeError: raise KeyError(k)`` and makes the function return ``option``.

Only the shapes implemented below are accepted; anything else raises ``TranslationError`` (the
caller reports a broken tie and falls back to the pinned text so that the rest of the pipeline
still compiles; it never guesses).
"""
import ast


class TranslationError(Exception):
    pass


def _fail(node, why):
    raise TranslationError("interface.py:%s: %s: %s" % (
        getattr(node, "lineno", "?"), why, ast.dump(node)[:160] if isinstance(node, ast.AST) else node))


# attribute -> (state projection, type)
READ_ATTR = {
    "_dependents": ("deps", "deps"), "dependents": ("deps", "deps"),
    "__bases__": ("bases", "nodes"), "_bases": ("bases", "nodes"),
    "__sro__": ("sro", "nodes"), "_implied": ("implied", "keyset"),
}
IGNORED_ATTRS = ("_v_attrs",)


def _proj(proj, obj):
    return "(bases (gr st) %s)" % obj if proj == "bases" else "(%s st %s)" % (proj, obj)


class _Fn:
    """one method -> one Gallina expression (nested lets over ``st`` and ``v_*`` locals)"""

    def __init__(self, fn, ptypes, hooks=None):
        a = fn.args
        if a.vararg or a.kwarg or a.kwonlyargs or getattr(a, "posonlyargs", None) or fn.decorator_list:
            _fail(fn, "unexpected signature / decorator")
        if len(a.args) != len(ptypes) + 1 or a.args[0].arg != "self":
            _fail(fn, "unexpected parameter list")
        self.fn = fn
        self.env = {"self": ("val", "self", "node")}
        self.params = []
        for arg, t in zip(a.args[1:], ptypes):
            self.env[arg.arg] = ("val", "v_" + arg.arg, t)
            self.params.append(("v_" + arg.arg, t))
        self.defaults = a.defaults
        self.opt = False          # a KeyError path exists: the result is an option
        self.hooks = hooks or {}  # method name -> callable(obj, args) -> coq text for st
        self.side = {}            # side definitions (the __iro__ value)

    # ------------------------------------------------------------------ expressions
    def truthy(self, v):
        c, t = v
        if t == "bool":
            return c
        if t == "nat":
            return "(negb (Nat.eqb %s 0))" % c
        if t == "nodes":
            return "(nonempty %s)" % c
        if t == "deps":
            return "(dict_nonempty %s)" % c
        if t == "empty":
            return "false"
        _fail(self.fn, "truth value of a %s" % t)

    def as_nodes(self, v, node):
        c, t = v
        if t == "nodes":
            return c
        if t == "empty":
            return "(@nil node)"
        _fail(node, "expected a sequence of specifications, got %s" % t)

    def obj(self, node, env):
        """an expression denoting a specification object -> coq name"""
        c, t = self.expr(node, env)
        if t != "node":
            _fail(node, "expected a specification object")
        return c

    def expr(self, n, env):
        if isinstance(n, ast.Name):
            if n.id not in env:
                _fail(n, "unknown name")
            e = env[n.id]
            if e[0] == "alias":
                return (_proj(e[1], e[2]), "keyset" if e[1] == "implied" else "deps")
            return (e[1], e[2])
        if isinstance(n, ast.Constant):
            if n.value is None:
                return ("tt", "none")
            if isinstance(n.value, bool):
                return ("true" if n.value else "false", "bool")
            if isinstance(n.value, int) and n.value >= 0:
                return ("%d" % n.value, "nat")
            _fail(n, "unsupported constant")
        if isinstance(n, ast.Tuple) and not n.elts:
            return ("tt", "empty")
        if isinstance(n, ast.Attribute) and isinstance(n.ctx, ast.Load):
            if n.attr == "_ROOT":
                if not (isinstance(n.value, ast.Name) and n.value.id == "self"):
                    _fail(n, "_ROOT of something else than self")
                return ("root", "node")
            if n.attr in READ_ATTR:
                o = self.obj(n.value, env)
                proj, t = READ_ATTR[n.attr]
                return (_proj(proj, o), t)
            _fail(n, "attribute outside the vocabulary")
        if isinstance(n, ast.Call):
            return self.call(n, env)
        if isinstance(n, ast.Subscript) and isinstance(n.ctx, ast.Load):
            v = self.expr(n.value, env)
            sl = n.slice
            if isinstance(sl, ast.Slice):
                if sl.lower is not None or sl.step is not None or sl.upper is None:
                    _fail(n, "only [:k] slices")
                k = self.expr(sl.upper, env)
                if k[1] != "nat":
                    _fail(n, "slice bound is not a number")
                return ("(firstn %s %s)" % (k[0], self.as_nodes(v, n)), "nodes")
            if (isinstance(sl, ast.UnaryOp) and isinstance(sl.op, ast.USub) and isinstance(sl.operand, ast.Constant)
                    and sl.operand.value == 1 and v[1] == "nodes"):
                return ("(py_last %s)" % v[0], "node")
            _fail(n, "unsupported subscript (a dictionary read may raise: only inside try)")
        if isinstance(n, ast.BinOp):
            l, r = self.expr(n.left, env), self.expr(n.right, env)
            if l[1] == r[1] == "nat" and isinstance(n.op, (ast.Add, ast.Sub)):
                return ("(Nat.%s %s %s)" % ("add" if isinstance(n.op, ast.Add) else "sub", l[0], r[0]), "nat")
            _fail(n, "unsupported arithmetic")
        if isinstance(n, ast.UnaryOp) and isinstance(n.op, ast.Not):
            return ("(negb %s)" % self.truthy(self.expr(n.operand, env)), "bool")
        if isinstance(n, ast.BoolOp):
            op = "andb" if isinstance(n.op, ast.And) else "orb"
            parts = [self.truthy(self.expr(v, env)) for v in n.values]
            out = parts[-1]
            for p in reversed(parts[:-1]):
                out = "(%s %s %s)" % (op, p, out)
            return (out, "bool")
        if isinstance(n, ast.Compare):
            if len(n.ops) != 1:
                _fail(n, "chained comparison")
            op = n.ops[0]
            l, r = self.expr(n.left, env), self.expr(n.comparators[0], env)
            if isinstance(op, (ast.In, ast.NotIn)):
                if l[1] != "node" or r[1] not in ("keyset", "nodes"):
                    _fail(n, "unsupported membership test")
                c = "(mem %s %s)" % (l[0], r[0])
                return (c if isinstance(op, ast.In) else "(negb %s)" % c, "bool")
            if isinstance(op, (ast.Is, ast.IsNot, ast.Eq, ast.NotEq)):
                pos = isinstance(op, (ast.Is, ast.Eq))
                if l[1] == "node" and r[1] == "node":
                    c = "(Nat.eqb %s %s)" % (l[0], r[0])
                elif {l[1], r[1]} == {"node", "none"} and isinstance(op, (ast.Is, ast.IsNot)):
                    c = "false"       # a specification object is never None
                elif l[1] == r[1] == "nat" and isinstance(op, (ast.Eq, ast.NotEq)):
                    c = "(Nat.eqb %s %s)" % (l[0], r[0])
                else:
                    _fail(n, "unsupported identity / equality test")
                return (c if pos else "(negb %s)" % c, "bool")
            if l[1] == r[1] == "nat":
                t = {ast.Gt: "(Nat.ltb %(b)s %(a)s)", ast.Lt: "(Nat.ltb %(a)s %(b)s)",
                     ast.GtE: "(Nat.leb %(b)s %(a)s)", ast.LtE: "(Nat.leb %(a)s %(b)s)"}.get(type(op))
                if t:
                    return (t % {"a": l[0], "b": r[0]}, "bool")
            _fail(n, "unsupported comparison")
        if isinstance(n, ast.IfExp):
            c = self.truthy(self.expr(n.test, env))
            a, b = self.expr(n.body, env), self.expr(n.orelse, env)
            if "nodes" in (a[1], b[1]):
                return ("(if %s then %s else %s)" % (c, self.as_nodes(a, n), self.as_nodes(b, n)), "nodes")
            if a[1] == b[1] and a[1] in ("nat", "bool", "node"):
                return ("(if %s then %s else %s)" % (c, a[0], b[0]), a[1])
            _fail(n, "conditional expression of mixed types")
        if isinstance(n, ast.ListComp):
            tgt, it, conds = self.comp(n, env)
            if not (isinstance(n.elt, ast.Name) and n.elt.id == tgt):
                _fail(n, "list comprehension that is not a filter")
            env2 = dict(env)
            env2[tgt] = ("val", "v_" + tgt, "node")
            out = it
            for c in conds:
                out = "(filter (fun v_%s => %s) %s)" % (tgt, self.truthy(self.expr(c, env2)), out)
            return (out, "nodes")
        if isinstance(n, ast.DictComp):
            tgt, it, conds = self.comp(n, env)
            if conds or not (isinstance(n.key, ast.Name) and n.key.id == tgt):
                _fail(n, "unsupported dict comprehension")
            env2 = dict(env)
            env2[tgt] = ("val", "v_" + tgt, "node")
            v = self.expr(n.value, env2)
            if v[1] != "nodes":
                _fail(n, "dict comprehension value is not an order")
            return ("(map (fun v_%s => (v_%s, %s)) %s)" % (tgt, tgt, v[0], it), "bm")
        _fail(n, "unsupported expression")

    def comp(self, n, env):
        if len(n.generators) != 1:
            _fail(n, "nested comprehension")
        g = n.generators[0]
        if g.is_async or not isinstance(g.target, ast.Name):
            _fail(n, "unsupported comprehension target")
        return g.target.id, self.as_nodes(self.expr(g.iter, env), n), list(g.ifs)

    def call(self, n, env):
        f = n.func
        if isinstance(f, ast.Name):
            if n.keywords:
                _fail(n, "keyword arguments")
            if f.id in ("tuple", "list") and len(n.args) == 1:
                return (self.as_nodes(self.expr(n.args[0], env), n), "nodes")
            if f.id == "isinstance" and len(n.args) == 2 and isinstance(n.args[1], ast.Name) \
                    and n.args[1].id == "InterfaceClass":
                return ("(isif st %s)" % self.obj(n.args[0], env), "bool")
            _fail(n, "unknown function")
        if isinstance(f, ast.Attribute):
            if f.attr == "get" and len(n.args) == 2 and not n.keywords:
                d, k, dflt = self.expr(f.value, env), self.expr(n.args[0], env), self.expr(n.args[1], env)
                if d[1] == "deps" and k[1] == "node" and dflt[1] == "nat":
                    return ("(dict_get %s %s %s)" % (k[0], d[0], dflt[0]), "nat")
                _fail(n, "unsupported .get")
            if f.attr == "keys" and not n.args and not n.keywords:
                d = self.expr(f.value, env)
                if d[1] == "deps":
                    return ("(reorder (dict_keys %s))" % d[0], "nodes")     # dictionary order
                _fail(n, "unsupported .keys")
            if f.attr == "_calculate_sro" and not n.args and not n.keywords:
                return ("(k_calc st %s)" % self.obj(f.value, env), "nodes")
            if f.attr == "_do_calculate_ro" and not n.args and len(n.keywords) == 1 \
                    and n.keywords[0].arg == "base_mros":
                bm = self.expr(n.keywords[0].value, env)
                if bm[1] != "bm":
                    _fail(n, "base_mros is not a {base: order} table")
                return ("(do_calculate_ro st %s %s)" % (self.obj(f.value, env), bm[0]), "nodes")
        _fail(n, "unsupported call")

    # ------------------------------------------------------------------ statements
    def place(self, n, env):
        """dictionary place written through: -> (field, obj)"""
        if isinstance(n, ast.Name) and n.id in env and env[n.id][0] == "alias":
            return env[n.id][1], env[n.id][2]
        if isinstance(n, ast.Attribute) and n.attr in ("_dependents", "dependents", "_implied"):
            return READ_ATTR[n.attr][0], self.obj(n.value, env)
        _fail(n, "not a dictionary of a specification")

    def effects(self, stmts, env):
        out = set()
        for s in stmts:
            if isinstance(s, ast.Assign) and len(s.targets) == 1:
                t = s.targets[0]
                if isinstance(t, ast.Name):
                    out.add(t.id)
                elif isinstance(t, ast.Attribute) and t.attr in IGNORED_ATTRS:
                    pass
                else:
                    out.add("st")
            elif isinstance(s, ast.AugAssign) and isinstance(s.target, ast.Name):
                out.add(s.target.id)
            elif isinstance(s, (ast.Delete,)):
                out.add("st")
            elif isinstance(s, ast.Expr) and isinstance(s.value, ast.Call) and isinstance(s.value.func, ast.Attribute):
                f = s.value.func
                if f.attr == "append" and isinstance(f.value, ast.Name):
                    out.add(f.value.id)
                else:
                    out.add("st")
            elif isinstance(s, ast.If):
                out |= self.effects(s.body, env) | self.effects(s.orelse, env)
            elif isinstance(s, ast.For):
                out |= self.effects(s.body, env) - {s.target.id if isinstance(s.target, ast.Name) else ""}
            elif isinstance(s, (ast.Assert, ast.Pass)):
                pass
            elif isinstance(s, ast.Expr) and isinstance(s.value, ast.Constant):
                pass
            else:
                _fail(s, "unsupported statement")
        return out

    def pattern(self, names, env):
        cs = []
        for nm in names:
            if nm == "st":
                cs.append("st")
            else:
                if nm not in env or env[nm][0] != "val":
                    _fail(self.fn, "local %r assigned in a branch before it exists" % nm)
                cs.append(env[nm][1])
        if len(cs) == 1:
            return cs[0], cs[0]
        return "'(%s)" % ", ".join(cs), "(%s)" % ", ".join(cs)

    def block(self, stmts, env, final):
        if not stmts:
            return final(env)
        s, rest = stmts[0], stmts[1:]
        env = dict(env)

        def go(prefix):
            return prefix + "\n" + self.block(rest, env, final)

        if isinstance(s, ast.Expr) and isinstance(s.value, ast.Constant) and isinstance(s.value.value, str):
            return self.block(rest, env, final)          # docstring
        if isinstance(s, (ast.Assert, ast.Pass)):
            return self.block(rest, env, final)
        if isinstance(s, ast.Return):
            if rest:
                _fail(s, "statements after return")
            if s.value is None:
                _fail(s, "bare return")
            c, t = self.expr(s.value, env)
            self.rtype = t
            return "Some %s" % c if self.opt else c
        if isinstance(s, ast.Assign):
            if len(s.targets) != 1:
                _fail(s, "multiple assignment")
            t = s.targets[0]
            if isinstance(t, ast.Name):
                if isinstance(s.value, ast.Attribute) and s.value.attr == "_implied":
                    env[t.id] = ("alias", "implied", self.obj(s.value.value, env))
                    return self.block(rest, env, final)
                c, ty = self.expr(s.value, env)
                if ty not in ("nat", "bool", "node", "nodes"):
                    _fail(s, "local of unsupported type %s" % ty)
                env[t.id] = ("val", "v_" + t.id, ty)
                return go("let v_%s := %s in" % (t.id, c))
            if isinstance(t, ast.Attribute):
                if t.attr in IGNORED_ATTRS:
                    if not (isinstance(s.value, ast.Constant) and s.value.value is None):
                        _fail(s, "memo attribute assigned something else than None")
                    return self.block(rest, env, final)
                o = self.obj(t.value, env)
                setter = {"_bases": "set_bases_field", "__sro__": "set_sro", "__iro__": "set_iro"}.get(t.attr)
                if setter is None:
                    _fail(s, "assignment to an attribute outside the vocabulary")
                v = self.as_nodes(self.expr(s.value, env), s)
                if t.attr == "__iro__":
                    self.side["iro"] = v
                return go("let st := %s st %s %s in" % (setter, o, v))
            if isinstance(t, ast.Subscript):
                field, o = self.place(t.value, env)
                k = self.expr(t.slice, env)
                v = self.expr(s.value, env)
                if k[1] != "node":
                    _fail(s, "dictionary key is not a specification")
                if field == "deps" and v[1] == "nat":
                    return go("let st := set_deps st %s (dict_set %s %s (deps st %s)) in" % (o, k[0], v[0], o))
                if field == "implied" and v[1] == "empty":
                    return go("let st := set_implied st %s (keyset_add %s (implied st %s)) in" % (o, k[0], o))
                _fail(s, "unsupported dictionary store")
            _fail(s, "unsupported assignment target")
        if isinstance(s, ast.AugAssign):
            if not (isinstance(s.target, ast.Name) and s.target.id in env and env[s.target.id][2] == "nat"
                    and isinstance(s.op, (ast.Add, ast.Sub))):
                _fail(s, "unsupported augmented assignment")
            v = self.expr(s.value, env)
            if v[1] != "nat":
                _fail(s, "unsupported augmented assignment")
            nm = env[s.target.id][1]
            return go("let %s := Nat.%s %s %s in" % (nm, "add" if isinstance(s.op, ast.Add) else "sub", nm, v[0]))
        if isinstance(s, ast.Delete):
            if len(s.targets) != 1 or not isinstance(s.targets[0], ast.Subscript):
                _fail(s, "unsupported del")
            field, o = self.place(s.targets[0].value, env)
            k = self.expr(s.targets[0].slice, env)
            if field != "deps" or k[1] != "node":
                _fail(s, "unsupported del")
            return go("let st := set_deps st %s (dict_del %s (deps st %s)) in" % (o, k[0], o))
        if isinstance(s, ast.Expr) and isinstance(s.value, ast.Call) and isinstance(s.value.func, ast.Attribute):
            call, f = s.value, s.value.func
            if call.keywords:
                _fail(s, "keyword arguments")
            if f.attr == "clear" and not call.args:
                field, o = self.place(f.value, env)
                if field != "implied":
                    _fail(s, "clear() of something else than _implied")
                return go("let st := set_implied st %s [] in" % o)
            if f.attr == "append" and len(call.args) == 1 and isinstance(f.value, ast.Name) \
                    and f.value.id in env and env[f.value.id][2] == "nodes":
                nm = env[f.value.id][1]
                return go("let %s := %s ++ [%s] in" % (nm, nm, self.obj(call.args[0], env)))
            if f.attr in self.hooks:
                o = self.obj(f.value, env)
                args = [self.obj(a, env) for a in call.args]
                return go("let st := %s in" % self.hooks[f.attr](o, args, s))
            _fail(s, "unsupported method call statement")
        if isinstance(s, ast.For):
            if s.orelse or not isinstance(s.target, ast.Name):
                _fail(s, "unsupported for loop")
            it = self.as_nodes(self.expr(s.iter, env), s)
            if self.effects(s.body, env) - {"st"}:
                _fail(s, "loop body assigns locals")
            env2 = dict(env)
            env2[s.target.id] = ("val", "v_" + s.target.id, "node")
            body = self.block(list(s.body), env2, lambda e: "st")
            return go("let st := fold_left (fun st v_%s =>\n%s) %s st in" % (s.target.id, _indent(body), it))
        if isinstance(s, ast.If):
            names = sorted(self.effects(s.body, env) | self.effects(s.orelse, env))
            if not names:
                _fail(s, "if without effect")
            pat, tup = self.pattern(names, env)
            c = self.truthy(self.expr(s.test, env))
            a = self.block(list(s.body), env, lambda e: tup)
            b = self.block(list(s.orelse), env, lambda e: tup)
            return go("let %s :=\n  if %s then (\n%s)\n  else (\n%s) in" % (pat, c, _indent(a), _indent(b)))
        if isinstance(s, ast.Try):
            # try: n = d[k] / except TypeError: raise KeyError(k)
            if (s.orelse or s.finalbody or len(s.handlers) != 1 or len(s.body) != 1
                    or not isinstance(s.body[0], ast.Assign) or len(s.body[0].targets) != 1
                    or not isinstance(s.body[0].targets[0], ast.Name)
                    or not isinstance(s.body[0].value, ast.Subscript)):
                _fail(s, "unsupported try")
            h = s.handlers[0]
            if not (isinstance(h.type, ast.Name) and h.type.id == "TypeError" and len(h.body) == 1
                    and isinstance(h.body[0], ast.Raise) and isinstance(h.body[0].exc, ast.Call)
                    and isinstance(h.body[0].exc.func, ast.Name) and h.body[0].exc.func.id == "KeyError"):
                _fail(s, "unsupported except clause")
            sub = s.body[0].value
            field, o = self.place(sub.value, env)
            k = self.expr(sub.slice, env)
            if field != "deps" or k[1] != "node":
                _fail(s, "unsupported dictionary read")
            nm = s.body[0].targets[0].id
            env[nm] = ("val", "v_" + nm, "nat")
            self.opt = True
            inner = self.block(rest, env, final)
            return ("match dict_find %s (deps st %s) with\n| None => None   (* KeyError *)\n| Some v_%s =>\n%s\nend"
                    % (k[0], o, nm, _indent(inner)))
        _fail(s, "unsupported statement")

    def state_body(self):
        self.rtype = "state"
        return self.block(list(self.fn.body), self.env, lambda e: "Some st" if self.opt else "st")

    def value_body(self):
        self.rtype = None
        out = self.block(list(self.fn.body), self.env, lambda e: _fail(self.fn, "falls off the end"))
        return out


def _indent(text, n=4):
    return "\n".join(" " * n + l for l in text.split("\n"))


COQ_T = {"nat": "nat", "bool": "bool", "node": "node", "nodes": "list node"}


def _sig(tr):
    return "".join(" (%s : %s)" % (n, COQ_T[t]) for n, t in tr.params)


# ------------------------------------------------------------------ structure checks

def _same(node, text):
    """node is, up to positions, the statement written in text"""
    ref = ast.parse(text).body[0]
    return ast.dump(node) == ast.dump(ref)


def _find_class(module, name):
    cs = [n for n in module.body if isinstance(n, ast.ClassDef) and n.name == name]
    if len(cs) != 1 or len([n for n in ast.walk(module) if isinstance(n, ast.ClassDef) and n.name == name]) != 1:
        raise TranslationError("expected exactly one module-level class %s" % name)
    return cs[0]


def _method(cls, name):
    ms = [n for n in cls.body if isinstance(n, ast.FunctionDef) and n.name == name]
    if len(ms) != 1:
        raise TranslationError("expected exactly one def %s in class %s" % (name, cls.name))
    for n in ast.walk(cls):
        if isinstance(n, ast.Name) and n.id == name and not isinstance(n.ctx, ast.Load):
            if not (name == "isOrExtends"):
                _fail(n, "%s is rebound in the class body" % name)
    return ms[0]


def translate_source(text, origin="interface.py"):
    module = ast.parse(text)
    base = _find_class(module, "SpecificationBase")
    spec = _find_class(module, "Specification")
    if [ast.dump(b) for b in spec.bases] != [ast.dump(ast.parse("SpecificationBase").body[0].value)]:
        _fail(spec, "Specification no longer derives from SpecificationBase alone")

    # ---- the glue the methods rely on, checked shape by shape
    glue = {
        "isOrExtends = SpecificationBase.isOrExtends": False,
        "__bases__ = property(\n    lambda self: self._bases, __setBases,\n)": False,
        "_ROOT = None": False,
        "_do_calculate_ro = calculate_ro": False,
    }
    for st in spec.body:
        for g in glue:
            if _same(st, g):
                glue[g] = True
    for g, ok in glue.items():
        if not ok:
            raise TranslationError("class Specification: expected the statement %r" % g)
    dep = _method(spec, "dependents")
    if not (len(dep.decorator_list) == 1 and isinstance(dep.decorator_list[0], ast.Name)
            and dep.decorator_list[0].id == "property"):
        _fail(dep, "dependents is not a plain property")
    dep_body = [s for s in dep.body if not (isinstance(s, ast.Expr) and isinstance(s.value, ast.Constant))]
    if not (len(dep_body) == 2
            and _same(dep_body[0], "if self._dependents is None:\n    self._dependents = weakref.WeakKeyDictionary()")
            and _same(dep_body[1], "return self._dependents")):
        _fail(dep, "dependents property has an unknown body")
    top = {"Interface._calculate_sro = lambda: (Interface,)": 0, "Specification._ROOT = Interface": 0,
           "from zope.interface.ro import ro as calculate_ro": 0}
    for st in module.body:
        for g in top:
            if _same(st, g):
                top[g] += 1
    for g, k in top.items():
        if k != 1:
            raise TranslationError("module level: expected exactly one statement %r" % g)
    for n in ast.walk(module):
        if isinstance(n, ast.Attribute) and isinstance(n.ctx, (ast.Store, ast.Del)) and \
                n.attr in ("_calculate_sro", "_ROOT", "changed", "subscribe", "unsubscribe", "_do_calculate_ro"):
            ok = isinstance(n.value, ast.Name) and (
                (n.value.id in ("Interface", "Specification") and n.attr in ("_calculate_sro", "_ROOT"))
                or (n.value.id == "ro" and n.attr == "_ROOT"))   # ro._ROOT = Interface: ro.py's own copy
            if not ok:
                _fail(n, "a translated method is patched after the class body")

    out = []
    emit = out.append

    # ---- subscribe / unsubscribe
    tr = _Fn(_method(spec, "subscribe"), ["node"])
    emit("(* Specification.subscribe *)")
    emit("Definition k_subscribe (st : state) (self : node)%s : state :=\n%s.\n" % (_sig(tr), _indent(tr.state_body(), 2)))
    if tr.opt:
        raise TranslationError("subscribe may raise")
    tr = _Fn(_method(spec, "unsubscribe"), ["node"])
    body = tr.state_body()
    if not tr.opt:
        raise TranslationError("unsubscribe lost its KeyError path")
    emit("(* Specification.unsubscribe; None = KeyError *)")
    emit("Definition k_unsubscribe (st : state) (self : node)%s : option state :=\n%s.\n" % (_sig(tr), _indent(body, 2)))
    emit("(* b.unsubscribe(x) as a statement: the exception is not propagated by the state passing\n"
         "   style (Properties/C02.v, dependents_complete: the key is never missing) *)")
    emit("Definition call_unsubscribe (st : state) (o x : node) : state :=\n"
         "  match k_unsubscribe st o x with Some st' => st' | None => st end.\n")

    # ---- _calculate_sro
    tr = _Fn(_method(spec, "_calculate_sro"), [])
    body = tr.value_body()
    if tr.rtype != "nodes" or tr.opt:
        raise TranslationError("_calculate_sro does not return an order")
    emit("(* Specification._calculate_sro *)")
    emit("Definition k_calculate_sro (st : state) (self : node) : list node :=\n%s.\n" % _indent(body, 2))
    emit("(* module level: Interface._calculate_sro = lambda: (Interface,) ; Specification._ROOT = Interface *)")
    emit("Definition k_calc (st : state) (self : node) : list node :=\n"
         "  if Nat.eqb self root then [root] else k_calculate_sro st self.\n")

    # ---- changed: split at the loop that calls changed() on the dependents
    ch = _method(spec, "changed")
    stmts = list(ch.body)
    idx = [i for i, s in enumerate(stmts) if isinstance(s, ast.For) and len(s.body) == 1
           and isinstance(s.body[0], ast.Expr) and isinstance(s.body[0].value, ast.Call)
           and isinstance(s.body[0].value.func, ast.Attribute) and s.body[0].value.func.attr == "changed"]
    if len(idx) != 1:
        _fail(ch, "expected exactly one notification loop in changed")
    for n in ast.walk(ch):
        if isinstance(n, ast.Attribute) and n.attr == "changed" and n not in [stmts[idx[0]].body[0].value.func]:
            _fail(n, "changed is called outside the notification loop")
    loop = stmts[idx[0]]
    call = loop.body[0].value
    tr = _Fn(ch, ["node"])
    pre = ast.FunctionDef(name="changed", args=ch.args, body=stmts[:idx[0]], decorator_list=[], lineno=ch.lineno)
    tr.fn = pre
    step = tr.block(stmts[:idx[0]], tr.env, lambda e: "st")
    if tr.opt or "iro" not in tr.side:
        raise TranslationError("changed: unexpected shape before the notification loop (no __iro__ assignment?)")
    # after the loop only memo resets may follow
    tail = _Fn(ch, ["node"])
    if tail.block(stmts[idx[0] + 1:], tail.env, lambda e: "st") != "st":
        _fail(ch, "changed does something after notifying the dependents")
    if not (isinstance(loop.target, ast.Name) and isinstance(call.func.value, ast.Name)
            and call.func.value.id == loop.target.id and len(call.args) == 1 and not call.keywords
            and isinstance(call.args[0], ast.Name) and call.args[0].id == ch.args.args[1].arg and not loop.orelse):
        _fail(loop, "unexpected notification call")
    it = tr.as_nodes(tr.expr(loop.iter, tr.env), loop)
    emit("Section Kernel.")
    emit("Variable reorder : list node -> list node.   (* the iteration order of a dictionary *)\n")
    emit("(* Specification.changed, the statements before the notification loop *)")
    emit("Definition k_changed_step (st : state) (self : node)%s : state :=\n%s.\n" % (_sig(tr), _indent(step, 2)))
    emit("(* ... the dependents it then walks *)")
    emit("Definition k_changed_targets (st : state) (self : node) : list node :=\n  %s.\n" % it)
    emit("(* ... and the loop `for dependent in ...: dependent.changed(originally_changed)`; [fuel] bounds\n"
         "   the recursion depth (not in the source: Gallina needs a decreasing argument) *)")
    emit("Fixpoint k_changed (fuel : nat) (st : state) (self : node)%s : state :=\n"
         "  match fuel with\n  | 0 => st\n  | S fuel' =>\n"
         "      let st := k_changed_step st self %s in\n"
         "      fold_left (fun st v_%s => k_changed fuel' st v_%s %s) (k_changed_targets st self) st\n  end.\n"
         % (_sig(tr), tr.params[0][0], loop.target.id, loop.target.id, tr.params[0][0]))

    # ---- __setBases
    def h_unsub(o, args, node):
        if len(args) != 1:
            _fail(node, "unsubscribe arity")
        return "call_unsubscribe st %s %s" % (o, args[0])

    def h_sub(o, args, node):
        if len(args) != 1:
            _fail(node, "subscribe arity")
        return "k_subscribe st %s %s" % (o, args[0])

    def h_changed(o, args, node):
        if len(args) != 1:
            _fail(node, "changed arity")
        return "k_changed (fuel_of (gr st)) st %s %s" % (o, args[0])

    tr = _Fn(_method(spec, "_Specification__setBases") if False else _method(spec, "__setBases"), ["nodes"],
             hooks={"unsubscribe": h_unsub, "subscribe": h_sub, "changed": h_changed})
    body = tr.state_body()
    if tr.opt:
        raise TranslationError("__setBases may raise")
    emit("(* Specification.__setBases (the setter of __bases__) *)")
    emit("Definition k_setBases (st : state) (self : node)%s : state :=\n%s.\n" % (_sig(tr), _indent(body, 2)))
    emit("End Kernel.\n")

    # ---- the __iro__ value
    emit("(* the value assigned to __iro__ in changed (the model derives __iro__ from __sro__) *)")
    emit("Definition k_iro_of (st : state) (v_ancestors : list node) : list node :=\n  %s.\n" % tr_iro(ch, stmts[:idx[0]]))

    # ---- queries
    tr = _Fn(_method(base, "isOrExtends"), ["node"])
    body = tr.value_body()
    if tr.rtype != "bool" or tr.opt:
        raise TranslationError("isOrExtends does not return a truth value")
    emit("(* SpecificationBase.isOrExtends *)")
    emit("Definition k_isOrExtends (st : state) (self : node)%s : bool :=\n%s.\n" % (_sig(tr), _indent(body, 2)))
    ex = _method(spec, "extends")
    tr = _Fn(ex, ["node", "bool"])
    if not (len(ex.args.defaults) == 1 and isinstance(ex.args.defaults[0], ast.Constant)
            and ex.args.defaults[0].value is True):
        _fail(ex, "extends: strict no longer defaults to True")
    body = tr.value_body()
    if tr.rtype != "bool" or tr.opt:
        raise TranslationError("extends does not return a truth value")
    emit("(* Specification.extends (strict defaults to True) *)")
    emit("Definition k_extends (st : state) (self : node)%s : bool :=\n%s.\n" % (_sig(tr), _indent(body, 2)))

    header = [
        "(* GENERATED by harness/translate/specgraph.py from %s -- do not edit." % origin,
        "   Regenerated on every run; Proofs/SpecGraphKernel.v and Properties/C02.v are re-checked against it.",
        "   st = the world of Model/SpecGraph.v, self / v_* = the Python names, primitives from",
        "   Model/SpecGraphPrim.v. *)",
        "From Coq Require Import List Arith Bool.",
        "Import ListNotations.",
        "From ZI Require Import Model.Ro Model.SpecGraph Model.SpecGraphPrim.",
        "",
    ]
    return "\n".join(header + out)


def tr_iro(ch, stmts):
    """the right hand side of ``self.__iro__ = ...`` over the local it is computed from"""
    for s in stmts:
        if isinstance(s, ast.Assign) and len(s.targets) == 1 and isinstance(s.targets[0], ast.Attribute) \
                and s.targets[0].attr == "__iro__":
            names = {n.id for n in ast.walk(s.value) if isinstance(n, ast.Name)}
            tr = _Fn(ch, ["node"])
            env = dict(tr.env)
            free = names - {"tuple", "list", "isinstance", "InterfaceClass"} - _bound(s.value)
            if free != {"ancestors"}:
                _fail(s, "__iro__ is not computed from the local `ancestors` alone")
            env["ancestors"] = ("val", "v_ancestors", "nodes")
            return tr.as_nodes(tr.expr(s.value, env), s)
    raise TranslationError("no __iro__ assignment")


def _bound(node):
    out = set()
    for n in ast.walk(node):
        if isinstance(n, ast.comprehension) and isinstance(n.target, ast.Name):
            out.add(n.target.id)
    return out


# ------------------------------------------------------------------ the C twin

SB_FIELDS = ["PyObject_HEAD", "_implied", "#if USE_EXPLICIT_WEAKREFLIST", "weakreflist", "#endif",
             "_dependents", "_bases", "_v_attrs", "__iro__", "__sro__"]
# SB_extends, comments removed, white space squeezed.  The one accepted shape: look the argument
# up in self->_implied and answer with the outcome of exactly that lookup.
SB_EXTENDS_BODY = (
    "PyObject* implied; int contains; implied = self->_implied; "
    "if (implied == NULL) { PyErr_SetString(PyExc_AttributeError, \"_implied\"); return NULL; } "
    "Py_INCREF(implied); contains = PySequence_Contains(implied, other); Py_DECREF(implied); "
    "if (contains < 0) return NULL; if (contains) Py_RETURN_TRUE; Py_RETURN_FALSE;")


def _c_strip(text):
    import re
    text = re.sub(r"/\*.*?\*/", " ", text, flags=re.S)
    return text


def _c_block(text, start):
    """text[start] == '{' -> the text between the matching braces"""
    depth = 0
    for i in range(start, len(text)):
        if text[i] == "{":
            depth += 1
        elif text[i] == "}":
            depth -= 1
            if depth == 0:
                return text[start + 1:i]
    raise TranslationError("unbalanced braces in the C source")


def translate_c(ctext, origin="_zope_interface_coptimizations.c"):
    """struct SB and SB_extends (the C isOrExtends / __call__, also used by providedBy) -> Gallina.
    Fail closed: a new struct member (a place to keep state the Python code does not know about) or
    any other statement in SB_extends is refused."""
    import re
    text = _c_strip(ctext)
    m = list(re.finditer(r"typedef\s+struct\s*\{", text))
    sb = None
    for mm in m:
        body = _c_block(text, mm.end() - 1)
        tail = text[mm.end() + len(body):mm.end() + len(body) + 40]
        if re.match(r"\}\s*SB\s*;", tail):
            sb = body
    if sb is None:
        raise TranslationError("%s: struct SB not found" % origin)
    fields = []
    for line in sb.split("\n"):
        line = " ".join(line.split())
        if not line:
            continue
        mm = re.match(r"PyObject\* ?(\w+);$", line)
        fields.append(mm.group(1) if mm else line)
    if fields != SB_FIELDS:
        raise TranslationError("%s: struct SB has members %r, expected %r (state the model does not know about)"
                               % (origin, fields, SB_FIELDS))
    heads = list(re.finditer(r"static\s+PyObject\s*\*\s*SB_extends\s*\(\s*SB\s*\*\s*self\s*,\s*PyObject\s*\*\s*other\s*\)\s*\{", text))
    if len(heads) != 1:
        raise TranslationError("%s: expected exactly one definition of SB_extends(SB* self, PyObject* other)" % origin)
    body = " ".join(_c_block(text, heads[0].end() - 1).split())
    if body != SB_EXTENDS_BODY:
        raise TranslationError("%s: SB_extends has an unknown body: %s" % (origin, body[:300]))
    if not re.search(r'\{\s*"isOrExtends",\s*\(PyCFunction\)SB_extends,\s*METH_O', text):
        raise TranslationError("%s: isOrExtends is no longer SB_extends / METH_O" % origin)
    return ("(* C twin, %s: struct SB has exactly the members %s;\n"
            "   SB_extends: PySequence_Contains(self->_implied, other), nothing remembered between calls *)\n"
            "Definition k_c_isOrExtends (st : state) (self v_other : node) : bool :=\n"
            "  (mem v_other (implied st self)).\n" % (origin, ", ".join(f for f in SB_FIELDS if not f.startswith("#"))))


def translate_file(path, cpath=None):
    with open(path) as fh:
        out = translate_source(fh.read(), origin=path)
    if cpath is not None:
        with open(cpath) as fh:
            out += "\n" + translate_c(fh.read(), origin=cpath)
    return out


# The text this framework was developed against; used only when the current source is refused, so
# that the rest of the pipeline still has a kernel to compile against (the refusal is reported).
PINNED_SOURCE = '''
from zope.interface.ro import ro as calculate_ro


class SpecificationBase:
    def isOrExtends(self, interface):
        return interface in self._implied


class Specification(SpecificationBase):
    _ROOT = None
    isOrExtends = SpecificationBase.isOrExtends

    @property
    def dependents(self):
        if self._dependents is None:
            self._dependents = weakref.WeakKeyDictionary()
        return self._dependents

    def subscribe(self, dependent):
        self._dependents[dependent] = self.dependents.get(dependent, 0) + 1

    def unsubscribe(self, dependent):
        try:
            n = self._dependents[dependent]
        except TypeError:
            raise KeyError(dependent)
        n -= 1
        if not n:
            del self.dependents[dependent]
        else:
            assert n > 0
            self.dependents[dependent] = n

    def __setBases(self, bases):
        for b in self.__bases__:
            b.unsubscribe(self)
        self._bases = bases
        for b in bases:
            b.subscribe(self)
        self.changed(self)

    __bases__ = property(
        lambda self: self._bases, __setBases,
    )

    _do_calculate_ro = calculate_ro

    def _calculate_sro(self):
        sro = self._do_calculate_ro(base_mros={
            b: b.__sro__
            for b in self.__bases__
        })
        root = self._ROOT
        if root is not None and sro and sro[-1] is not root:
            sro = [
                x
                for x in sro
                if x is not root
            ]
            sro.append(root)
        return sro

    def changed(self, originally_changed):
        self._v_attrs = None
        implied = self._implied
        implied.clear()
        ancestors = self._calculate_sro()
        self.__sro__ = tuple(ancestors)
        self.__iro__ = tuple([ancestor for ancestor in ancestors
                              if isinstance(ancestor, InterfaceClass)
                              ])
        for ancestor in ancestors:
            implied[ancestor] = ()
        for dependent in tuple(
            self._dependents.keys() if self._dependents else ()
        ):
            dependent.changed(originally_changed)
        self._v_attrs = None

    def extends(self, interface, strict=True):
        return (
            (interface in self._implied) and (
                (not strict) or (self != interface)
            )
        )


Interface._calculate_sro = lambda: (Interface,)
Specification._ROOT = Interface
'''


def pinned():
    return (translate_source(PINNED_SOURCE, origin="<pinned copy in harness/translate/specgraph.py>")
            + "\n(* pinned *)\nDefinition k_c_isOrExtends (st : state) (self v_other : node) : bool :=\n"
              "  (mem v_other (implied st self)).\n")


if __name__ == "__main__":  # python -m harness.translate.specgraph /repo/src/zope/interface/interface.py
    import sys
    print(translate_file(sys.argv[1], sys.argv[2] if len(sys.argv) > 2 else None))
