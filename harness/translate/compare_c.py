"""Fail-closed extractor: the C slot IB_richcompare of _zope_interface_coptimizations.c
->  coq/Gen/CompareC.v  (definition gen_c_richcompare over the vocabulary of Model/Order.v).

The function body is tokenised (comments and `#if 0` blocks dropped) and matched against ONE
statement template.  The template fixes the control flow; the holes are exactly the places where a
slip changes the answer without changing the shape:
  * which operators the identity short cut answers True / False for,
  * which operators the None short cut answers True for (all others False),
  * which attribute of `other` ends up in `othername` / `othermod` (both branches must agree),
  * which fields the three PyObject_RichCompareBool calls compare.
Anything else (an extra statement, another call, a pointer comparison, a fast path) is refused with
TranslationError; the caller turns that into a broken proof obligation.  Reference counting is not
translated here (C11's subject).
"""
import re


class TranslationError(Exception):
    pass


TOKEN = re.compile(r"[A-Za-z_]\w*|\d+|->|==|!=|&&|\|\||<=|>=|\S")


def _strip(text):
    text = re.sub(r"/\*.*?\*/", " ", text, flags=re.S)
    text = re.sub(r"//[^\n]*", " ", text)
    # drop `#if 0 ... #endif` blocks; any other preprocessor line is refused below
    text = re.sub(r"^[ \t]*#[ \t]*if[ \t]+0[ \t]*\n.*?^[ \t]*#[ \t]*endif[^\n]*\n", " ", text, flags=re.S | re.M)
    if re.search(r"^[ \t]*#", text, flags=re.M):
        raise TranslationError("preprocessor directive inside IB_richcompare")
    return text


def function_text(source, name="IB_richcompare"):
    m = re.search(r"^%s\s*\(" % re.escape(name), source, flags=re.M)
    if not m:
        raise TranslationError("%s not found" % name)
    i = source.index("{", m.end())
    depth = 0
    for j in range(i, len(source)):
        if source[j] == "{":
            depth += 1
        elif source[j] == "}":
            depth -= 1
            if depth == 0:
                return source[m.start():j + 1]
    raise TranslationError("unbalanced braces in %s" % name)


def tokens(text):
    return " ".join(TOKEN.findall(_strip(text)))


OPS = {"Py_LT": "OpLt", "Py_LE": "OpLe", "Py_GT": "OpGt", "Py_GE": "OpGe", "Py_EQ": "OpEq", "Py_NE": "OpNe"}
CASES = r"((?:case Py_[A-Z][A-Z] : )+)"
FIELD = r"(__name__|__module__)"
VAR = r"(othername|othermod)"

# the template, written as C and tokenised the same way as the source; @X@ are the holes
TEMPLATE = r"""
IB_richcompare ( IB * self , PyObject * other , int op ) {
  PyObject * othername ; PyObject * othermod ; PyObject * oresult ;
  PyTypeObject * interface_base_class ; IB * otherib ; int result ;
  otherib = NULL ; oresult = othername = othermod = NULL ;
  if ( OBJECT ( self ) == other ) { switch ( op ) { @SAME_TRUE@ Py_RETURN_TRUE ; break ; @SAME_FALSE@ Py_RETURN_FALSE ; } }
  if ( other == Py_None ) { switch ( op ) { @NONE_TRUE@ Py_RETURN_TRUE ; default : Py_RETURN_FALSE ; } }
  interface_base_class = _get_interface_base_class ( Py_TYPE ( self ) ) ;
  if ( interface_base_class == NULL ) { oresult = Py_NotImplemented ; goto cleanup ; }
  if ( PyObject_TypeCheck ( other , interface_base_class ) ) {
    otherib = ( IB * ) other ; othername = otherib -> @F_NAME_IB@ ; othermod = otherib -> @F_MOD_IB@ ;
  } else {
    othername = PyObject_GetAttr ( other , str@F_NAME_ATTR@ ) ;
    if ( othername ) { othermod = PyObject_GetAttr ( other , str@F_MOD_ATTR@ ) ; }
    if ( ! othername || ! othermod ) {
      if ( PyErr_Occurred ( ) && PyErr_ExceptionMatches ( PyExc_AttributeError ) ) { PyErr_Clear ( ) ; oresult = Py_NotImplemented ; }
      goto cleanup ;
    }
  }
  result = PyObject_RichCompareBool ( self -> @P@ , @V1@ , Py_EQ ) ;
  if ( result == 0 ) { result = PyObject_RichCompareBool ( self -> @Q@ , @V2@ , op ) ; }
  else if ( result == 1 ) { result = PyObject_RichCompareBool ( self -> @R@ , @V3@ , op ) ; }
  if ( result == - 1 ) { goto cleanup ; }
  oresult = result ? Py_True : Py_False ;
  cleanup : Py_XINCREF ( oresult ) ;
  if ( ! otherib ) { Py_XDECREF ( othername ) ; Py_XDECREF ( othermod ) ; }
  return oresult ;
}
"""

HOLES = {"SAME_TRUE": CASES, "SAME_FALSE": CASES, "NONE_TRUE": CASES,
         "F_NAME_IB": FIELD, "F_MOD_IB": FIELD, "F_NAME_ATTR": FIELD, "F_MOD_ATTR": FIELD,
         "P": FIELD, "Q": FIELD, "R": FIELD, "V1": VAR, "V2": VAR, "V3": VAR}


def _template_regex():
    toks = " ".join(TOKEN.findall(re.sub(r"@(\w+)@", lambda m: " @%s@ " % m.group(1), TEMPLATE)))
    # `@ X @` tokenises as three tokens; glue them back
    toks = re.sub(r"@ (\w+) @", r"@\1@", toks)
    # `str @F@` (one C identifier str__name__) : glue
    toks = toks.replace("str @F_NAME_ATTR@", "str@F_NAME_ATTR@").replace("str @F_MOD_ATTR@", "str@F_MOD_ATTR@")
    pat = re.escape(toks)
    names = []
    for h, rx in HOLES.items():
        esc = re.escape("@%s@" % h)
        if esc not in pat:
            raise AssertionError("hole %s missing from the template" % h)
        # the cases holes swallow the following space themselves
        if rx is CASES:
            pat = pat.replace(esc + re.escape(" "), "(?P<%s>%s)" % (h, rx[1:-1]))
        else:
            pat = pat.replace(esc, "(?P<%s>%s)" % (h, rx[1:-1]))
        names.append(h)
    return re.compile("^" + pat + "$")


def _ops(cases):
    out = re.findall(r"case (Py_[A-Z][A-Z]) :", cases)
    for o in out:
        if o not in OPS:
            raise TranslationError("unknown operator %s" % o)
    if len(set(out)) != len(out):
        raise TranslationError("duplicate case label")
    return [OPS[o] for o in out]


def _opset(name, ops):
    arms = " | ".join(ops) if ops else None
    if arms is None:
        return "Definition %s (o : op) : bool := false." % name
    if len(ops) == 6:
        return "Definition %s (o : op) : bool := true." % name
    return "Definition %s (o : op) : bool := match o with %s => true | _ => false end." % (name, arms)


FLD = {"__name__": "oname", "__module__": "omodule"}


def translate(c_path):
    src = open(c_path).read()
    toks = tokens(function_text(src))
    m = _template_regex().match(toks)
    if not m:
        raise TranslationError("IB_richcompare no longer has the translatable shape")
    g = m.groupdict()
    if g["F_NAME_IB"] != g["F_NAME_ATTR"] or g["F_MOD_IB"] != g["F_MOD_ATTR"]:
        raise TranslationError("the two branches put different attributes of `other` into othername/othermod")
    var = {"othername": FLD[g["F_NAME_IB"]], "othermod": FLD[g["F_MOD_IB"]]}
    same_t, same_f, none_t = _ops(g["SAME_TRUE"]), _ops(g["SAME_FALSE"]), _ops(g["NONE_TRUE"])
    if set(same_t) & set(same_f):
        raise TranslationError("an operator is in both groups of the identity short cut")
    out = ["(* GENERATED on every run by harness/translate/compare_c.py from",
           "   src/zope/interface/_zope_interface_coptimizations.c (IB_richcompare) — do not edit. *)",
           "From Coq Require Import List NArith Bool.",
           "From ZI Require Import Lib.Str Model.Order.",
           "",
           _opset("gen_c_same_true", same_t),
           _opset("gen_c_same_false", same_f),
           _opset("gen_c_none_true", none_t),
           "",
           "Definition gen_c_richcompare (o : op) (self other : operand) : mres :=",
           "  if same_obj self other && (gen_c_same_true o || gen_c_same_false o) then MBool (gen_c_same_true o)",
           "  else match okind_of other with",
           "       | KNone => MBool (gen_c_none_true o)",
           "       | _ =>",
           "           if has_key other then",
           "             if str_eqb (%s self) (%s other)" % (FLD[g["P"]], var[g["V1"]]),
           "             then MBool (op_on o (str_cmp (%s self) (%s other)))" % (FLD[g["R"]], var[g["V3"]]),
           "             else MBool (op_on o (str_cmp (%s self) (%s other)))" % (FLD[g["Q"]], var[g["V2"]]),
           "           else MNotImpl",
           "       end.",
           ""]
    return "\n".join(out)


if __name__ == "__main__":
    import sys
    print(translate(sys.argv[1]))
