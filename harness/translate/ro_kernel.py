"""Fail-closed translator: ``zope/interface/ro.py`` (the C3 resolver) and
``interface.py:Specification._calculate_sro`` -> ``coq/Gen/RoKernel.v``.

Three kinds of treatment, all fail closed (``TranslationError`` on anything not listed):

* TRANSLATED compositionally by a small statement/expression translator (loops with early
  return -> ``for_ret``, loops that update locals -> ``fold_left`` over a state tuple, list
  comprehensions -> ``map``/``filter``, ``is`` -> equality of object numbers, guarded ``l[0]`` /
  ``l[-1]``):   ``_legacy_mergeOrderings``, ``_legacy_ro``, ``C3._can_choose_base``,
  ``C3._nonempty_bases_ignoring``, ``C3._find_next_C3_base``, ``C3._choose_next_base``,
  ``C3.had_inconsistency``, the root fix-up of ``Specification._calculate_sro``, the
  ``if log_changed or use_legacy`` part of ``ro()``.
* RECOGNISED statement by statement, the parts that matter translated into the output
  (re-ordering / changing them changes the output): ``C3.__init__`` (base_tree, the
  bases_had_inconsistency aggregate, the single-base short cut), ``C3._merge`` (the ``while 1``
  loop becomes a fuel-indexed Fixpoint over (base_tree_remaining, base, result)),
  ``C3._guess_next_base`` / ``_StrictC3._guess_next_base`` (flag set?, exception raised),
  ``ro()`` (resolver construction, ``use_legacy`` selection), ``is_consistent`` (strict argument,
  is ``mro()`` run before the flag is read).
* PINNED (must be structurally identical to the copy below, nothing is generated; the
  hand model Model/Ro.v covers them): ``C3.resolver``, ``C3.legacy_ro`` (a per-resolver memo of
  ``_legacy_ro(self.leaf)``),
  ``C3.mro``, ``_StaticMRO``, ``_TrackingC3._guess_next_base``, the resolver-building loop of
  ``C3.__init__``.

Explicitly ignored BY NAME inside ``ro()``: ``assert`` statements, assignments to ``changed``,
``legacy_without_root``, ``mro_without_root``, ``comparison`` (``_ROComparison`` only formats the
log message) and ``_logger().warning(...)`` calls
(checked to contain no ``return``/``raise``, no other assignment and no list mutation);
in ``_guess_next_base``: ``self._warn_iro()``.

Gallina vocabulary: coq/Lib/Py.v.  The generated file depends on nothing else.
"""
import ast
import os


class TranslationError(Exception):
    pass


def _fail(node, why):
    raise TranslationError("line %s: %s: %s" % (
        getattr(node, "lineno", "?"), why, ast.dump(node)[:160] if isinstance(node, ast.AST) else node))


# --------------------------------------------------------------------------- helpers

def _strip_doc(stmts):
    stmts = list(stmts)
    if stmts and isinstance(stmts[0], ast.Expr) and isinstance(stmts[0].value, ast.Constant) \
            and isinstance(stmts[0].value.value, str):
        stmts = stmts[1:]
    return stmts


def _norm(node):
    """ast.dump of a definition with every docstring removed (recursively)"""
    node = ast.parse(ast.unparse(node)).body[0] if not isinstance(node, ast.Module) else node

    class Strip(ast.NodeTransformer):
        def visit_FunctionDef(self, n):
            self.generic_visit(n)
            n.body = _strip_doc(n.body) or [ast.Pass()]
            return n
        visit_ClassDef = visit_FunctionDef

    return ast.dump(Strip().visit(node), include_attributes=False)


def _same(node, src):
    """node is structurally the statement / expression written in src"""
    want = ast.parse(src.strip()).body[0]
    if isinstance(want, ast.Expr) and not isinstance(node, ast.stmt):
        want = want.value
    return _d(node) == _d(want)


def _d(node):
    return ast.dump(node, include_attributes=False).replace("ctx=Store()", "ctx=Load()")


def _find(body, kind, name, what):
    hits = [n for n in body if isinstance(n, kind) and getattr(n, "name", None) == name]
    if len(hits) != 1:
        raise TranslationError("expected exactly one %s %s, found %d" % (what, name, len(hits)))
    return hits[0]


def _args(fn, names, defaults=0, decorators=()):
    a = fn.args
    got = [x.arg for x in a.args]
    if (got != list(names) or a.vararg or a.kwarg or a.kwonlyargs or getattr(a, "posonlyargs", None)
            or len(a.defaults) != defaults):
        _fail(fn, "unexpected parameter list of %s (expected %s)" % (fn.name, list(names)))
    for d in a.defaults:
        if not (isinstance(d, ast.Constant) and d.value is None):
            _fail(fn, "unexpected default in %s" % fn.name)
    decs = [ast.unparse(d) for d in fn.decorator_list]
    if decs != list(decorators):
        _fail(fn, "unexpected decorators of %s: %s" % (fn.name, decs))


MUTATORS = {"append", "insert", "remove", "pop", "sort", "reverse", "extend", "clear", "add", "discard", "update"}


# --------------------------------------------------------------------------- the small translator
# types: node | optnode | list | listlist | set | bool | atnode (guarded index: option nat)

class Tr:
    def __init__(self, env, funcs=None, self_attrs=None, may_raise=False, ignore=None):
        self.env = dict(env)
        self.funcs = funcs or {}           # python method name -> (coq name, [arg types], result type)
        self.self_attrs = self_attrs or {}  # attribute of self/resolver -> (coq text, type)
        self.may_raise = may_raise
        self.ignore = ignore or (lambda st: False)
        self.rtype = None
        self.loop_fall = None              # what ``continue`` / the end of a loop body evaluates to

    # ---- expressions: returns (text, type)
    def expr(self, n, known=frozenset()):
        if isinstance(n, ast.Name):
            if n.id not in self.env:
                _fail(n, "unknown name")
            return n.id, self.env[n.id]
        if isinstance(n, ast.Constant):
            if n.value is None:
                return "None", "optnode"
            if n.value is True or n.value is False:
                return ("true" if n.value else "false"), "bool"
            _fail(n, "unsupported constant")
        if isinstance(n, ast.Attribute) and isinstance(n.value, ast.Name) and n.value.id in ("self", "resolver"):
            if n.attr in self.self_attrs:
                return self.self_attrs[n.attr]
            _fail(n, "unknown attribute")
        if isinstance(n, ast.UnaryOp) and isinstance(n.op, ast.Not):
            return "(negb %s)" % self.cond(n.operand, known), "bool"
        if isinstance(n, ast.BoolOp):
            return self.cond(n, known), "bool"
        if isinstance(n, ast.Compare):
            le = self.len_eq(n)
            if le is not None:
                return le[0], "bool"
            return self.compare(n, known), "bool"
        if isinstance(n, ast.Subscript) and isinstance(n.slice, ast.Slice):
            return self.slice(n, known)
        if isinstance(n, ast.Subscript):
            return self.index(n, known)
        if isinstance(n, ast.IfExp):
            test, facts = self.cond_k(n.test, known)
            a, ta = self.expr(n.body, facts)
            b, tb = self.expr(n.orelse, known)
            if ta != tb or ta == "atnode":
                _fail(n, "conditional expression with branches of type %s and %s" % (ta, tb))
            return "(if %s then %s else %s)" % (test, a, b), ta
        if isinstance(n, ast.ListComp):
            return self.listcomp(n, known)
        if isinstance(n, ast.List):
            parts = [self.expr(e, known) for e in n.elts]
            tys = {t for _x, t in parts}
            if tys == {"node"}:
                return "[%s]" % "; ".join(x for x, _t in parts), "list"
            if tys == {"list"}:
                return "[%s]" % "; ".join(x for x, _t in parts), "listlist"
            if not parts:
                return "[]", "list"
            _fail(n, "list display with unsupported element types %s" % sorted(tys))
        if isinstance(n, ast.BinOp) and isinstance(n.op, ast.Add):
            a, ta = self.expr(n.left, known)
            b, tb = self.expr(n.right, known)
            if ta == tb and ta in ("list", "listlist"):
                return "(%s ++ %s)" % (a, b), ta
            _fail(n, "+ on %s and %s" % (ta, tb))
        if isinstance(n, ast.Call):
            return self.call(n, known)
        _fail(n, "unsupported expression")

    def call(self, n, known):
        if n.keywords:
            _fail(n, "keyword arguments")
        f = n.func
        if isinstance(f, ast.Name):
            if f.id == "list" and len(n.args) == 1:
                x, t = self.expr(n.args[0], known)
                if t not in ("list", "listlist"):
                    _fail(n, "list() of %s" % t)
                return x, t
            if f.id == "filter" and len(n.args) == 2 and isinstance(n.args[0], ast.Constant) \
                    and n.args[0].value is None:
                x, t = self.expr(n.args[1], known)
                if t != "listlist":
                    _fail(n, "filter(None, ...) of %s" % t)
                return "(filter truthy %s)" % x, "listlist"
            if f.id == "set" and not n.args:
                return "[]", "set"
            if f.id == "len" and len(n.args) == 1:
                x, t = self.expr(n.args[0], known)
                if t not in ("list", "listlist"):
                    _fail(n, "len() of %s" % t)
                return "(length %s)" % x, "nat"
            _fail(n, "call of unknown function")
        if isinstance(f, ast.Attribute) and isinstance(f.value, ast.Name) and f.value.id in ("self", "C3") \
                and f.attr in self.funcs:
            name, argt, rest = self.funcs[f.attr]
            if len(n.args) != len(argt):
                _fail(n, "wrong number of arguments")
            parts = []
            for a, want in zip(n.args, argt):
                x, t = self.expr(a, known)
                if t != want:
                    _fail(a, "argument of type %s where %s is expected" % (t, want))
                parts.append(x)
            return "(%s %s)" % (name, " ".join(parts)), rest
        _fail(n, "unsupported call")

    def slice(self, n, known):
        """l[1:] and l[:-1] (total in Python as well: no IndexError)"""
        x, t = self.expr(n.value, known)
        if t != "list" or not isinstance(n.ctx, ast.Load):
            _fail(n, "slice of %s" % t)
        sl = n.slice
        if sl.step is None and sl.upper is None and isinstance(sl.lower, ast.Constant) and sl.lower.value == 1 \
                and type(sl.lower.value) is int:
            return "(tl %s)" % x, "list"
        if sl.step is None and sl.lower is None and isinstance(sl.upper, ast.UnaryOp) \
                and isinstance(sl.upper.op, ast.USub) and isinstance(sl.upper.operand, ast.Constant) \
                and sl.upper.operand.value == 1 and type(sl.upper.operand.value) is int:
            return "(removelast %s)" % x, "list"
        _fail(n, "only [1:] and [:-1] slices are supported")

    def index(self, n, known):
        if not (isinstance(n.value, ast.Name) and isinstance(n.ctx, ast.Load)):
            _fail(n, "subscript of a non-name")
        x, t = self.expr(n.value, known)
        if t != "list":
            _fail(n, "subscript of %s" % t)
        sl = n.slice
        if isinstance(sl, ast.Constant) and sl.value == 0:
            which = "(hd_error %s)" % x
        elif isinstance(sl, ast.UnaryOp) and isinstance(sl.op, ast.USub) and isinstance(sl.operand, ast.Constant) \
                and sl.operand.value == 1:
            which = "(hd_error (rev %s))" % x
        else:
            _fail(n, "only [0] and [-1] are supported")
        if ("nonempty", x) not in known:
            _fail(n, "index into a list that is not known to be non-empty here (IndexError possible)")
        return which, "atnode"

    def listcomp(self, n, known):
        if len(n.generators) != 1:
            _fail(n, "nested comprehension generators")
        g = n.generators[0]
        if g.is_async or not isinstance(g.target, ast.Name):
            _fail(n, "unsupported comprehension target")
        it, t = self.expr(g.iter, known)
        elty = {"list": "node", "listlist": "list"}.get(t)
        if elty is None:
            _fail(n, "comprehension over %s" % t)
        v = g.target.id
        if v in self.env:
            _fail(n, "comprehension variable shadows %s" % v)
        inner = Tr(dict(self.env, **{v: elty}), self.funcs, self.self_attrs)
        src = it
        for c in g.ifs:
            src = "(filter (fun %s => %s) %s)" % (v, inner.cond(c, known), src)
        e, te = inner.expr(n.elt, known)
        out_t = {"node": "list", "list": "listlist"}.get(te)
        if out_t is None:
            _fail(n, "comprehension element of type %s" % te)
        if e == v:
            return src, out_t
        return "(map (fun %s => %s) %s)" % (v, e, src), out_t

    def compare(self, n, known):
        if len(n.ops) != 1:
            _fail(n, "chained comparison")
        op = n.ops[0]
        a, ta = self.expr(n.left, known)
        b, tb = self.expr(n.comparators[0], known)
        if isinstance(op, (ast.Is, ast.IsNot)):
            if b == "None" and tb == "optnode" and isinstance(n.comparators[0], ast.Constant):
                if ta != "optnode":
                    _fail(n, "comparison of a %s with None" % ta)
                r = "(py_is_none %s)" % a
            else:
                fn = {("node", "node"): "py_is", ("node", "optnode"): "py_is_opt",
                      ("atnode", "node"): "py_at_is", ("atnode", "optnode"): "py_at_is_opt"}.get((ta, tb))
                if fn is None:
                    _fail(n, "`is` between %s and %s" % (ta, tb))
                r = "(%s %s %s)" % (fn, a, b)
            return r if isinstance(op, ast.Is) else "(negb %s)" % r
        if isinstance(op, (ast.In, ast.NotIn)):
            if ta not in ("node", "optnode") or tb not in ("set", "list"):
                _fail(n, "`in` between %s and %s" % (ta, tb))
            r = "(%s %s %s)" % ("py_in" if ta == "node" else "py_in_opt", a, b)
            return r if isinstance(op, ast.In) else "(negb %s)" % r
        _fail(n, "unsupported comparison")

    def len_eq(self, n):
        """len(X) == k -> (text, X)"""
        if (isinstance(n, ast.Compare) and len(n.ops) == 1 and isinstance(n.ops[0], ast.Eq)
                and isinstance(n.left, ast.Call) and isinstance(n.left.func, ast.Name) and n.left.func.id == "len"
                and len(n.left.args) == 1 and isinstance(n.left.args[0], ast.Name)
                and isinstance(n.comparators[0], ast.Constant) and type(n.comparators[0].value) is int):
            x, t = self.expr(n.left.args[0])
            if t in ("list", "listlist"):
                return "(Nat.eqb (length %s) %d)" % (x, n.comparators[0].value), x, n.comparators[0].value
        return None

    def cond(self, n, known=frozenset()):
        """truth value of n as a bool"""
        t, _k = self.cond_k(n, known)
        return t

    def cond_k(self, n, known=frozenset()):
        """-> (bool text, facts known when it is TRUE); for `not X` the facts known when FALSE are
        handled by the Or case."""
        if isinstance(n, ast.BoolOp):
            facts = set(known)
            parts = []
            if isinstance(n.op, ast.And):
                for v in n.values:
                    t, k = self.cond_k(v, frozenset(facts))
                    parts.append(t)
                    facts |= k
                out = parts[-1]
                for p in reversed(parts[:-1]):
                    out = "(andb %s %s)" % (p, out)
                return out, frozenset(facts)
            for v in n.values:       # Or: later operands run when the earlier ones were false
                t, _k = self.cond_k(v, frozenset(facts))
                parts.append(t)
                facts |= self.false_facts(v)
            out = parts[-1]
            for p in reversed(parts[:-1]):
                out = "(orb %s %s)" % (p, out)
            return out, frozenset(known)
        le = self.len_eq(n)
        if le is not None:
            t, x, k = le
            return t, frozenset(known | ({("nonempty", x)} if k >= 1 else set()))
        if isinstance(n, ast.UnaryOp) and isinstance(n.op, ast.Not):
            return "(negb %s)" % self.cond(n.operand, known), frozenset(known)
        x, t = self.expr(n, known)
        if t == "bool":
            facts = set(known)
            if (isinstance(n, ast.Compare) and isinstance(n.ops[0], ast.IsNot)
                    and isinstance(n.comparators[0], ast.Constant) and n.comparators[0].value is None
                    and isinstance(n.left, ast.Name)):
                facts.add(("notnone", n.left.id))
            return x, frozenset(facts)
        if t in ("list", "listlist", "set") and isinstance(n, ast.Name):
            return "(truthy %s)" % x, frozenset(known | {("nonempty", x)})
        _fail(n, "truth value of %s" % t)

    def false_facts(self, n):
        if isinstance(n, ast.UnaryOp) and isinstance(n.op, ast.Not) and isinstance(n.operand, ast.Name) \
                and self.env.get(n.operand.id) in ("list", "listlist"):
            return {("nonempty", n.operand.id)}
        return set()

    # ---- statements
    @staticmethod
    def _has(stmts, kinds):
        return any(isinstance(x, kinds) for s in stmts for x in ast.walk(s))

    def assigned(self, stmts):
        out = []
        for s in stmts:
            for x in ast.walk(s):
                name = None
                if isinstance(x, ast.Assign):
                    for t in x.targets:
                        if not isinstance(t, ast.Name):
                            _fail(x, "assignment to a non-name")
                        name = t.id
                        if name not in out:
                            out.append(name)
                elif isinstance(x, ast.Expr) and isinstance(x.value, ast.Call) \
                        and isinstance(x.value.func, ast.Attribute) and isinstance(x.value.func.value, ast.Name) \
                        and x.value.func.attr in MUTATORS:
                    name = x.value.func.value.id
                    if name not in out:
                        out.append(name)
        return out

    @staticmethod
    def tup(names):
        return names[0] if len(names) == 1 else "(" + ", ".join(names) + ")"

    @staticmethod
    def pat(names):
        return names[0] if len(names) == 1 else "'(" + ", ".join(names) + ")"

    def ret(self, value, mode, known):
        if mode == "fold":
            _fail(value, "return inside a loop that updates locals")
        if value is None or (isinstance(value, ast.Constant) and value.value is None):
            x, t = "None", "optnode"
        else:
            x, t = self.expr(value, known)
        if self.rtype == "optnode" and t == "node":
            x = "(Some %s)" % x
        elif t != self.rtype:
            _fail(value, "returns %s where %s is expected" % (t, self.rtype))
        if self.may_raise:
            x = "(Ret %s)" % x
        return x if mode == "fn" else "(Some %s)" % x

    def raise_(self, exc, mode):
        if not self.may_raise:
            _fail(exc, "raise in a function translated as pure")
        return "(Raise %s)" % exc if mode == "fn" else "(Some (Raise %s))" % exc

    def seq(self, stmts, mode, fall, known=frozenset()):
        """stmts in sequence; fall() gives the text for control falling off the end."""
        if not stmts:
            return fall()
        s, rest = stmts[0], stmts[1:]
        if self.ignore(s):
            return self.seq(rest, mode, fall, known)
        if isinstance(s, ast.Return):
            if rest:
                _fail(rest[0], "statement after return")
            return self.ret(s.value, mode, known)
        if isinstance(s, ast.Continue):
            if rest or self.loop_fall is None:
                _fail(s, "misplaced continue")
            return self.loop_fall()
        if isinstance(s, ast.Assign):
            if len(s.targets) != 1 or not isinstance(s.targets[0], ast.Name):
                _fail(s, "unsupported assignment target")
            name = s.targets[0].id
            v = s.value
            # V = L[0] with L not known to be non-empty: IndexError is a possible outcome
            if isinstance(v, ast.Subscript) and isinstance(v.value, ast.Name) and isinstance(v.slice, ast.Constant) \
                    and v.slice.value == 0 and self.env.get(v.value.id) == "list" \
                    and ("nonempty", v.value.id) not in known:
                if name in self.env:
                    _fail(s, "rebinding %s" % name)
                self.env[name] = "node"
                body = self.seq(rest, mode, fall, known | {("nonempty", v.value.id)})
                return "match %s with [] => %s | %s :: _ => %s end" % (
                    v.value.id, self.raise_("IndexError", mode), name, body)
            x, t = self.expr(v, known)
            if t == "atnode":
                _fail(s, "binding a guarded index")
            if name in self.env and self.env[name] != t:
                if not (self.env[name] == "optnode" and t == "node"):
                    _fail(s, "%s changes type from %s to %s" % (name, self.env[name], t))
                x = "(Some %s)" % x
                t = "optnode"
            self.env[name] = t
            k2 = frozenset(f for f in known if f[1] != name)
            return "let %s := %s in %s" % (name, x, self.seq(rest, mode, fall, k2))
        if isinstance(s, ast.Expr) and isinstance(s.value, ast.Call) and isinstance(s.value.func, ast.Attribute) \
                and isinstance(s.value.func.value, ast.Name) and s.value.func.value.id in self.env:
            c = s.value
            name, meth = c.func.value.id, c.func.attr
            ty = self.env[name]
            if c.keywords:
                _fail(s, "keyword arguments")
            if meth == "append" and ty == "list" and len(c.args) == 1:
                x, t = self.expr(c.args[0], known)
                if t == "node":
                    new = "(%s ++ [%s])" % (name, x)
                elif t == "optnode" and ("notnone", x) in known:
                    new = "(%s ++ opt_to_list %s)" % (name, x)
                else:
                    _fail(s, "append of %s (possibly None)" % t)
            elif meth == "insert" and ty == "list" and len(c.args) == 2 and isinstance(c.args[0], ast.Constant) \
                    and c.args[0].value == 0 and type(c.args[0].value) is int:
                x, t = self.expr(c.args[1], known)
                if t == "node":
                    new = "(%s :: %s)" % (x, name)
                elif t == "optnode" and ("notnone", x) in known:
                    new = "(opt_to_list %s ++ %s)" % (x, name)
                else:
                    _fail(s, "insert of %s (possibly None)" % t)
            elif meth == "add" and ty == "set" and len(c.args) == 1:
                x, t = self.expr(c.args[0], known)
                if t != "node":
                    _fail(s, "add of %s" % t)
                new = "(%s :: %s)" % (x, name)
            else:
                _fail(s, "unsupported mutation")
            k2 = frozenset(f for f in known if f[1] != name)
            return "let %s := %s in %s" % (name, new, self.seq(rest, mode, fall, k2))
        if isinstance(s, ast.If):
            if s.orelse:
                _fail(s, "else/elif")
            test, facts = self.cond_k(s.test, known)
            if not self._has(s.body, (ast.Return, ast.Continue, ast.Raise, ast.For, ast.While)):
                vs = self.assigned(s.body)
                if not vs or any(v not in self.env for v in vs):
                    _fail(s, "if body must update existing locals")
                inner = Tr(self.env, self.funcs, self.self_attrs, self.may_raise, self.ignore)
                inner.rtype = getattr(self, "rtype", None)
                then = inner.seq(list(s.body), "state", lambda: self.tup(vs), facts)
                for v in vs:
                    if inner.env[v] != self.env[v]:
                        _fail(s, "%s changes type in a branch" % v)
                k2 = frozenset(f for f in known if f[1] not in vs)
                return "let %s := (if %s then %s else %s) in %s" % (
                    self.pat(vs), test, then, self.tup(vs), self.seq(rest, mode, fall, k2))
            env0 = dict(self.env)
            k = lambda: self.seq(rest, mode, fall, known)   # noqa: E731
            then = self.seq(list(s.body), mode, k, facts)
            self.env = dict(env0)
            els = k()
            return "(if %s then %s else %s)" % (test, then, els)
        if isinstance(s, ast.For):
            if s.orelse or not isinstance(s.target, ast.Name):
                _fail(s, "unsupported for statement")
            it = s.iter
            rev = False
            if isinstance(it, ast.Call) and isinstance(it.func, ast.Name) and it.func.id == "reversed" \
                    and len(it.args) == 1 and not it.keywords:
                rev, it = True, it.args[0]
            if not (isinstance(it, ast.Name) or (isinstance(it, ast.Subscript) and isinstance(it.slice, ast.Slice)
                                                 and isinstance(it.value, ast.Name))):
                _fail(s, "loop over something that is not a local name or a slice of one")
            x, t = self.expr(it, known)
            elty = {"list": "node", "listlist": "list"}.get(t)
            if elty is None:
                _fail(s, "loop over %s" % t)
            src = "(rev %s)" % x if rev else x
            v = s.target.id
            if v in self.env:
                _fail(s, "loop variable shadows %s" % v)
            if self._has(s.body, (ast.Return, ast.Raise)) or self._index_assign(s.body):
                if any(a in self.env for a in self.assigned(s.body)):
                    _fail(s, "loop both returns and updates outer locals")
                inner = type(self)(dict(self.env, **{v: elty}), self.funcs, self.self_attrs, self.may_raise, self.ignore)
                inner.rtype = self.rtype
                inner.loop_fall = lambda: "None"
                body = inner.seq(list(s.body), "for_ret", lambda: "None", known)
                after = self.seq(rest, mode, fall, known)
                if mode == "fn":
                    return "match for_ret %s (fun %s => %s) with Some r => r | None => %s end" % (src, v, body, after)
                if mode == "for_ret":
                    return "match for_ret %s (fun %s => %s) with Some r => Some r | None => %s end" % (
                        src, v, body, after)
                _fail(s, "returning loop inside a state-updating loop")
            vs = self.assigned(s.body)
            if not vs or any(a not in self.env for a in vs):
                _fail(s, "loop must update existing locals")
            inner = type(self)(dict(self.env, **{v: elty}), self.funcs, self.self_attrs, self.may_raise, self.ignore)
            inner.rtype = self.rtype
            inner.loop_fall = lambda: self.tup(vs)
            body = inner.seq(list(s.body), "fold", lambda: self.tup(vs), known)
            for a in vs:
                if inner.env[a] != self.env[a]:
                    _fail(s, "%s changes type in a loop" % a)
            k2 = frozenset(f for f in known if f[1] not in vs)
            return "let %s := fold_left (fun st %s => let %s := st in %s) %s %s in %s" % (
                self.pat(vs), v, self.pat(vs), body, src, self.tup(vs), self.seq(rest, mode, fall, k2))
        _fail(s, "unsupported statement")

    @staticmethod
    def _is_index_assign(st):
        return (isinstance(st, ast.Assign) and isinstance(st.value, ast.Subscript))

    def _index_assign(self, stmts):
        return any(self._is_index_assign(st) for st in stmts)

    def function(self, stmts, rtype, end=None):
        """whole body; end = text when the body falls off its end (``return None``)"""
        self.rtype = rtype

        def fall():
            if end is None:
                raise TranslationError("function body can fall off its end")
            return end
        return self.seq(_strip_doc(stmts), "fn", fall)


COQ_T = {"node": "nat", "optnode": "option nat", "list": "list nat", "listlist": "list (list nat)",
         "bool": "bool", "set": "list nat"}


def _define(name, params, rtype, body, comment):
    ps = " ".join("(%s : %s)" % (p, COQ_T[t]) for p, t in params)
    return "(* %s *)\nDefinition %s %s : %s :=\n  %s.\n" % (comment, name, ps, rtype, body)


# --------------------------------------------------------------------------- pinned shapes

PINNED_RO = '''
def _legacy_mergeOrderings(orderings):
    seen = set()
    result = []
    for ordering in reversed(orderings):
        for o in reversed(ordering):
            if o not in seen:
                seen.add(o)
                result.insert(0, o)

    return result


def _legacy_flatten(begin):
    result = [begin]
    i = 0
    for ob in iter(result):
        i += 1
        result[i:i] = ob.__bases__
    return result


def _legacy_ro(ob):
    return _legacy_mergeOrderings([_legacy_flatten(ob)])


class InconsistentResolutionOrderError(TypeError):
    pass


class _StaticMRO:
    had_inconsistency = None  # We don't know...

    def __init__(self, C, mro):
        self.leaf = C
        self.__mro = tuple(mro)

    def mro(self):
        return list(self.__mro)


class C3:
    @staticmethod
    def resolver(C, strict, base_mros):
        strict = strict if strict is not None else C3.STRICT_IRO
        factory = C3
        if strict:
            factory = _StrictC3
        elif C3.TRACK_BAD_IRO:
            factory = _TrackingC3

        memo = {}
        base_mros = base_mros or {}
        for base, mro in base_mros.items():
            assert base in C.__bases__
            memo[base] = _StaticMRO(base, mro)

        return factory(C, memo)

    __mro = None
    __legacy_ro = None
    direct_inconsistency = False

    def __init__(self, C, memo):
        self.leaf = C
        self.memo = memo
        kind = self.__class__
        bases = C.__bases__

        base_resolvers = []
        for base in bases:
            if base not in memo:
                resolver = kind(base, memo)
                memo[base] = resolver
            base_resolvers.append(memo[base])

        self.base_tree = [
            [C]
        ] + [
            memo[base].mro() for base in bases
        ] + [
            list(bases)
        ]

        self.bases_had_inconsistency = any(
            base.had_inconsistency for base in base_resolvers
        )

        if len(bases) == 1:
            self.__mro = [C] + memo[bases[0]].mro()

    @property
    def had_inconsistency(self):
        return self.direct_inconsistency or self.bases_had_inconsistency

    @property
    def legacy_ro(self):
        if self.__legacy_ro is None:
            self.__legacy_ro = tuple(_legacy_ro(self.leaf))
        return list(self.__legacy_ro)

    @staticmethod
    def _can_choose_base(base, base_tree_remaining):
        for bases in base_tree_remaining:
            if not bases or bases[0] is base:
                continue

            for b in bases:
                if b is base:
                    return False
        return True

    @staticmethod
    def _nonempty_bases_ignoring(base_tree, ignoring):
        return list(filter(None, [
            [b for b in bases if b is not ignoring]
            for bases
            in base_tree
        ]))

    def _choose_next_base(self, base_tree_remaining):
        base = self._find_next_C3_base(base_tree_remaining)
        if base is not None:
            return base
        return self._guess_next_base(base_tree_remaining)

    def _find_next_C3_base(self, base_tree_remaining):
        for bases in base_tree_remaining:
            base = bases[0]
            if self._can_choose_base(base, base_tree_remaining):
                return base
        return None

    class _UseLegacyRO(Exception):
        pass

    def _guess_next_base(self, base_tree_remaining):
        self._warn_iro()
        self.direct_inconsistency = InconsistentResolutionOrderError(
            self, base_tree_remaining,
        )
        raise self._UseLegacyRO

    def _merge(self):
        result = self.__mro = []
        base_tree_remaining = self.base_tree
        base = None
        while 1:
            base_tree_remaining = self._nonempty_bases_ignoring(
                base_tree_remaining, base
            )

            if not base_tree_remaining:
                return result
            try:
                base = self._choose_next_base(base_tree_remaining)
            except self._UseLegacyRO:
                self.__mro = self.legacy_ro
                return self.legacy_ro

            result.append(base)

    def mro(self):
        if self.__mro is None:
            self.__mro = tuple(self._merge())
        return list(self.__mro)


class _StrictC3(C3):
    __slots__ = ()

    def _guess_next_base(self, base_tree_remaining):
        raise InconsistentResolutionOrderError(self, base_tree_remaining)


class _TrackingC3(C3):
    __slots__ = ()

    def _guess_next_base(self, base_tree_remaining):
        import traceback
        bad_iros = C3.BAD_IROS
        if self.leaf not in bad_iros:
            if bad_iros == ():
                import weakref

                # This is a race condition, but it doesn't matter much.
                bad_iros = C3.BAD_IROS = weakref.WeakKeyDictionary()
            bad_iros[self.leaf] = t = (
                InconsistentResolutionOrderError(self, base_tree_remaining),
                traceback.format_stack()
            )
            _logger().warning("Tracking inconsistent IRO: %s", t[0])
        return C3._guess_next_base(self, base_tree_remaining)


def ro(
    C, strict=None, base_mros=None, log_changed_ro=None, use_legacy_ro=None,
):
    resolver = C3.resolver(C, strict, base_mros)
    mro = resolver.mro()

    log_changed = (
        log_changed_ro if log_changed_ro is not None
        else resolver.LOG_CHANGED_IRO
    )
    use_legacy = (
        use_legacy_ro if use_legacy_ro is not None
        else resolver.USE_LEGACY_IRO
    )

    if log_changed or use_legacy:
        legacy_ro = resolver.legacy_ro
        assert isinstance(legacy_ro, list)
        assert isinstance(mro, list)
        changed = legacy_ro != mro
        if changed:
            legacy_without_root = [x for x in legacy_ro if x is not _ROOT]
            mro_without_root = [x for x in mro if x is not _ROOT]
            changed = legacy_without_root != mro_without_root

        if changed:
            comparison = _ROComparison(resolver, mro, legacy_ro)
            _logger().warning(
                "Object %r has different legacy and C3 MROs:\\n%s",
                C, comparison
            )
        if resolver.had_inconsistency and legacy_ro == mro:
            comparison = _ROComparison(resolver, mro, legacy_ro)
            _logger().warning(
                "Object %r had inconsistent IRO and used the legacy RO:\\n%s"
                "\\nInconsistency entered at:\\n%s",
                C, comparison, resolver.direct_inconsistency
            )
        if use_legacy:
            return legacy_ro

    return mro


def is_consistent(C):
    resolver = C3.resolver(C, False, None)
    # The inconsistency of *C* itself is only detected while merging.
    resolver.mro()
    return not resolver.had_inconsistency
'''

PINNED_SRO = '''
class Specification(SpecificationBase):
    _do_calculate_ro = calculate_ro

    def _calculate_sro(self):
        sro = self._do_calculate_ro(base_mros={
            b: b.__sro__
            for b in self.__bases__
        })
        root = self._ROOT
        if root is not None and sro and sro[-1] is not root:
            sro = [
                x
                for x in sro
                if x is not root
            ]
            sro.append(root)

        return sro
'''


def _pinned(node, pinned_module, path, what):
    """node must be structurally identical to the definition at `path` of the pinned copy"""
    cur = pinned_module.body
    want = None
    for i, name in enumerate(path):
        want = _find(cur, (ast.FunctionDef, ast.ClassDef), name, "pinned")
        cur = want.body
    if _norm(node) != _norm(want):
        raise TranslationError("%s is pinned (not translated; the hand model covers it) and no longer has the "
                               "pinned shape" % what)


# --------------------------------------------------------------------------- ro.py

LOGGING_NAMES = {"changed", "legacy_without_root", "mro_without_root", "comparison"}


def _is_logging_stmt(s):
    """statements of ro() ignored by name; verified to be free of control flow and mutation"""
    def clean(node):
        for x in ast.walk(node):
            if isinstance(x, (ast.Return, ast.Raise, ast.Yield, ast.YieldFrom, ast.Break, ast.Continue,
                              ast.AugAssign, ast.Delete, ast.Global, ast.Nonlocal, ast.Import, ast.ImportFrom,
                              ast.NamedExpr, ast.Try, ast.While, ast.For, ast.With)):
                return False
            if isinstance(x, ast.Assign):
                if not all(isinstance(t, ast.Name) and t.id in LOGGING_NAMES for t in x.targets):
                    return False
            if isinstance(x, ast.Call) and isinstance(x.func, ast.Attribute) and x.func.attr in MUTATORS:
                return False
        return True

    if isinstance(s, ast.Assert):
        return clean(s)
    if isinstance(s, ast.Assign) and all(isinstance(t, ast.Name) and t.id in LOGGING_NAMES for t in s.targets):
        return clean(s)
    if isinstance(s, ast.Expr) and isinstance(s.value, ast.Call) and ast.unparse(s.value.func) == "_logger().warning":
        return clean(s)
    if isinstance(s, ast.If) and not s.orelse:
        names = {x.id for x in ast.walk(s.test) if isinstance(x, ast.Name)}
        # a test that only looks at logging names / the two orders / the resolver, and a body of logging
        if names <= (LOGGING_NAMES | {"resolver", "legacy_ro", "mro"}) and names & (LOGGING_NAMES | {"resolver"}) \
                and "use_legacy" not in names and all(_is_logging_stmt(b) for b in s.body) and clean(s.test):
            return True
    return False


def _translate_ro(module, pinned):
    out = []
    top = module.body
    c3 = _find(top, ast.ClassDef, "C3", "class")
    strict = _find(top, ast.ClassDef, "_StrictC3", "class")
    tracking = _find(top, ast.ClassDef, "_TrackingC3", "class")
    static = _find(top, ast.ClassDef, "_StaticMRO", "class")
    exc = _find(top, ast.ClassDef, "InconsistentResolutionOrderError", "class")
    if [ast.unparse(b) for b in c3.bases] != [] or c3.keywords or c3.decorator_list:
        _fail(c3, "C3 must be a plain class")
    if [ast.unparse(b) for b in strict.bases] != ["C3"] or [ast.unparse(b) for b in tracking.bases] != ["C3"]:
        _fail(strict, "_StrictC3 / _TrackingC3 must derive from C3 only")
    if [ast.unparse(b) for b in exc.bases] != ["TypeError"]:
        _fail(exc, "InconsistentResolutionOrderError must derive from TypeError only")
    use_legacy_exc = _find(c3.body, ast.ClassDef, "_UseLegacyRO", "class")
    if [ast.unparse(b) for b in use_legacy_exc.bases] != ["Exception"]:
        _fail(use_legacy_exc, "_UseLegacyRO must derive from Exception only")
    # nothing else may be defined twice / rebound
    for cls in (c3, strict, tracking):
        names = [n.name for n in cls.body if isinstance(n, (ast.FunctionDef, ast.ClassDef))]
        if len(names) != len(set(names)):
            _fail(cls, "a method is defined twice")
    known_methods = {"resolver", "__init__", "had_inconsistency", "legacy_ro", "_warn_iro", "_can_choose_base",
                     "_nonempty_bases_ignoring", "_choose_next_base", "_find_next_C3_base", "_guess_next_base",
                     "_merge", "mro"}
    extra = {n.name for n in c3.body if isinstance(n, ast.FunctionDef)} - known_methods
    if extra:
        _fail(c3, "class C3 has methods this translator does not know: %s" % sorted(extra))
    for cls in (strict, tracking):
        fns = [n.name for n in cls.body if isinstance(n, ast.FunctionDef)]
        if fns != ["_guess_next_base"]:
            _fail(cls, "%s may only override _guess_next_base" % cls.name)
    # class attributes of C3 that the kernels rely on
    for src in ("__mro = None", "__legacy_ro = None", "direct_inconsistency = False"):
        if not any(_same(n, src) for n in c3.body):
            _fail(c3, "class attribute `%s` not found" % src)

    def meth(cls, name):
        return _find(cls.body, ast.FunctionDef, name, "method")

    # ---- pinned
    _pinned(static, pinned, ["_StaticMRO"], "_StaticMRO")
    _pinned(meth(c3, "resolver"), pinned, ["C3", "resolver"], "C3.resolver")
    _pinned(meth(c3, "legacy_ro"), pinned, ["C3", "legacy_ro"], "C3.legacy_ro")
    _pinned(meth(c3, "mro"), pinned, ["C3", "mro"], "C3.mro")
    _pinned(meth(tracking, "_guess_next_base"), pinned, ["_TrackingC3", "_guess_next_base"],
            "_TrackingC3._guess_next_base")

    # ---- _legacy_mergeOrderings / _legacy_ro
    fn = _find(top, ast.FunctionDef, "_legacy_mergeOrderings", "function")
    _args(fn, ["orderings"])
    t = Tr({"orderings": "listlist"})
    out.append(_define("gen_legacy_mergeOrderings", [("orderings", "listlist")], "list nat",
                       t.function(fn.body, "list"), "ro.py:_legacy_mergeOrderings"))
    fn = _find(top, ast.FunctionDef, "_legacy_ro", "function")
    _args(fn, ["ob"])
    body = _strip_doc(fn.body)
    if not (len(body) == 1 and _same(body[0], "return _legacy_mergeOrderings([_legacy_flatten(ob)])")):
        _fail(fn, "_legacy_ro is not `return _legacy_mergeOrderings([_legacy_flatten(ob)])`")
    out.append(_define("gen_legacy_ro", [("legacy_flatten_ob", "list")], "list nat",
                       "gen_legacy_mergeOrderings [legacy_flatten_ob]",
                       "ro.py:_legacy_ro applied to the value of _legacy_flatten(ob)"))
    out.append(_translate_flatten(_find(top, ast.FunctionDef, "_legacy_flatten", "function")))
    out.append("(* ro.py:_legacy_ro(ob) = _legacy_mergeOrderings([_legacy_flatten(ob)]); None = loop fuel ran out *)\n"
               "Definition gen_legacy_ro_of (fuel : nat) (bases_of : nat -> list nat) (ob : nat) : option (list nat) :=\n"
               "  match gen_legacy_flatten fuel bases_of ob with Some flat => Some (gen_legacy_ro flat) | None => None end.\n")

    # ---- _can_choose_base
    fn = meth(c3, "_can_choose_base")
    _args(fn, ["base", "base_tree_remaining"], decorators=["staticmethod"])
    t = Tr({"base": "node", "base_tree_remaining": "listlist"})
    out.append(_define("gen_can_choose_base", [("base", "node"), ("base_tree_remaining", "listlist")], "bool",
                       t.function(fn.body, "bool"), "ro.py:C3._can_choose_base"))
    funcs = {"_can_choose_base": ("gen_can_choose_base", ["node", "listlist"], "bool")}

    # ---- _nonempty_bases_ignoring
    fn = meth(c3, "_nonempty_bases_ignoring")
    _args(fn, ["base_tree", "ignoring"], decorators=["staticmethod"])
    t = Tr({"base_tree": "listlist", "ignoring": "optnode"})
    out.append(_define("gen_nonempty_bases_ignoring", [("base_tree", "listlist"), ("ignoring", "optnode")],
                       "list (list nat)", t.function(fn.body, "listlist"), "ro.py:C3._nonempty_bases_ignoring"))

    # ---- _find_next_C3_base
    fn = meth(c3, "_find_next_C3_base")
    _args(fn, ["self", "base_tree_remaining"])
    t = Tr({"base_tree_remaining": "listlist"}, funcs, may_raise=True)
    out.append(_define("gen_find_next_C3_base", [("base_tree_remaining", "listlist")], "pyres (option nat)",
                       t.function(fn.body, "optnode"),
                       "ro.py:C3._find_next_C3_base (bases[0] of an empty sequence raises IndexError)"))

    # ---- _guess_next_base (C3 and _StrictC3): (direct_inconsistency set?, exception)
    def guess(fn, who):
        _args(fn, ["self", "base_tree_remaining"])
        direct = "false"
        body = _strip_doc(fn.body)
        for i, s in enumerate(body):
            if _same(s, "self._warn_iro()"):
                continue                                   # ignored by name: only warns
            if (isinstance(s, ast.Assign) and len(s.targets) == 1 and _same(s.targets[0], "self.direct_inconsistency")
                    and isinstance(s.value, ast.Call) and _same(s.value.func, "InconsistentResolutionOrderError")):
                direct = "true"                            # an exception instance: truthy
                continue
            if isinstance(s, ast.Raise) and s.cause is None and i == len(body) - 1:
                if _same(s.exc, "self._UseLegacyRO"):
                    return "(%s, UseLegacyRO)" % direct
                if isinstance(s.exc, ast.Call) and _same(s.exc.func, "InconsistentResolutionOrderError"):
                    return "(%s, InconsistentResolutionOrderError)" % direct
            _fail(s, "unsupported statement in %s._guess_next_base" % who)
        _fail(fn, "%s._guess_next_base does not end with a raise" % who)

    out.append("(* ro.py:C3._guess_next_base / _StrictC3._guess_next_base:\n"
               "   (is self.direct_inconsistency set to a true value?, the exception raised) *)\n"
               "Definition gen_guess_next_base (strict : bool) : bool * pyexc :=\n"
               "  if strict then %s else %s.\n" % (guess(meth(strict, "_guess_next_base"), "_StrictC3"),
                                                  guess(meth(c3, "_guess_next_base"), "C3")))

    # ---- _choose_next_base
    fn = meth(c3, "_choose_next_base")
    _args(fn, ["self", "base_tree_remaining"])
    body = _strip_doc(fn.body)
    if not (len(body) == 3 and _same(body[0], "base = self._find_next_C3_base(base_tree_remaining)")
            and _same(body[2], "return self._guess_next_base(base_tree_remaining)")
            and isinstance(body[1], ast.If) and not body[1].orelse and len(body[1].body) == 1):
        _fail(fn, "_choose_next_base: unexpected shape")
    t = Tr({"base": "optnode"})
    t.rtype = "node"
    test = t.cond(body[1].test)
    r = body[1].body[0]
    if not (isinstance(r, ast.Return) and _same(r.value, "base")):
        _fail(r, "_choose_next_base: expected `return base`")
    out.append("(* ro.py:C3._choose_next_base: (outcome, direct_inconsistency set?) *)\n"
               "Definition gen_choose_next_base (strict : bool) (base_tree_remaining : list (list nat))\n"
               "  : pyres nat * bool :=\n"
               "  match gen_find_next_C3_base base_tree_remaining with\n"
               "  | Raise e => (Raise e, false)\n"
               "  | Ret base =>\n"
               "      if %s then (match base with Some b => Ret b | None => Raise IndexError end, false)\n"
               "      else let '(direct, e) := gen_guess_next_base strict in (Raise e, direct)\n"
               "  end.\n" % test)

    # ---- had_inconsistency
    fn = meth(c3, "had_inconsistency")
    _args(fn, ["self"], decorators=["property"])
    t = Tr({}, self_attrs={"direct_inconsistency": ("direct_inconsistency", "bool"),
                           "bases_had_inconsistency": ("bases_had_inconsistency", "bool")})
    out.append(_define("gen_had_inconsistency", [("direct_inconsistency", "bool"), ("bases_had_inconsistency", "bool")],
                       "bool", t.function(fn.body, "bool"), "ro.py:C3.had_inconsistency"))

    # ---- __init__
    fn = meth(c3, "__init__")
    _args(fn, ["self", "C", "memo"])
    body = _strip_doc(fn.body)
    head = ["self.leaf = C", "self.memo = memo", "kind = self.__class__", "bases = C.__bases__",
            "base_resolvers = []",
            "for base in bases:\n    if base not in memo:\n        resolver = kind(base, memo)\n"
            "        memo[base] = resolver\n    base_resolvers.append(memo[base])"]
    if len(body) != len(head) + 3:
        _fail(fn, "C3.__init__: unexpected number of statements")
    for s, src in zip(body, head):
        if not _same(s, src):
            _fail(s, "C3.__init__: expected `%s`" % src.split("\n")[0])
    s_tree, s_inc, s_short = body[len(head):]

    class InitTr(Tr):
        def expr(self, n, known=frozenset()):
            if _same(n, "[memo[base].mro() for base in bases]"):
                return "base_mros", "listlist"             # the orders of the bases, in base order
            if _same(n, "memo[bases[0]].mro()"):
                if ("nonempty", "bases") not in known:
                    _fail(n, "bases[0] where bases may be empty")
                return "(py_first_list base_mros)", "list"
            return Tr.expr(self, n, known)

    t = InitTr({"C": "node", "bases": "list"})
    if not (isinstance(s_tree, ast.Assign) and len(s_tree.targets) == 1 and _same(s_tree.targets[0], "self.base_tree")):
        _fail(s_tree, "C3.__init__: expected `self.base_tree = ...`")
    x, ty = t.expr(s_tree.value)
    if ty != "listlist":
        _fail(s_tree, "base_tree is not a list of lists")
    out.append("(* ro.py:C3.__init__: self.base_tree; base_mros = [memo[base].mro() for base in bases] *)\n"
               "Definition gen_base_tree (C : nat) (bases : list nat) (base_mros : list (list nat)) : list (list nat) :=\n"
               "  %s.\n" % x)
    if not (isinstance(s_inc, ast.Assign) and len(s_inc.targets) == 1
            and _same(s_inc.targets[0], "self.bases_had_inconsistency")):
        _fail(s_inc, "C3.__init__: expected `self.bases_had_inconsistency = ...`")
    v = s_inc.value
    if _same(v, "any(base.had_inconsistency for base in base_resolvers)"):
        agg = "existsb (fun i : bool => i) base_incs"
    elif _same(v, "all(base.had_inconsistency for base in base_resolvers)"):
        agg = "forallb (fun i : bool => i) base_incs"
    elif isinstance(v, ast.Constant) and v.value in (True, False) and type(v.value) is bool:
        agg = "true" if v.value else "false"
    else:
        _fail(s_inc, "unsupported aggregate for bases_had_inconsistency")
    out.append("(* ro.py:C3.__init__: self.bases_had_inconsistency; base_incs = had_inconsistency of the\n"
               "   resolvers of the bases (None of a _StaticMRO counts as false) *)\n"
               "Definition gen_bases_had_inconsistency (base_incs : list bool) : bool :=\n  %s.\n" % agg)
    if not (isinstance(s_short, ast.If) and not s_short.orelse and len(s_short.body) == 1
            and isinstance(s_short.body[0], ast.Assign) and len(s_short.body[0].targets) == 1
            and _same(s_short.body[0].targets[0], "self.__mro")):
        _fail(s_short, "C3.__init__: expected `if ...: self.__mro = ...`")
    test, facts = t.cond_k(s_short.test)
    x, ty = t.expr(s_short.body[0].value, facts)
    if ty != "list":
        _fail(s_short, "the preset order is not a list")
    out.append("(* ro.py:C3.__init__: the order preset by the single-base short cut (None = self.__mro stays None) *)\n"
               "Definition gen_init_mro (C : nat) (bases : list nat) (base_mros : list (list nat)) : option (list nat) :=\n"
               "  if %s then Some %s else None.\n" % (test, x))

    # ---- _merge
    out.append(_translate_merge(meth(c3, "_merge")))

    # ---- mro() is pinned: `if self.__mro is None: self.__mro = tuple(self._merge())`, `return list(self.__mro)`
    out.append("(* ro.py:C3.mro (pinned shape): the preset order, or else the merge *)\n"
               "Definition gen_mro (fuel : nat) (strict : bool) (C : nat) (bases : list nat)\n"
               "    (base_mros : list (list nat)) (legacy_ro : list nat) : mro_out :=\n"
               "  match gen_init_mro C bases base_mros with\n"
               "  | Some m => MroRet m false\n"
               "  | None => gen_merge fuel strict legacy_ro (gen_base_tree C bases base_mros)\n"
               "  end.\n")

    # ---- ro()
    fn = _find(top, ast.FunctionDef, "ro", "function")
    _args(fn, ["C", "strict", "base_mros", "log_changed_ro", "use_legacy_ro"], defaults=4)
    body = _strip_doc(fn.body)
    if len(body) != 6:
        _fail(fn, "ro(): unexpected number of statements")
    if not _same(body[0], "resolver = C3.resolver(C, strict, base_mros)"):
        _fail(body[0], "ro(): expected `resolver = C3.resolver(C, strict, base_mros)`")
    if not _same(body[1], "mro = resolver.mro()"):
        _fail(body[1], "ro(): expected `mro = resolver.mro()`")
    if not _same(body[2], "log_changed = (log_changed_ro if log_changed_ro is not None else resolver.LOG_CHANGED_IRO)"):
        _fail(body[2], "ro(): unexpected log_changed")
    s = body[3]
    if not (isinstance(s, ast.Assign) and len(s.targets) == 1 and _same(s.targets[0], "use_legacy")
            and isinstance(s.value, ast.IfExp)):
        _fail(s, "ro(): expected `use_legacy = ... if ... else ...`")
    ie = s.value
    if _same(ie.test, "use_legacy_ro is not None") and _same(ie.body, "use_legacy_ro") \
            and _same(ie.orelse, "resolver.USE_LEGACY_IRO"):
        sel = "match use_legacy_ro with Some b => b | None => env_USE_LEGACY_IRO end"
    else:
        _fail(s, "ro(): unsupported selection of use_legacy")
    out.append("(* ro.py:ro: use_legacy (argument, else the ZOPE_INTERFACE_USE_LEGACY_IRO setting) *)\n"
               "Definition gen_use_legacy (use_legacy_ro : option bool) (env_USE_LEGACY_IRO : bool) : bool :=\n"
               "  %s.\n" % sel)
    s = body[4]
    if not (isinstance(s, ast.If) and not s.orelse):
        _fail(s, "ro(): expected `if log_changed or use_legacy:`")
    inner = list(s.body)
    if not inner or not _same(inner[0], "legacy_ro = resolver.legacy_ro"):
        _fail(s, "ro(): the block must start with `legacy_ro = resolver.legacy_ro`")
    t = Tr({"log_changed": "bool", "use_legacy": "bool", "mro": "list", "legacy_ro": "list"}, ignore=_is_logging_stmt)
    text = t.function([ast.If(test=s.test, body=inner[1:], orelse=[])] + [body[5]], "list")
    out.append(_define("gen_ro", [("log_changed", "bool"), ("use_legacy", "bool"), ("mro", "list"),
                                  ("legacy_ro", "list")], "list nat", text,
                       "ro.py:ro after `mro = resolver.mro()` (an exception of mro() propagates); logging ignored"))

    # ---- is_consistent
    fn = _find(top, ast.FunctionDef, "is_consistent", "function")
    _args(fn, ["C"])
    body = _strip_doc(fn.body)
    calls_mro = "false"
    strict_arg = None
    ret = None
    if len(body) == 1 and isinstance(body[0], ast.Return) and isinstance(body[0].value, ast.UnaryOp):
        # return not C3.resolver(C, <strict>, None).had_inconsistency
        v = body[0].value
        if isinstance(v.op, ast.Not) and isinstance(v.operand, ast.Attribute) and v.operand.attr == "had_inconsistency":
            strict_arg = _resolver_call(v.operand.value)
            ret = "(negb (gen_had_inconsistency direct bases_had_inconsistency))"
    elif body and isinstance(body[0], ast.Assign) and _same(body[0].targets[0], "resolver") and len(body[0].targets) == 1:
        strict_arg = _resolver_call(body[0].value)
        rest = body[1:]
        if rest and _same(rest[0], "resolver.mro()"):
            calls_mro = "true"
            rest = rest[1:]
        if len(rest) == 1 and isinstance(rest[0], ast.Return):
            t = Tr({}, self_attrs={"had_inconsistency": ("(gen_had_inconsistency direct bases_had_inconsistency)", "bool")})
            ret, ty = t.expr(rest[0].value)
            if ty != "bool":
                _fail(rest[0], "is_consistent does not return a truth value")
    if ret is None or strict_arg is None:
        _fail(fn, "is_consistent: unsupported shape")
    out.append("(* ro.py:is_consistent: the resolver is built with strict = %s; direct_inconsistency is only\n"
               "   set while mro() runs, so it reads as false when mro() is not called first *)\n"
               "Definition gen_is_consistent_strict : bool := %s.\n"
               "Definition gen_is_consistent_calls_mro : bool := %s.\n"
               "Definition gen_is_consistent (direct_after_mro bases_had_inconsistency : bool) : bool :=\n"
               "  let direct := if gen_is_consistent_calls_mro then direct_after_mro else false in\n"
               "  %s.\n" % (strict_arg, strict_arg, calls_mro, ret))
    return out


def _translate_flatten(fn):
    """``_legacy_flatten``: the idiom

        result = [begin]; i = 0
        for ob in iter(result):      # the list iterator re-reads len(result) at every step
            i += 1                   # i is only written here: i == (position of ob) + 1
            result[i:i] = E(ob)      # splice right behind the cursor
        return result

    The cursor invariant makes result = done ++ rest with len(done) == i; one step moves the head of
    ``rest`` to ``done`` and puts E(ob) in front of what is left.  The loop runs once per element of the
    final list, so it is a Fixpoint on explicit fuel over (done, rest).  Only this exact shape is
    accepted; E may be ``ob.__bases__`` (optionally through list()/tuple()/reversed())."""
    _args(fn, ["begin"])
    body = _strip_doc(fn.body)
    if len(body) != 4:
        _fail(fn, "_legacy_flatten: unexpected number of statements")
    if not _same(body[0], "result = [begin]"):
        _fail(body[0], "_legacy_flatten: expected `result = [begin]`")
    if not _same(body[1], "i = 0"):
        _fail(body[1], "_legacy_flatten: expected `i = 0`")
    loop = body[2]
    if not (isinstance(loop, ast.For) and not loop.orelse and _same(loop.target, "ob")
            and _same(loop.iter, "iter(result)") and len(loop.body) == 2):
        _fail(loop, "_legacy_flatten: expected `for ob in iter(result):` with two statements")
    if not _same(loop.body[0], "i += 1"):
        _fail(loop.body[0], "_legacy_flatten: expected `i += 1` first in the loop")
    sp = loop.body[1]
    if not (isinstance(sp, ast.Assign) and len(sp.targets) == 1 and _same(sp.targets[0], "result[i:i]")):
        _fail(sp, "_legacy_flatten: expected `result[i:i] = ...`")
    if not _same(body[3], "return result"):
        _fail(body[3], "_legacy_flatten: expected `return result`")

    def spliced(e):
        if _same(e, "ob.__bases__"):
            return "(bases_of ob)"
        if isinstance(e, ast.Call) and isinstance(e.func, ast.Name) and len(e.args) == 1 and not e.keywords:
            if e.func.id in ("list", "tuple"):
                return spliced(e.args[0])
            if e.func.id == "reversed":
                return "(rev %s)" % spliced(e.args[0])
        _fail(e, "_legacy_flatten: unsupported spliced expression")

    return ("(* ro.py:_legacy_flatten: work-list form of the splice-behind-the-cursor loop, one unit of fuel per\n"
            "   element of the final list; bases_of ob = ob.__bases__ *)\n"
            "Fixpoint gen_legacy_flatten_loop (fuel : nat) (bases_of : nat -> list nat) (done rest : list nat)\n"
            "  : option (list nat) :=\n"
            "  match fuel with\n  | 0 => None\n  | S fuel' =>\n"
            "      match rest with\n      | [] => Some done                      (* the iterator is exhausted: return result *)\n"
            "      | ob :: rest' => gen_legacy_flatten_loop fuel' bases_of (done ++ [ob]) (%s ++ rest')\n"
            "      end\n  end.\n\n"
            "(* result = [begin]; i = 0 *)\n"
            "Definition gen_legacy_flatten (fuel : nat) (bases_of : nat -> list nat) (begin : nat) : option (list nat) :=\n"
            "  gen_legacy_flatten_loop fuel bases_of [] [begin].\n" % spliced(sp.value))


def _resolver_call(n):
    if not (isinstance(n, ast.Call) and _same(n.func, "C3.resolver") and len(n.args) == 3 and not n.keywords
            and _same(n.args[0], "C") and isinstance(n.args[2], ast.Constant) and n.args[2].value is None
            and isinstance(n.args[1], ast.Constant) and type(n.args[1].value) is bool):
        _fail(n, "expected C3.resolver(C, <True|False>, None)")
    return "true" if n.args[1].value else "false"


def _translate_merge(fn):
    """``while 1`` over (base_tree_remaining, base, result) -> Fixpoint on fuel.  Every statement of the
    loop body wraps the rest of the body; the end of the body is the recursive call."""
    _args(fn, ["self"])
    body = _strip_doc(fn.body)
    if len(body) != 4:
        _fail(fn, "_merge: unexpected number of statements")
    if not _same(body[0], "result = self.__mro = []"):
        _fail(body[0], "_merge: expected `result = self.__mro = []`")
    if not _same(body[1], "base_tree_remaining = self.base_tree"):
        _fail(body[1], "_merge: expected `base_tree_remaining = self.base_tree`")
    if not _same(body[2], "base = None"):
        _fail(body[2], "_merge: expected `base = None`")
    w = body[3]
    if not (isinstance(w, ast.While) and not w.orelse and isinstance(w.test, ast.Constant) and w.test.value in (1, True)):
        _fail(w, "_merge: expected `while 1:`")
    state = {"base_tree_remaining": "listlist", "base": "optnode", "result": "list"}
    t = Tr(state, funcs={"_nonempty_bases_ignoring": ("gen_nonempty_bases_ignoring", ["listlist", "optnode"], "listlist")})

    def go(stmts):
        if not stmts:
            return "gen_merge_loop fuel' strict legacy_ro base_tree_remaining base result"
        s, rest = stmts[0], stmts[1:]
        if isinstance(s, ast.Assign) and len(s.targets) == 1 and isinstance(s.targets[0], ast.Name) \
                and s.targets[0].id in state:
            x, ty = t.expr(s.value)
            if ty != state[s.targets[0].id]:
                _fail(s, "_merge: %s gets a %s" % (s.targets[0].id, ty))
            return "let %s := %s in\n      %s" % (s.targets[0].id, x, go(rest))
        if isinstance(s, ast.If) and not s.orelse and len(s.body) == 1 and isinstance(s.body[0], ast.Return):
            x, ty = t.expr(s.body[0].value)
            if ty != "list":
                _fail(s, "_merge returns a %s" % ty)
            return "if %s then MroRet %s false\n      else %s" % (t.cond(s.test), x, go(rest))
        if isinstance(s, ast.Try):
            if not (len(s.body) == 1 and _same(s.body[0], "base = self._choose_next_base(base_tree_remaining)")
                    and len(s.handlers) == 1 and not s.orelse and not s.finalbody
                    and s.handlers[0].name is None and _same(s.handlers[0].type, "self._UseLegacyRO")):
                _fail(s, "_merge: unexpected try statement")
            h = s.handlers[0].body
            if not (len(h) == 2 and _same(h[0], "self.__mro = self.legacy_ro") and _same(h[1], "return self.legacy_ro")):
                _fail(s, "_merge: the handler must be `self.__mro = self.legacy_ro; return self.legacy_ro`")
            return ("match gen_choose_next_base strict base_tree_remaining with\n"
                    "      | (Raise UseLegacyRO, direct) => MroRet legacy_ro direct   (* except self._UseLegacyRO *)\n"
                    "      | (Raise e, _) => MroRaise e\n"
                    "      | (Ret chosen, _) =>\n"
                    "          let base := Some chosen in\n      %s\n      end" % go(rest))
        if isinstance(s, ast.Expr):
            txt = t.seq([s], "state", lambda: "@@", frozenset({("notnone", "base")}))
            if not txt.endswith(" in @@"):
                _fail(s, "_merge: unsupported statement")
            return txt[:-len("@@")] + "\n      " + go(rest)
        _fail(s, "_merge: unsupported statement in the loop")

    loop = go(list(w.body))
    return ("(* ro.py:C3._merge: the ``while 1`` loop, one unit of fuel per iteration *)\n"
            "Fixpoint gen_merge_loop (fuel : nat) (strict : bool) (legacy_ro : list nat)\n"
            "    (base_tree_remaining : list (list nat)) (base : option nat) (result : list nat) : mro_out :=\n"
            "  match fuel with\n  | 0 => MroFuel\n  | S fuel' =>\n      %s\n  end.\n\n"
            "(* result = self.__mro = []; base_tree_remaining = self.base_tree; base = None *)\n"
            "Definition gen_merge (fuel : nat) (strict : bool) (legacy_ro : list nat) (base_tree : list (list nat))\n"
            "  : mro_out := gen_merge_loop fuel strict legacy_ro base_tree None [].\n" % loop)


# --------------------------------------------------------------------------- interface.py

def _translate_sro(module, pinned):
    spec = _find(module.body, ast.ClassDef, "Specification", "class")
    fn = _find(spec.body, ast.FunctionDef, "_calculate_sro", "method")
    _args(fn, ["self"])
    if not any(_same(n, "_do_calculate_ro = calculate_ro") for n in spec.body):
        _fail(spec, "Specification._do_calculate_ro = calculate_ro not found")
    if not any(_same(n, "from zope.interface.ro import ro as calculate_ro") for n in module.body):
        _fail(module, "`from zope.interface.ro import ro as calculate_ro` not found")
    body = _strip_doc(fn.body)
    if len(body) < 3:
        _fail(fn, "_calculate_sro: unexpected shape")
    if not _same(body[0], "sro = self._do_calculate_ro(base_mros={b: b.__sro__ for b in self.__bases__})"):
        _fail(body[0], "_calculate_sro: the order must be computed from the cached __sro__ of the bases")
    if not _same(body[1], "root = self._ROOT"):
        _fail(body[1], "_calculate_sro: expected `root = self._ROOT`")
    t = Tr({"sro": "list", "root": "optnode"})
    return [_define("gen_root_fixup", [("root", "optnode"), ("sro", "list")], "list nat",
                    t.function(body[2:], "list"),
                    "interface.py:Specification._calculate_sro after `sro = ro(self, base_mros=cached __sro__ of the bases)`")]


# --------------------------------------------------------------------------- entry points

HEADER = """(* GENERATED by harness/translate/ro_kernel.py from
     %s
     %s
   -- do not edit.  Regenerated on every run; Proofs/RoKernel.v proves every definition equal to the
   corresponding definition of Model/Ro.v (theorems C03_generated_*_eq_model). *)
From Coq Require Import List Arith Bool.
Import ListNotations.
From ZI Require Import Lib.Py.

"""


def translate_sources(ro_text, iface_text, origin=("ro.py", "interface.py")):
    pinned_ro = ast.parse(PINNED_RO)
    parts = _translate_ro(ast.parse(ro_text), pinned_ro)
    parts += _translate_sro(ast.parse(iface_text), ast.parse(PINNED_SRO))
    return HEADER % origin + "\n".join(parts)


def translate(repo):
    p1 = os.path.join(repo, "src", "zope", "interface", "ro.py")
    p2 = os.path.join(repo, "src", "zope", "interface", "interface.py")
    with open(p1) as fh:
        t1 = fh.read()
    with open(p2) as fh:
        t2 = fh.read()
    return translate_sources(t1, t2, (p1, p2))


def pinned():
    """the kernel of the source this framework was developed against (used only after a refusal, so that
    the rest of the pipeline still builds; the refusal itself is always reported)"""
    return translate_sources(PINNED_RO, "from zope.interface.ro import ro as calculate_ro\n" + PINNED_SRO,
                             ("<pinned copy of ro.py in harness/translate/ro_kernel.py>",
                              "<pinned copy of Specification._calculate_sro>"))


if __name__ == "__main__":  # python -m harness.translate.ro_kernel /repo
    import sys
    print(translate(sys.argv[1] if len(sys.argv) > 1 else "/repo"))
