"""Fail-closed translator: ``zope/interface/verify.py:_incompat`` -> ``coq/Gen/Incompat.v``.

The Python kernel is a chain of guarded ``return <message>`` statements over the two signature
dictionaries built by ``Method.getSignatureInfo``.  The translation abstracts

    len(x['required'])    ->  req x      (number of required positional parameters)
    len(x['positional'])  ->  npos x     (number of positional parameters)
    x['varargs']          ->  varargs x  (truthiness: a parameter name or None)
    x['kwargs']           ->  kwargs x   (truthiness: a parameter name or None)

and emits ``incompat : sig -> sig -> option nat`` (index of the ``return`` statement whose
message is produced, ``None`` = compatible); the message texts are returned to the caller
(harness/props/c17.py maps the observed message of a BrokenMethodImplementation to its index).

Only the AST shapes listed below are accepted; anything else raises ``TranslationError``
(the caller reports a broken tie, it never guesses).
"""
import ast

FIELDS_LEN = {"required": "req", "positional": "npos"}
FIELDS_FLAG = {"varargs": "varargs", "kwargs": "kwargs"}
CMP = {
    ast.Lt: "Nat.ltb %(a)s %(b)s",
    ast.Gt: "Nat.ltb %(b)s %(a)s",
    ast.LtE: "Nat.leb %(a)s %(b)s",
    ast.GtE: "Nat.leb %(b)s %(a)s",
    ast.Eq: "Nat.eqb %(a)s %(b)s",
    ast.NotEq: "negb (Nat.eqb %(a)s %(b)s)",
}

# The text of the kernel this framework was developed against.  Used only when the translation
# of the current source is refused, so that the rest of the pipeline (correspondence + Spec
# oracle search for a concrete failing input) still has a kernel to compile against; the
# refusal itself is always reported as an error.
PINNED_SOURCE = '''
_MSG_TOO_MANY = 'implementation requires too many arguments'


def _incompat(required, implemented):
    if len(implemented['required']) > len(required['required']):
        return _MSG_TOO_MANY

    if (
        (len(implemented['positional']) < len(required['positional'])) and
        not implemented['varargs']
    ):
        return "implementation doesn't allow enough arguments"

    if required['kwargs'] and not implemented['kwargs']:
        return "implementation doesn't support keyword arguments"

    if required['varargs'] and not implemented['varargs']:
        return "implementation doesn't support variable arguments"
'''


class TranslationError(Exception):
    pass


def _fail(node, why):
    raise TranslationError("verify.py:%s: %s: %s" % (
        getattr(node, "lineno", "?"), why, ast.dump(node)[:200] if isinstance(node, ast.AST) else node))


class _Tr:
    def __init__(self, module, fn):
        self.module = module
        self.fn = fn
        a = fn.args
        if (a.vararg or a.kwarg or a.kwonlyargs or a.defaults or a.kw_defaults
                or getattr(a, "posonlyargs", None) or len(a.args) != 2):
            _fail(fn, "unexpected parameter list of _incompat")
        if fn.decorator_list:
            _fail(fn, "decorated _incompat")
        # Coq-side names are fixed; remember which Python parameter is which
        self.params = {a.args[0].arg: "required", a.args[1].arg: "implemented"}
        if len(self.params) != 2:
            _fail(fn, "duplicate parameter names")
        self.consts = self._module_constants()

    def _module_constants(self):
        """module-level ``NAME = 'string literal'`` assigned exactly once (never rebound)."""
        seen = {}
        count = {}
        for node in ast.walk(self.module):
            targets = []
            if isinstance(node, ast.Assign):
                targets = node.targets
            elif isinstance(node, (ast.AugAssign, ast.AnnAssign)):
                targets = [node.target]
            for t in targets:
                for n in ast.walk(t):
                    if isinstance(n, ast.Name):
                        count[n.id] = count.get(n.id, 0) + 1
        for node in self.module.body:
            if (isinstance(node, ast.Assign) and len(node.targets) == 1
                    and isinstance(node.targets[0], ast.Name)
                    and isinstance(node.value, ast.Constant) and isinstance(node.value.value, str)):
                name = node.targets[0].id
                if count.get(name) == 1:
                    seen[name] = node.value.value
        return seen

    # ---- expressions
    def field(self, node):
        """x['name'] with x one of the two parameters -> (coq variable, key)"""
        if not isinstance(node, ast.Subscript) or not isinstance(node.ctx, ast.Load):
            _fail(node, "expected parameter['key']")
        if not isinstance(node.value, ast.Name) or node.value.id not in self.params:
            _fail(node, "subscript of something that is not a parameter of _incompat")
        sl = node.slice
        if isinstance(sl, ast.Index):  # pragma: no cover (python < 3.9)
            sl = sl.value
        if not isinstance(sl, ast.Constant) or not isinstance(sl.value, str):
            _fail(node, "non-literal key")
        return self.params[node.value.id], sl.value

    def number(self, node):
        if (isinstance(node, ast.Call) and isinstance(node.func, ast.Name) and node.func.id == "len"
                and len(node.args) == 1 and not node.keywords):
            var, key = self.field(node.args[0])
            if key not in FIELDS_LEN:
                _fail(node, "len() of a field that is not a tuple of names")
            return "(%s %s)" % (FIELDS_LEN[key], var)
        _fail(node, "unsupported arithmetic operand (only len(param['required'|'positional']))")

    def boolean(self, node):
        if isinstance(node, ast.BoolOp):
            op = {ast.And: "andb", ast.Or: "orb"}.get(type(node.op))
            if op is None:
                _fail(node, "unknown boolean operator")
            parts = [self.boolean(v) for v in node.values]
            out = parts[-1]
            for p in reversed(parts[:-1]):
                out = "(%s %s %s)" % (op, p, out)
            return out
        if isinstance(node, ast.UnaryOp) and isinstance(node.op, ast.Not):
            return "(negb %s)" % self.boolean(node.operand)
        if isinstance(node, ast.Compare):
            if len(node.ops) != 1 or len(node.comparators) != 1:
                _fail(node, "chained comparison")
            tmpl = CMP.get(type(node.ops[0]))
            if tmpl is None:
                _fail(node, "unsupported comparison operator")
            return "(" + tmpl % {"a": self.number(node.left), "b": self.number(node.comparators[0])} + ")"
        if isinstance(node, ast.Subscript):
            var, key = self.field(node)
            if key not in FIELDS_FLAG:
                _fail(node, "truth value of a field that is not varargs/kwargs")
            return "(%s %s)" % (FIELDS_FLAG[key], var)
        _fail(node, "unsupported condition")

    def message(self, node):
        if isinstance(node, ast.Constant) and isinstance(node.value, str):
            s = node.value
        elif isinstance(node, ast.Name) and node.id in self.consts:
            s = self.consts[node.id]
        else:
            _fail(node, "return value is not a string literal or a module-level string constant")
        if not s:
            _fail(node, "empty message is falsy: the caller would treat it as compatible")
        return s

    # ---- statements
    def body(self):
        stmts = list(self.fn.body)
        # a docstring is harmless
        if stmts and isinstance(stmts[0], ast.Expr) and isinstance(stmts[0].value, ast.Constant) \
                and isinstance(stmts[0].value.value, str):
            stmts = stmts[1:]
        arms = []
        for i, st in enumerate(stmts):
            if isinstance(st, ast.If):
                if st.orelse:
                    _fail(st, "if with else/elif")
                if len(st.body) != 1 or not isinstance(st.body[0], ast.Return) or st.body[0].value is None:
                    _fail(st, "if body is not a single 'return <message>'")
                arms.append((self.boolean(st.test), self.message(st.body[0].value)))
            elif isinstance(st, ast.Return) and i == len(stmts) - 1 and (
                    st.value is None or (isinstance(st.value, ast.Constant) and st.value.value is None)):
                pass  # explicit 'return None' at the end
            else:
                _fail(st, "unsupported statement")
        if not arms:
            _fail(self.fn, "no guarded return found")
        return arms


def translate_source(text, origin="verify.py"):
    """-> (coq_text, [message, ...]); raises TranslationError / SyntaxError."""
    module = ast.parse(text)
    fns = [n for n in ast.walk(module) if isinstance(n, (ast.FunctionDef, ast.AsyncFunctionDef, ast.Lambda))
           and getattr(n, "name", None) == "_incompat"]
    top = [n for n in module.body if isinstance(n, ast.FunctionDef) and n.name == "_incompat"]
    if len(fns) != 1 or len(top) != 1:
        raise TranslationError("expected exactly one module-level def _incompat, found %d/%d" % (len(top), len(fns)))
    # nobody may rebind the name
    for n in ast.walk(module):
        if isinstance(n, ast.Name) and n.id == "_incompat" and not isinstance(n.ctx, ast.Load):
            _fail(n, "_incompat is rebound")
    tr = _Tr(module, top[0])
    arms = tr.body()
    lines = [
        "(* GENERATED by harness/translate/incompat.py from %s:_incompat -- do not edit." % origin,
        "   Regenerated on every run; Proofs/Verify.v and Properties/C17.v are re-checked against it.",
        "   Result: index of the 'return' statement that fires (message in the comment), None = compatible. *)",
        "From Coq Require Import Arith Bool.",
        "From ZI Require Import Spec.Binds.",
        "",
        "Definition incompat (required implemented : sig) : option nat :=",
    ]
    for i, (cond, msg) in enumerate(arms):
        lines.append("  %sif %s then Some %d  (* %s *)" % ("" if i == 0 else "else ", cond, i,
                                                        msg.replace("*)", "* )").replace("(*", "( *").replace('"', "''")))
    lines.append("  else None.")
    lines.append("")
    return "\n".join(lines), [m for _c, m in arms]


def translate_file(path):
    with open(path) as fh:
        text = fh.read()
    return translate_source(text, origin=path)


def pinned():
    return translate_source(PINNED_SOURCE, origin="<pinned copy in harness/translate/incompat.py>")


if __name__ == "__main__":  # manual use: python -m harness.translate.incompat /repo/src/zope/interface/verify.py
    import sys
    print(translate_file(sys.argv[1])[0])
