"""Fail-closed extractor: the DATA semantics of the C lookup functions of
``_zope_interface_coptimizations.c`` -> ``coq/Gen/LookupC.v``.

Functions: _subcache (summarised), _getcache, _lookup, _lookup1, _adapter_hook, _lookupAll, _subscriptions
+ the twelve method wrappers LB_x / VB_x (x = lookup, lookup1, adapter_hook, queryAdapter, lookupAll,
subscriptions): which core function each calls, with which permutation of its arguments, and whether
``_verify(self)`` runs first (every VB_x must; a VB_x may also delegate to its LB_x after verifying).
Tokeniser and parser of the C subset are those of harness/translate/cskeleton.py (C11's ownership
extractor); this module runs a different symbolic execution over the same syntax trees: typed symbolic
values, every feasible path becomes a branch of a Gallina ``if`` / ``match`` over the vocabulary of
Model/CLookup.v + Model/LookupPrims.v.  An unknown callee, statement, expression or a value used in a way
not listed here raises ``Abort`` - there is no fallback other than the pinned kernel + a reported error.

Abstraction (the same as on the Python side, Model/LookupPrims.v): the nested cache dictionaries are
handles into the flat maps of ``caches``; _subcache must, on every path, return the sub-dictionary of its
first argument under its second, creating it when missing (checked, then used as a summary).
NOT translated: reference counting (Py_INCREF/DECREF/XDECREF/CLEAR are skipped: C11's subject) and the
failure branches of calls that only fail on memory exhaustion or on exceptions raised by foreign code
(PyDict_New, PyTuple_New, PySequence_Tuple, PyDict_SetItem, PyDict_GetItemWithError + PyErr_Occurred,
providedBy, PyObject_GetAttr(__self__), PyObject_IsTrue, the _uncached_* callbacks, _getcache/_subcache): their results
are taken to be non-NULL / non-negative, so ``if (x == NULL) return NULL`` / ``if (truth < 0) ...`` after them
is dead at this level.  An int local may hold the outcome of a test (``int truth = PyObject_IsTrue(name);``,
a comparison, a && / || / ! of those) and be branched on later (``if (truth)``, ``truth != 0`` ...).
Translated error paths: the ValueError for a non-string name, and NULL results of _lookup / _lookup1 /
PyObject_CallFunctionObjArgs, which must be tested before the value is used.
PyObject_CallMethodObjArgs(self, str_uncached_X, ...) is the parameter u_X followed by the effect of
_subscribe (Model/Lookup.subscribe_required; the Python translator checks that _uncached_X does that).
"""
import os
import re

from .. import common as C
from .cskeleton import Abort, Parser, find_function, find_macros, strip_comments, tokenize

SOURCE = os.path.join("src", "zope", "interface", "_zope_interface_coptimizations.c")
OUT = os.path.join(C.COQ, "Gen", "LookupC.v")
PINNED = os.path.join(os.path.dirname(__file__), "lookup_c.pinned.v")

# name -> (Gallina name, kinds of the parameters after self, result kind)
FUNCS = [
    ("_getcache", "gen_c_getcache", ["spec", "name"], "handle"),
    ("_lookup", "gen_c_lookup", ["speclist", "spec", "name", "darg"], "cret"),
    ("_lookup1", "gen_c_lookup1", ["spec", "spec", "name", "darg"], "cret"),
    ("_adapter_hook", "gen_c_adapter_hook", ["spec", "obj", "name", "darg"], "cret"),
    ("_lookupAll", "gen_c_lookupAll", ["speclist", "spec"], "pairs"),
    ("_subscriptions", "gen_c_subscriptions", ["speclist", "ospec"], "values"),
]
BY_NAME = {n: (g, k, r) for n, g, k, r in FUNCS}
COQ_TYPE = {"spec": "spec", "speclist": "list spec", "name": "option name_arg", "darg": "darg", "obj": "obj",
            "ospec": "option spec"}
RET_TYPE = {"handle": "handle", "cret": "caches * cret", "pairs": "caches * list (Adapter.name * value)",
            "values": "caches * list value"}
IGNORED_CALLS = {"Py_INCREF", "Py_XINCREF", "Py_DECREF", "Py_XDECREF", "Py_CLEAR"}
UNCACHED = {"str_uncached_lookup": ("u_lookup", ["speclist", "spec", "name"], "entry"),
            "str_uncached_lookupAll": ("u_lookupAll", ["speclist", "spec"], "pairs"),
            "str_uncached_subscriptions": ("u_subscriptions", ["speclist", "ospec"], "values")}
SLOTS = {"_cache": "top", "_mcache": "mtop", "_scache": "stop"}
INT_TESTS = {"PyObject_IsTrue", "PyUnicode_Check", "PyObject_TypeCheck"}     # int-valued, bind nothing


class V:
    def __init__(self, kind, e=None, **kw):
        self.kind, self.e = kind, e
        self.__dict__.update(kw)

    def __repr__(self):
        return "V(%s, %s)" % (self.kind, self.e)


NULLV = V("null")


class St:
    def __init__(self, env, c, err=None, facts=None, supers=None):
        self.env, self.c, self.err = dict(env), c, err
        self.facts, self.supers = dict(facts or {}), dict(supers or {})

    def copy(self):
        return St(self.env, self.c, self.err, self.facts, self.supers)


def _line(e):
    for x in reversed(e):
        if isinstance(x, int) and x > 0:
            return x
    return "?"


class Exec:
    def __init__(self, fname, ret, macros):
        self.fname, self.ret, self.macros = fname, ret, macros
        self.n = 0

    def fresh(self, b):
        self.n += 1
        return "%s%d" % (b, self.n)

    def abort(self, why, node=None):
        raise Abort("%s: %s%s" % (self.fname, why, "" if node is None else " in %r" % (node,)))

    # ------------------------------------------------------------------ pure expressions
    def val(self, e, st):
        k = e[0]
        if k == "id":
            name = e[1]
            if name == "NULL":
                return NULLV
            if name == "Py_None":
                return V("pyobj", "PNone")
            if name in st.env:
                v = st.env[name]
                if v.kind == "uninit":
                    self.abort("use of uninitialised %s" % name)
                return v
            if re.match(r"^(str\w*|PyExc_\w+|Py\w+_Type)$", name):
                return V("static", name)
            self.abort("unknown identifier %s" % name)
        if k == "cast":
            return self.val(e[2], st)
        if k == "un" and e[1] == "&":
            return self.val(e[2], st)
        if k == "field":
            if e[1][0] == "id" and e[1][1] == "self" and e[2] in SLOTS:
                return V(SLOTS[e[2]])
            self.abort("unsupported field access", e)
        if k == "call":
            name, args = e[1], e[2]
            if name == "OBJECT" and len(args) == 1:
                return self.val(args[0], st)
            if name == "Py_TYPE":
                return V("static", "type")
            if name == "_get_module":
                return V("static", "module")
            if name == "PySequence_Tuple" and len(args) == 1:
                x = self.val(args[0], st)
                if x.kind != "speclist":
                    self.abort("PySequence_Tuple of something that is not the required sequence")
                return x
            if name == "PyTuple_GET_ITEM" and len(args) == 2 and args[1] == ("num", 0):
                x = self.val(args[0], st)
                if x.kind != "speclist":
                    self.abort("PyTuple_GET_ITEM on something that is not the required tuple")
                return V("spec", "(nth 0 %s 0)" % x.e)
            if name == "PyTuple_New" and args == [("num", 1)]:
                return V("tuplebuild", None)
            if name == "PyDict_New" and not args:
                return V("newdict")
            if name == "providedBy" and len(args) == 2:
                x = self.val(args[1], st)
                if x.kind != "obj":
                    self.abort("providedBy of something that is not the object")
                return V("spec", "(o_provides %s)" % x.e)
            if name == "PyObject_GetAttr" and len(args) == 2 and args[1][:2] == ("id", "str__self__"):
                x = self.val(args[0], st)
                if x.kind == "obj" and x.e in st.supers:
                    return V("objid", st.supers[x.e])
                self.abort("__self__ of something not known to be a super proxy")
            if name == "_getcache" and len(args) == 3:
                p, nm = self.val(args[1], st), self.val(args[2], st)
                if self.val(args[0], st).kind != "self" or p.kind != "spec" or nm.kind != "name":
                    self.abort("unexpected arguments of _getcache")
                return V("handle", "(gen_c_getcache %s %s)" % (p.e, nm.e))
            if name == "_subcache" and len(args) == 2:
                return self.child(self.val(args[0], st), self.val(args[1], st), st)
            if name in ("PyDict_GetItem", "PyDict_GetItemWithError") and len(args) == 2:
                return self.getitem(self.val(args[0], st), self.val(args[1], st), st)
            if name in INT_TESTS:
                return self.intbool(e, st)
        if k == "bin" and e[1] in ("==", "!=", "&&", "||"):
            return self.intbool(e, st)
        if k == "un" and e[1] == "!":
            return self.intbool(e, st)
        self.abort("unsupported expression", e)

    def intbool(self, e, st):
        """an int local holding the outcome of a test (``int truth = PyObject_IsTrue(name);``): the test is
        re-played where the variable is branched on, over the values its operands had at the assignment.
        Only tests that bind nothing are accepted (no NULL test of a possibly-NULL lookup result)."""
        def pure(x):
            if x[0] == "id":                # an optional argument used as a truth value
                return x[1] in st.env and st.env[x[1]].kind in ("name", "darg")
            if x[0] == "call":
                return x[1] in INT_TESTS and all(a[0] in ("id", "un", "cast") for a in x[2])
            if x[0] == "bin" and x[1] in ("&&", "||"):
                return pure(x[2]) and pure(x[3])
            if x[0] == "un" and x[1] == "!":
                return pure(x[2])
            if x[0] == "bin" and x[1] in ("==", "!="):
                for o in (x[2], x[3]):
                    if o[0] == "id" and o[1] in st.env and st.env[o[1]].kind in ("maybe", "cretv", "maybechild", "uninit"):
                        return False
                    if o[0] not in ("id", "num", "call"):
                        return False
                    if o[0] == "call" and o[1] != "PyTuple_GET_SIZE":
                        return False
                return True
            return False
        if not pure(e):
            self.abort("unsupported int-valued expression", e)
        return V("intbool", None, ast=e, env=dict(st.env))

    def child(self, d, k, st):
        if d.kind == "top" and k.kind == "spec":
            return V("handle", "(h_top %s)" % k.e)
        if d.kind == "handle" and k.kind == "name":
            if st.facts.get(("present", k.e)) is not True:
                self.abort("_subcache keyed by a name not known to be non-NULL")
            return V("handle", "(h_named %s (c_name_str %s))" % (d.e, k.e))
        if d.kind == "mtop" and k.kind == "spec":
            return V("msub", k.e)
        if d.kind == "stop" and k.kind == "ospec":
            return V("ssub", k.e)
        if d.kind == "container" and k.kind == "key":          # inside _subcache itself
            return V("childof")
        self.abort("unsupported sub-dictionary %s[%s]" % (d.kind, k.kind))

    def key(self, k):
        if k.kind == "spec":
            return "(CSingle %s)" % k.e
        if k.kind == "speclist":
            return "(CMulti %s)" % k.e
        self.abort("cache key is neither a specification nor the required tuple (%s)" % k.kind)

    def getitem(self, d, k, st):
        if d.kind == "handle":
            return V("maybe", "(h_get %s %s %s)" % (st.c, d.e, self.key(k)), inner="entry")
        if d.kind == "msub" and k.kind == "speclist":
            return V("maybe", "(m_get %s %s %s)" % (st.c, d.e, k.e), inner="pairs")
        if d.kind == "ssub" and k.kind == "speclist":
            return V("maybe", "(s_get %s %s %s)" % (st.c, d.e, k.e), inner="values")
        if d.kind == "container" and k.kind == "key":
            return V("maybechild")
        self.abort("PyDict_GetItem on an unsupported dictionary (%s, %s)" % (d.kind, k.kind))

    # ------------------------------------------------------------------ conditions (continuation style)
    def cond(self, e, st, kt, kf, ind):
        pad = "  " * ind
        k = e[0]
        if k == "bin" and e[1] == "||":
            return self.cond(e[2], st, kt, lambda s: self.cond(e[3], s, kt, kf, ind + 1), ind)
        if k == "bin" and e[1] == "&&":
            return self.cond(e[2], st, lambda s: self.cond(e[3], s, kt, kf, ind + 1), kf, ind)
        if k == "un" and e[1] == "!":
            return self.cond(e[2], st, kf, kt, ind)
        if k == "id" and e[1] in st.env and st.env[e[1]].kind == "intbool":
            v = st.env[e[1]]
            tmp = st.copy()
            tmp.env = dict(v.env)

            def back(k_):
                def go(s2):
                    cur = st.copy()
                    cur.facts, cur.supers = dict(s2.facts), dict(s2.supers)
                    return k_(cur)
                return go
            return self.cond(v.ast, tmp, back(kt), back(kf), ind)
        if k == "bin" and e[1] in ("<", ">", "==", "!=", "<=", ">=") and e[2][0] == "id" and e[2][1] in st.env \
                and st.env[e[2][1]].kind == "intbool":
            op, rhs = e[1], e[3]
            neg1 = rhs == ("un", "-", ("num", 1))
            if (op == "<" and rhs == ("num", 0)) or (op in ("==", "<=") and neg1):
                return kf(st)          # the test itself failed (foreign exception): not translated
            if (op == ">=" and rhs == ("num", 0)) or (op in ("!=", ">") and neg1):
                return kt(st)
            if (op in ("!=", ">") and rhs == ("num", 0)) or (op in ("==", ">=") and rhs == ("num", 1)):
                return self.cond(e[2], st, kt, kf, ind)
            if (op in ("==", "<=") and rhs == ("num", 0)) or (op == "<" and rhs == ("num", 1)):
                return self.cond(e[2], st, kf, kt, ind)
            self.abort("unsupported test of an int-valued local", e)
        if k == "id":                       # pointer used as a truth value
            return self.cond(("bin", "!=", e, ("id", "NULL", 0)), st, kt, kf, ind)
        if k == "bin" and e[1] in ("==", "!="):
            if e[1] == "!=":
                kt, kf = kf, kt
            a, b = e[2], e[3]
            if a[:2] == ("id", "NULL") or a[:2] == ("id", "Py_None"):
                a, b = b, a
            # size test
            if a[0] == "call" and a[1] == "PyTuple_GET_SIZE" and b == ("num", 1):
                x = self.val(a[2][0], st)
                if x.kind != "speclist":
                    self.abort("PyTuple_GET_SIZE of something that is not the required tuple")
                return "%sif Nat.eqb (length %s) 1 then\n%s\n%selse\n%s" % (pad, x.e, kt(st), pad, kf(st))
            if b[:2] == ("id", "NULL"):
                return self.null_test(a, st, kt, kf, ind)
            va, vb = self.val(a, st), self.val(b, st)
            if vb.kind == "pyobj" and vb.e == "PNone" and va.kind == "pyobj":
                if va.e == "PNone":
                    return kt(st)
                return "%sif is_none %s then\n%s\n%selse\n%s" % (pad, va.e, kt(st), pad, kf(st))
            if va.kind == "darg" and vb.kind == "pyobj":
                if st.facts.get(("present", va.e)) is not True:
                    self.abort("default_ compared with an object without a NULL test")
                return "%sif darg_is %s %s then\n%s\n%selse\n%s" % (pad, va.e, vb.e, kt(st), pad, kf(st))
            self.abort("unsupported comparison", e)
        if k == "bin" and e[2][0] == "id" and e[2][1] in st.env and st.env[e[2][1]].kind == "status":
            # PyDict_SetItem only fails on memory exhaustion / a foreign exception: status is 0
            if (e[1] == "<" and e[3] == ("num", 0)) or (e[1] == "!=" and e[3] == ("num", 0)) \
                    or (e[1] == "==" and e[3] == ("un", "-", ("num", 1))):
                return kf(st)
            if (e[1] == "==" and e[3] == ("num", 0)) or (e[1] == ">=" and e[3] == ("num", 0)):
                return kt(st)
            self.abort("unsupported test of a status", e)
        if k == "call":
            name, args = e[1], e[2]
            if name == "PyErr_Occurred" and not args:
                # only after a NULL PyDict_GetItemWithError: a failing hash / comparison is not modelled
                return kf(st)
            if name in ("PyUnicode_Check", "PyObject_IsTrue") and len(args) == 1:
                x = self.val(args[0], st)
                if x.kind != "name" or st.facts.get(("present", x.e)) is not True:
                    self.abort("%s of something not known to be a non-NULL name" % name)
                fn = "c_is_unicode" if name == "PyUnicode_Check" else "c_is_true"
                return "%sif %s %s then\n%s\n%selse\n%s" % (pad, fn, x.e, kt(st), pad, kf(st))
            if name == "PyObject_TypeCheck" and len(args) == 2 and self.val(args[1], st).e == "PySuper_Type":
                x = self.val(args[0], st)
                if x.kind != "obj":
                    self.abort("type check of something that is not the object")
                var = self.fresh("v_self")
                s_yes = st.copy()
                s_yes.supers[x.e] = var
                return "%smatch o_super_of %s with\n%s| Some %s =>\n%s\n%s| None =>\n%s\n%send" % (
                    pad, x.e, pad, var, kt(s_yes), pad, kf(st), pad)
        self.abort("unsupported condition", e)

    def null_test(self, a, st, kt, kf, ind):
        """a == NULL ?"""
        pad = "  " * ind
        v = self.val(a, st)
        if v.kind == "null":
            return kt(st)
        if v.kind in ("name", "darg"):
            known = st.facts.get(("present", v.e))
            if known is not None:
                return kf(st) if known else kt(st)
            s_null, s_some = st.copy(), st.copy()
            s_null.facts[("present", v.e)] = False
            s_some.facts[("present", v.e)] = True
            test = "c_present %s" % v.e if v.kind == "name" else "negb (is_absent %s)" % v.e
            return "%sif %s then\n%s\n%selse\n%s" % (pad, test, kf(s_some), pad, kt(s_null))
        if v.kind in ("maybe", "cretv", "maybechild"):
            if a[0] != "id":
                self.abort("NULL test of a compound expression")
            x = a[1]
            if v.kind == "maybechild":
                s_null, s_some = st.copy(), st.copy()
                s_null.env[x] = NULLV
                s_some.env[x] = V("childof")
                return kt(s_null) + "\n" + "#FORK#" + "\n" + kf(s_some)
            var = self.fresh("v_" + x)
            s_null, s_some = st.copy(), st.copy()
            s_null.env[x] = NULLV
            if v.kind == "maybe":
                s_some.env[x] = (V("pyobj", "(entry_obj %s)" % var, entry=var) if v.inner == "entry" else V(v.inner, var))
                return "%smatch %s with\n%s| None =>\n%s\n%s| Some %s =>\n%s\n%send" % (
                    pad, v.e, pad, kt(s_null), pad, var, kf(s_some), pad)
            err = self.fresh("err")
            s_null.err = err
            s_some.env[x] = V("pyobj", var)
            return "%smatch %s with\n%s| CRet %s =>\n%s\n%s| %s =>\n%s\n%send" % (
                pad, v.e, pad, var, kf(s_some), pad, err, kt(s_null), pad)
        if v.kind in ("handle", "msub", "ssub", "spec", "speclist", "obj", "objid", "pyobj", "pairs", "values", "top", "mtop",
                      "stop", "tuplebuild", "newdict", "childof", "self", "static"):
            return kf(st)         # non-NULL at the data level (see the module docstring)
        self.abort("NULL test of a value of kind %s" % v.kind)

    # ------------------------------------------------------------------ statements
    def run(self, stmts, st, ind):
        pad = "  " * ind
        if not stmts:
            self.abort("control reaches the end of the function")
        s, rest = stmts[0], list(stmts[1:])
        k = s[0]
        if k == "block":
            return self.run(list(s[1]) + rest, st, ind)
        if k == "decl":
            st = st.copy()
            assigns = []
            for name, init, _ptr in s[1]:
                st.env[name] = V("uninit")
                if init is not None:
                    assigns.append(("expr", ("assign", ("id", name, s[2]), init, s[2]), s[2]))
            return self.run(assigns + rest, st, ind)
        if k == "if":
            _k, c, a, b, _line_ = s
            return self.cond(c, st,
                             lambda s2: self.run([a] + rest, s2, ind + 1),
                             lambda s2: self.run(([b] if b is not None else []) + rest, s2, ind + 1), ind)
        if k == "return":
            return self.return_(s[1], st, ind)
        if k == "expr":
            e = s[1]
            if e[0] == "assign":
                return self.assign(e, rest, st, ind)
            if e[0] == "call":
                name, args = e[1], e[2]
                if name in IGNORED_CALLS:
                    return self.run(rest, st, ind)
                if name == "PyErr_SetString" and len(args) == 2 and args[0][:2] == ("id", "PyExc_ValueError"):
                    st = st.copy()
                    st.err = "CValueError"
                    return self.run(rest, st, ind)
                if name == "PyTuple_SET_ITEM" and len(args) == 3 and args[0][0] == "id" and args[1] == ("num", 0):
                    t, x = self.val(args[0], st), self.val(args[2], st)
                    if t.kind != "tuplebuild" or t.e is not None or x.kind != "spec":
                        self.abort("unsupported PyTuple_SET_ITEM")
                    st = st.copy()
                    st.env[args[0][1]] = V("speclist", "[%s]" % x.e)
                    return self.run(rest, st, ind)
            self.abort("unsupported statement", e)
        self.abort("unsupported statement kind %s" % k)

    def return_(self, e, st, ind):
        pad = "  " * ind
        if e is None:
            self.abort("return without a value")
        v = self.val(e, st)
        r = self.ret
        if r == "summary":
            return "RET:" + v.kind
        if v.kind == "null":
            if st.err is None or r != "cret":
                self.abort("return NULL on a path with no pending exception the model knows")
            return pad + "(%s, %s)" % (st.c, st.err)
        if r == "handle" and v.kind == "handle":
            return pad + v.e
        if r == "cret":
            if v.kind == "pyobj":
                return pad + "(%s, CRet %s)" % (st.c, v.e)
            if v.kind == "cretv":
                return pad + "(%s, %s)" % (st.c, v.e)
            if v.kind == "darg" and st.facts.get(("present", v.e)) is True:
                return pad + "(%s, CRet (dflt_obj %s))" % (st.c, v.e)
        if r == v.kind and r in ("pairs", "values"):
            return pad + "(%s, %s)" % (st.c, v.e)
        self.abort("unsupported return of a value of kind %s" % v.kind)

    def assign(self, e, rest, st, ind):
        pad = "  " * ind
        _k, lhs, rhs, _l = e
        if rhs[0] == "assign":                      # a = b = c = NULL
            return self.run([("expr", rhs, 0), ("expr", ("assign", lhs, rhs[1], 0), 0)] + rest, st, ind)
        if lhs[0] != "id":
            self.abort("assignment to something that is not a local variable", lhs)
        x = lhs[1]
        st = st.copy()
        if rhs[0] == "call":
            name, args = rhs[1], rhs[2]
            if name == "PyObject_CallMethodObjArgs":
                if len(args) < 3 or args[-1][:2] != ("id", "NULL") or self.val(args[0], st).kind != "self" \
                        or args[1][0] != "id" or args[1][1] not in UNCACHED:
                    self.abort("unsupported method call", rhs)
                fn, kinds, rk = UNCACHED[args[1][1]]
                vals = [self.val(a, st) for a in args[2:-1]]
                if [v.kind for v in vals] != kinds:
                    self.abort("arguments of %s: %r" % (args[1][1], vals))
                es = [("(c_name_str %s)" % v.e) if v.kind == "name" else v.e for v in vals]
                var, c1 = self.fresh("v_" + x), self.fresh("c")
                st.env[x] = V("pyobj", "(entry_obj %s)" % var, entry=var) if rk == "entry" else V(rk, var)
                lines = "%slet %s := %s %s in\n%slet %s := subscribe_required %s %s in\n" % (
                    pad, var, fn, " ".join(es), pad, c1, st.c, vals[0].e)
                st.c = c1
                return lines + self.run(rest, st, ind)
            if name == "PyDict_SetItem" and len(args) == 3:
                d, k, v = self.val(args[0], st), self.val(args[1], st), self.val(args[2], st)
                c1 = self.fresh("c")
                if d.kind == "handle" and v.kind == "pyobj" and getattr(v, "entry", None):
                    line = "let %s := h_set %s %s %s %s in" % (c1, st.c, d.e, self.key(k), v.entry)
                elif d.kind == "msub" and k.kind == "speclist" and v.kind == "pairs":
                    line = "let %s := m_set %s %s %s %s in" % (c1, st.c, d.e, k.e, v.e)
                elif d.kind == "ssub" and k.kind == "speclist" and v.kind == "values":
                    line = "let %s := s_set %s %s %s %s in" % (c1, st.c, d.e, k.e, v.e)
                elif d.kind == "container" and k.kind == "key" and v.kind == "newdict":
                    st.env[args[2][1]] = V("childof")
                    st.env[x] = V("status")
                    return self.run(rest, st, ind)
                else:
                    self.abort("unsupported PyDict_SetItem(%s, %s, %s)" % (d.kind, k.kind, v.kind))
                st.c = c1
                st.env[x] = V("status")
                return pad + line + "\n" + self.run(rest, st, ind)
            if name in ("_lookup", "_lookup1") and len(args) == 5:
                g, kinds, _r = BY_NAME[name]
                vals = [self.val(a, st) for a in args]
                if vals[0].kind != "self":
                    self.abort("call of %s on something that is not self" % name)
                es = []
                for v, kd in zip(vals[1:], kinds):
                    if kd == "darg" and v.kind == "pyobj" and v.e == "PNone":
                        es.append("DNone")
                    elif v.kind == kd:
                        es.append(v.e)
                    else:
                        self.abort("argument of kind %s for a %s parameter of %s" % (v.kind, kd, name))
                c1, r = self.fresh("c"), self.fresh("r")
                line = "%slet '(%s, %s) := %s %s %s in\n" % (pad, c1, r, g, st.c, " ".join(es))
                st.c = c1
                st.env[x] = V("cretv", r)
                return line + self.run(rest, st, ind)
            if name == "PyObject_CallFunctionObjArgs" and len(args) == 3 and args[2][:2] == ("id", "NULL"):
                f, o = self.val(args[0], st), self.val(args[1], st)
                if f.kind != "pyobj":
                    self.abort("calling something that is not an object")
                arg = "o_id %s" % o.e if o.kind == "obj" else o.e if o.kind == "objid" else self.abort("unsupported argument")
                r = self.fresh("r")
                st.env[x] = V("cretv", r)
                return "%slet %s := call_obj call %s [%s] in\n" % (pad, r, f.e, arg) + self.run(rest, st, ind)
        v = self.val(rhs, st)
        if v.kind == "darg":
            if st.facts.get(("present", v.e)) is not True:
                self.abort("default_ used as an object without a NULL test")
            v = V("pyobj", "(dflt_obj %s)" % v.e)
        if v.kind in ("maybe", "cretv", "maybechild") and rhs[0] == "id":
            self.abort("copy of a possibly-NULL value")
        st.env[x] = v
        return self.run(rest, st, ind)


def _check_subcache(text, macros):
    """_subcache(cache, key) returns cache[key], created when missing, on every path"""
    _rt, params, body, line0 = find_function(text, "_subcache")
    if len(params) != 2:
        raise Abort("_subcache: unexpected parameters")
    ex = Exec("_subcache", "summary", macros)
    env = {params[0][0]: V("container"), params[1][0]: V("key")}
    stmts = Parser(tokenize(body, line0), macros).block()
    out = ex.run([stmts], St(env, "c"), 0)
    rets = [x.strip() for x in out.replace("#FORK#", "\n").split("\n") if x.strip()]
    if not rets or any(r != "RET:childof" for r in rets):
        raise Abort("_subcache does not return the sub-dictionary on every path: %r" % rets)
    return len(rets)


CORES = {"_lookup": ("CoreLookup", 4), "_lookup1": ("CoreLookup1", 4), "_adapter_hook": ("CoreAdapterHook", 4),
         "_lookupAll": ("CoreLookupAll", 2), "_subscriptions": ("CoreSubscriptions", 2)}
WRAPPED = ["lookup", "lookup1", "adapter_hook", "queryAdapter", "lookupAll", "subscriptions"]
KWLISTS = {"lookup": ["required", "provided", "name", "default"], "lookup1": ["required", "provided", "name", "default"],
           "adapter_hook": ["provided", "object", "name", "default"], "queryAdapter": ["object", "provided", "name", "default"],
           "lookupAll": ["required", "provided"], "subscriptions": ["required", "provided"]}
_WRAP_A = re.compile(
    r'^static char\* kwlist\[\] = \{ (?P<kw>(?:"\w+", )+)NULL \}; PyObject (?P<decl>[^;]+); '
    r'if \(!PyArg_ParseTupleAndKeywords\( ?args, kwds, "(?P<fmt>[^"]+)", kwlist, (?P<targets>[^)]*)\)\) return NULL; '
    r'(?P<verify>if \(_verify\(self\) < 0\) return NULL; )?'
    r'return (?P<callee>\w+)\((?:\(LB\*\))?self, (?P<cargs>[^)]*)\); \}$')
_WRAP_B = re.compile(r'^(?P<verify>if \(_verify\(self\) < 0\) return NULL; )?'
                     r'return (?P<callee>LB_\w+)\(\(LB\*\)self, args, kwds\); \}$')


def _wrapper(text, cls, name, seen=()):
    """-> (verifies first?, core function, argument permutation) of the method wrapper <cls>_<name>; Abort on any
    other shape than: [parse (args, kwds) into locals] [if (_verify(self) < 0) return NULL;] return callee(...)"""
    fname = "%s_%s" % (cls, name)
    m = re.search(r"^%s\(%s\* self, PyObject\* args, PyObject\* kwds\)\s*\{(.*?^\})" % (fname, cls), text, re.M | re.S)
    if not m or fname in seen:
        raise Abort("%s: not found / unexpected signature" % fname)
    b = re.sub(r"\s+", " ", m.group(1)).strip()
    mb = _WRAP_B.match(b)
    if mb:
        if cls != "VB" or mb.group("callee") != "LB_" + name:
            raise Abort("%s delegates to %s" % (fname, mb.group("callee")))
        _v, core, perm = _wrapper(text, "LB", name, seen + (fname,))
        return bool(mb.group("verify")), core, perm
    ma = _WRAP_A.match(b)
    if not ma:
        raise Abort("%s: unexpected body %r" % (fname, b[:200]))
    if ma.group("verify") and cls != "VB":
        raise Abort("%s calls _verify" % fname)
    kws = re.findall(r'"(\w+)"', ma.group("kw"))
    targets = [t.strip() for t in ma.group("targets").split(",")]
    if any(not t.startswith("&") for t in targets) or len(targets) != len(kws) or len(set(targets)) != len(targets):
        raise Abort("%s: unexpected parse targets %r for %r" % (fname, targets, kws))
    targets = [t[1:] for t in targets]
    fmt = ma.group("fmt").split(":")[0]
    nreq = len(fmt.split("|")[0])
    if fmt.replace("|", "") != "O" * len(kws) or fmt.count("|") > 1:
        raise Abort("%s: unexpected format %r" % (fname, fmt))
    decl = [d.strip() for d in ma.group("decl").split(",")]
    want = ["*%s%s" % (t, "" if i < nreq else " = NULL") for i, t in enumerate(targets)]
    if sorted(decl) != sorted(want):
        raise Abort("%s: locals %r, expected %r (optional arguments must start as NULL)" % (fname, decl, want))
    callee = ma.group("callee")
    if callee not in CORES:
        raise Abort("%s calls %s" % (fname, callee))
    core, arity = CORES[callee]
    cargs = [a.strip() for a in ma.group("cargs").split(",")]
    if len(cargs) != arity or sorted(cargs) != sorted(targets):
        raise Abort("%s passes %r to %s" % (fname, cargs, callee))
    if kws != KWLISTS[name]:
        raise Abort("%s: keyword names %r, expected %r" % (fname, kws, KWLISTS[name]))
    # positions refer to the keyword list (the Python-level signature)
    return bool(ma.group("verify")), core, [targets.index(a) for a in cargs]


def _wrappers(text):
    out = []
    for cls in ("LB", "VB"):
        for name in WRAPPED:
            r = _wrapper(text, cls, name)
            out.append((cls, name, r[0], r[1], r[2]))
    return out


def extract(repo=None):
    path = os.path.join(repo or C.REPO, SOURCE)
    raw = open(path).read()
    text = strip_comments(raw)
    macros = find_macros(text)
    npaths = _check_subcache(text, macros)
    wrappers = _wrappers(text)
    out = ["(* GENERATED by harness/translate/lookup_c.py from %s -- do not edit." % path,
           "   Regenerated on every run; Proofs/LookupGen.v re-proves it equal to Model/CLookup.v.",
           "   _subcache: %d paths, each returns the sub-dictionary of its first argument under its second" % npaths,
           "   (created when missing) = the handle constructors h_top / h_named / the per-provided maps. *)",
           "From Coq Require Import List Arith Bool.", "Import ListNotations.",
           "From ZI Require Import Model.Ro Model.Adapter Model.Lookup Model.CLookup Model.LookupPrims.", "",
           "Section GenC.",
           "  Variable u_lookup : list spec -> spec -> Adapter.name -> option value.",
           "  Variable u_lookupAll : list spec -> spec -> list (Adapter.name * value).",
           "  Variable u_subscriptions : list spec -> option spec -> list value.",
           "  Variable call : value -> list nat -> option nat.", ""]
    for fname, gname, kinds, ret in FUNCS:
        rt, params, body, line0 = find_function(text, fname)
        if rt != "PyObject*":
            raise Abort("%s: unexpected return type %s" % (fname, rt))
        if len(params) != len(kinds) + 1 or params[0][1] != "LB":
            raise Abort("%s: unexpected parameter list %r" % (fname, params))
        env = {params[0][0]: V("self")}
        sig = []
        for (pn, _ty, _ptr), k in zip(params[1:], kinds):
            env[pn] = V(k, "v_" + pn)
            sig.append("(v_%s : %s)" % (pn, COQ_TYPE[k]))
        ex = Exec(fname, ret, macros)
        stmts = Parser(tokenize(body, line0), macros).block()
        term = ex.run([stmts], St(env, "c"), 2)
        if "#FORK#" in term:
            raise Abort("%s: sub-dictionary fork outside _subcache" % fname)
        out.append("  (* %s, line %d *)" % (fname, line0))
        out.append("  Definition %s %s%s : %s :=" % (gname, "(c : caches) " if ret != "handle" else "", " ".join(sig), RET_TYPE[ret]))
        out.append(term + ".")
        out.append("")
    for cls, name, ver, core, perm in wrappers:
        out.append("  Definition gen_%s_%s : c_wrapper := mkWrap %s %s [%s]." % (
            cls, name, "true" if ver else "false", core, "; ".join(map(str, perm))))
    out.append("")
    out += ["  (* LB_queryAdapter: parses (object, provided, name, default) and calls _adapter_hook *)",
            "  Definition gen_c_queryAdapter (c : caches) (v_object : obj) (v_provided : spec) (v_name : option name_arg) (v_default_ : darg) :=",
            "    gen_c_adapter_hook c v_provided v_object v_name v_default_.", "",
            "End GenC.", ""]
    return "\n".join(out)


def regenerate(repo=None):
    """Write coq/Gen/LookupC.v; -> list of error strings (abort = pinned kernel + error)."""
    try:
        C.write_if_changed(OUT, extract(repo))
        return []
    except Exception as e:  # noqa: Abort or anything unexpected: refuse
        C.write_if_changed(OUT, open(PINNED).read())
        return ["harness/translate/lookup_c.py aborted on %s (%s: %s); coq/Gen/LookupC.v holds the pinned kernel, so the "
                "generated-kernel theorems are NOT about the current source"
                % (os.path.join(repo or C.REPO, SOURCE), type(e).__name__, e)]


if __name__ == "__main__":  # python -m harness.translate.lookup_c [/repo]
    import sys
    print(extract(sys.argv[1] if len(sys.argv) > 1 else None))
