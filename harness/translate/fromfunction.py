"""Fail-closed translator: zope/interface/interface.py ``fromFunction`` / ``fromMethod``
-> Gallina (coq/Gen/FromFunction.v).

The source is parsed with Python's ``ast``.  Only the statement / expression shapes listed below
are accepted, every expression is typed (int / list of names / list of defaults / dict / bool /
optional name) and anything else raises ``Abort`` — there is no fallback.  The output is a
function over the abstract function object of Model/PyFunc.v:

    fromFunction : code -> result method      (``names[i]`` out of range -> IndexError)
    fromMethod   : code -> result method      (= fromFunction with the imlevel the source passes)

Python ints are Z, slices / indexing / len / zip / dict have Python's semantics (Model/PyFunc.v
py_slice, py_index, py_len, py_zip, dict_set ...).  An ``if`` becomes
``rbind (if c then .. Ok (x, y) else .. Ok (x, y)) (fun '(x, y) => ..)`` over the variables
assigned in either branch.

Accepted statements
    x = <expr>                      x = seq[i]  (fallible: rbind (py_index ..))
    method.positional|required|optional|varargs|kwargs = <expr> | seq[i] | None
    if <test>: .. [else: ..]
    d.update(dict(zip(a, b)))       (d a dict variable)
    for key, value in func.__dict__.items(): method.setTaggedValue(key, value)
    the fixed prologue/epilogue lines (name = name or func.__name__; method = Method(name,
    func.__doc__); code = func.__code__; method.interface = interface; return method)
Accepted expressions
    int constants, variables (imlevel is one, initialised from the argument and
    re-assignable, e.g. ``if imlevel > code.co_argcount: imlevel = code.co_argcount``), code.co_argcount, code.co_kwonlyargcount,
    code.co_varnames, a + b, a - b, -a, not a, a < b (<=, >, >=, ==, !=), len(s), s[a:], s[:b],
    s[a:b], {}, code.co_flags & CO_VARARGS, code.co_flags & CO_VARKEYWORDS,
    getattr(func, '__defaults__', None) or ()      -> fn_defaults co
    getattr(func, '__defaults_count__', 0)         -> 0   (CPython functions have no such
                                                           attribute; the driver checks that)
"""
import ast
import inspect


class Abort(Exception):
    """The source has a shape this translator does not know: no kernel is produced."""


INT, NAMES, DFLTS, DICT, BOOL, ONAME, CODE = "int", "names", "dflts", "dict", "bool", "oname", "code"
FIELDS = {"positional": NAMES, "required": NAMES, "optional": DICT, "varargs": ONAME, "kwargs": ONAME}
FIELD_ORDER = ["positional", "required", "optional", "varargs", "kwargs", "tagged"]

EXPECTED_SIGNATURE = "def fromFunction(func, interface=None, imlevel=0, name=None): pass"
EXPECTED_FROMMETHOD = """
def fromMethod(meth, interface=None, name=None):
    if isinstance(meth, MethodType):
        func = meth.__func__
    else:
        func = meth
    return fromFunction(func, interface, imlevel=1, name=name)
"""
FIXED = {
    "name = name or func.__name__": "name",
    "method = Method(name, func.__doc__)": "init",
    "code = func.__code__": "code",
    "method.interface = interface": "skip",
}
TAGGED_LOOP = "for key, value in func.__dict__.items():\n    method.setTaggedValue(key, value)"
DEFAULTS_EXPR = "getattr(func, '__defaults__', None) or ()"
DEFAULTS_COUNT_EXPR = "getattr(func, '__defaults_count__', 0)"


def _dump(node):
    return ast.dump(node, annotate_fields=True, include_attributes=False)


def _same(node, text):
    want = ast.parse(text).body[0]
    if isinstance(want, ast.Expr) and not isinstance(node, ast.Expr):
        want = want.value
    return _dump(node) == _dump(want)


def _where(node):
    return "line %s: %s" % (getattr(node, "lineno", "?"), ast.unparse(node).split("\n")[0][:100])


def cvar(v):
    if v.startswith("method."):
        return "f_" + v.split(".", 1)[1]
    return "v_" + v


class Translator:
    def __init__(self):
        self.code_var = None

    # ------------------------------------------------------------------ expressions
    def expr(self, e, env):
        """-> (coq text, type)"""
        if isinstance(e, ast.Constant):
            if type(e.value) is int:
                return "(%d)%%Z" % e.value, INT
            raise Abort("unsupported constant: " + _where(e))
        if isinstance(e, ast.Name):
            if e.id in env and env[e.id] != CODE:
                return cvar(e.id), env[e.id]
            raise Abort("unknown variable: " + _where(e))
        if isinstance(e, ast.Attribute):
            if isinstance(e.value, ast.Name) and env.get(e.value.id) == CODE:
                if e.attr in ("co_argcount", "co_kwonlyargcount"):
                    return "(Z.of_nat (%s co))" % e.attr, INT
                if e.attr == "co_varnames":
                    return "(co_varnames co)", NAMES
            raise Abort("unsupported attribute: " + _where(e))
        if isinstance(e, ast.BoolOp):
            if _same(e, DEFAULTS_EXPR):
                return "(fn_defaults co)", DFLTS
            raise Abort("unsupported boolean expression: " + _where(e))
        if isinstance(e, ast.BinOp):
            if isinstance(e.op, ast.BitAnd):
                l, r = e.left, e.right
                if (isinstance(l, ast.Attribute) and l.attr == "co_flags" and isinstance(l.value, ast.Name)
                        and env.get(l.value.id) == CODE and isinstance(r, ast.Name)
                        and r.id in ("CO_VARARGS", "CO_VARKEYWORDS") and r.id not in env):
                    return ("(has_varargs co)" if r.id == "CO_VARARGS" else "(has_varkw co)"), BOOL
                raise Abort("unsupported flag test: " + _where(e))
            if isinstance(e.op, (ast.Add, ast.Sub)):
                a, ta = self.expr(e.left, env)
                b, tb = self.expr(e.right, env)
                if ta != INT or tb != INT:
                    raise Abort("arithmetic on non-integers: " + _where(e))
                return "(%s %s %s)%%Z" % (a, "+" if isinstance(e.op, ast.Add) else "-", b), INT
            raise Abort("unsupported operator: " + _where(e))
        if isinstance(e, ast.UnaryOp):
            a, ta = self.expr(e.operand, env)
            if isinstance(e.op, ast.USub) and ta == INT:
                return "(- %s)%%Z" % a, INT
            if isinstance(e.op, ast.Not):
                return "(negb %s)" % self.truth(a, ta, e), BOOL
            raise Abort("unsupported unary operator: " + _where(e))
        if isinstance(e, ast.Compare):
            if len(e.ops) != 1:
                raise Abort("chained comparison: " + _where(e))
            a, ta = self.expr(e.left, env)
            b, tb = self.expr(e.comparators[0], env)
            if ta != INT or tb != INT:
                raise Abort("comparison of non-integers: " + _where(e))
            ops = {ast.Lt: "(%s <? %s)%%Z", ast.LtE: "(%s <=? %s)%%Z", ast.Gt: "(%s >? %s)%%Z",
                   ast.GtE: "(%s >=? %s)%%Z", ast.Eq: "(%s =? %s)%%Z", ast.NotEq: "(negb (%s =? %s)%%Z)"}
            fmt = ops.get(type(e.ops[0]))
            if fmt is None:
                raise Abort("unsupported comparison: " + _where(e))
            return fmt % (a, b), BOOL
        if isinstance(e, ast.Call):
            if _same(e, DEFAULTS_COUNT_EXPR):
                return "(0)%Z", INT
            if (isinstance(e.func, ast.Name) and e.func.id == "len" and "len" not in env
                    and len(e.args) == 1 and not e.keywords):
                a, ta = self.expr(e.args[0], env)
                if ta not in (NAMES, DFLTS):
                    raise Abort("len of a non-sequence: " + _where(e))
                return "(py_len %s)" % a, INT
            raise Abort("unsupported call: " + _where(e))
        if isinstance(e, ast.Subscript):
            if isinstance(e.slice, ast.Slice):
                s = e.slice
                if s.step is not None:
                    raise Abort("slice with a step: " + _where(e))
                v, tv = self.expr(e.value, env)
                if tv not in (NAMES, DFLTS):
                    raise Abort("slice of a non-sequence: " + _where(e))
                bounds = []
                for b in (s.lower, s.upper):
                    if b is None:
                        bounds.append("None")
                    else:
                        t, tt = self.expr(b, env)
                        if tt != INT:
                            raise Abort("non-integer slice bound: " + _where(e))
                        bounds.append("(Some %s)" % t)
                return "(py_slice %s %s %s)" % (v, bounds[0], bounds[1]), tv
            raise Abort("indexing is only supported as the whole right-hand side of an assignment: " + _where(e))
        if isinstance(e, ast.Dict) and not e.keys:
            return "(@nil (name * dflt))", DICT
        raise Abort("unsupported expression: " + _where(e))

    def truth(self, text, typ, node):
        if typ == BOOL:
            return text
        if typ == INT:
            return "(negb (%s =? 0)%%Z)" % text
        raise Abort("truth value of a %s: %s" % (typ, _where(node)))

    def index_expr(self, e, env):
        """seq[i] (no slice) -> (seq text, index text, element type) or None"""
        if isinstance(e, ast.Subscript) and not isinstance(e.slice, ast.Slice):
            v, tv = self.expr(e.value, env)
            i, ti = self.expr(e.slice, env)
            if tv != NAMES or ti != INT:
                raise Abort("unsupported indexing: " + _where(e))
            return v, i
        return None

    # ------------------------------------------------------------------ statements
    def assigned(self, stmts):
        out = []
        for s in stmts:
            if isinstance(s, ast.Assign) and len(s.targets) == 1:
                t = s.targets[0]
                if isinstance(t, ast.Name):
                    k = t.id
                elif isinstance(t, ast.Attribute) and isinstance(t.value, ast.Name) and t.value.id == "method":
                    k = "method." + t.attr
                else:
                    raise Abort("unsupported assignment target: " + _where(s))
                if k not in out:
                    out.append(k)
            elif isinstance(s, ast.If):
                for k in self.assigned(s.body) + self.assigned(s.orelse):
                    if k not in out:
                        out.append(k)
            elif isinstance(s, ast.Expr) and isinstance(s.value, ast.Call) and isinstance(s.value.func, ast.Attribute) \
                    and s.value.func.attr == "update" and isinstance(s.value.func.value, ast.Name):
                if s.value.func.value.id not in out:
                    out.append(s.value.func.value.id)
            else:
                raise Abort("unsupported statement inside a branch: " + _where(s))
        return out

    def block(self, stmts, env, tail, ind):
        if not stmts:
            return tail(env)
        s, rest = stmts[0], stmts[1:]
        return self.stmt(s, env, lambda env2: self.block(rest, env2, tail, ind), ind)

    def bind(self, key, typ, text, env, k, ind):
        env2 = dict(env)
        if key in env2 and env2[key] != typ:
            raise Abort("variable %s changes type from %s to %s" % (key, env2[key], typ))
        env2[key] = typ
        return "%slet %s := %s in\n%s" % (ind, cvar(key), text, k(env2))

    def stmt(self, s, env, k, ind):
        src = ast.unparse(s)
        if isinstance(s, ast.Expr) and isinstance(s.value, ast.Constant) and isinstance(s.value.value, str):
            return k(env)   # docstring
        if src in FIXED:
            what = FIXED[src]
            if what == "name" or what == "skip":
                if what == "skip" and "method.tagged" not in env:
                    raise Abort("method used before it is created: " + _where(s))
                return k(env)
            if what == "code":
                if "code" in env:
                    raise Abort("code object rebound: " + _where(s))
                env2 = dict(env)
                env2["code"] = CODE
                return k(env2)
            if what == "init":
                if "method.tagged" in env:
                    raise Abort("method created twice: " + _where(s))
                env2 = dict(env)
                out = ""
                for f, init in (("positional", "(@nil name)"), ("required", "(@nil name)"),
                                ("optional", "(@nil (name * dflt))"), ("varargs", "(@None name)"),
                                ("kwargs", "(@None name)"), ("tagged", "(@nil (name * dflt))")):
                    env2["method." + f] = FIELDS.get(f, DICT)
                    out += "%slet %s := %s in\n" % (ind, cvar("method." + f), init)
                return out + k(env2)
        if isinstance(s, ast.For):
            if src == TAGGED_LOOP and _same(s, TAGGED_LOOP) and "method.tagged" in env:
                return self.bind("method.tagged", DICT, "(dict_update f_tagged (fn_dict co))", env, k, ind)
            raise Abort("unsupported loop: " + _where(s))
        if isinstance(s, ast.Assign):
            if len(s.targets) != 1:
                raise Abort("multiple assignment: " + _where(s))
            t = s.targets[0]
            if isinstance(t, ast.Name):
                if t.id in ("func", "interface", "name", "method", "code", "co", "len", "getattr",
                            "zip", "dict", "Method", "CO_VARARGS", "CO_VARKEYWORDS"):
                    raise Abort("assignment to a reserved name: " + _where(s))
                key, want = t.id, None
            elif isinstance(t, ast.Attribute) and isinstance(t.value, ast.Name) and t.value.id == "method" \
                    and t.attr in FIELDS and "method.tagged" in env:
                key, want = "method." + t.attr, FIELDS[t.attr]
            else:
                raise Abort("unsupported assignment target: " + _where(s))
            ix = self.index_expr(s.value, env)
            if ix is not None:
                seq, i = ix
                if want == ONAME:
                    env2 = dict(env)
                    return ("%srbind (py_index %s %s) (fun t_item =>\n%slet %s := Some t_item in\n%s)"
                            % (ind, seq, i, ind, cvar(key), k(env2)))
                raise Abort("an indexed name may only be stored in method.varargs / method.kwargs: " + _where(s))
            if want == ONAME and isinstance(s.value, ast.Constant) and s.value.value is None:
                return self.bind(key, ONAME, "(@None name)", env, k, ind)
            text, typ = self.expr(s.value, env)
            if want is not None and typ != want:
                raise Abort("method.%s assigned a %s: %s" % (t.attr, typ, _where(s)))
            if typ in (BOOL, ONAME):
                raise Abort("unsupported variable type: " + _where(s))
            return self.bind(key, typ, text, env, k, ind)
        if isinstance(s, ast.Expr) and isinstance(s.value, ast.Call):
            c = s.value
            if (isinstance(c.func, ast.Attribute) and c.func.attr == "update" and isinstance(c.func.value, ast.Name)
                    and env.get(c.func.value.id) == DICT and len(c.args) == 1 and not c.keywords):
                a = c.args[0]
                if (isinstance(a, ast.Call) and isinstance(a.func, ast.Name) and a.func.id == "dict"
                        and len(a.args) == 1 and not a.keywords):
                    z = a.args[0]
                    if (isinstance(z, ast.Call) and isinstance(z.func, ast.Name) and z.func.id == "zip"
                            and len(z.args) == 2 and not z.keywords):
                        x, tx = self.expr(z.args[0], env)
                        y, ty = self.expr(z.args[1], env)
                        if tx == NAMES and ty == DFLTS:
                            d = c.func.value.id
                            return self.bind(d, DICT, "(dict_update %s (dict_of_pairs (py_zip %s %s)))"
                                             % (cvar(d), x, y), env, k, ind)
            raise Abort("unsupported call statement: " + _where(s))
        if isinstance(s, ast.If):
            test, tt = self.expr(s.test, env)
            test = self.truth(test, tt, s.test)
            keys = self.assigned(s.body + s.orelse)
            if not keys:
                raise Abort("branch without effect: " + _where(s))
            for key in keys:
                if key not in env:
                    # Python would leave it unbound on one path unless both paths assign it
                    if not (key in self.assigned(s.body) and key in self.assigned(s.orelse)):
                        raise Abort("variable %s may be unbound after: %s" % (key, _where(s)))
            tup = ", ".join(cvar(key) for key in keys)
            types = {}

            def tail(env_b):
                for key in keys:
                    if key not in env_b:
                        raise Abort("variable %s unbound at the end of a branch: %s" % (key, _where(s)))
                    if types.setdefault(key, env_b[key]) != env_b[key]:
                        raise Abort("variable %s has different types in the two branches: %s" % (key, _where(s)))
                return "%s  Ok (%s)" % (ind, tup)

            # a key first bound inside a branch needs a dummy for the other one: excluded above
            body = self.block(s.body, dict(env), tail, ind + "  ")
            orelse = self.block(s.orelse, dict(env), tail, ind + "  ")
            env2 = dict(env)
            for key in keys:
                if key in env and env[key] != types[key]:
                    raise Abort("variable %s changes type in: %s" % (key, _where(s)))
                env2[key] = types[key]
            pat = cvar(keys[0]) if len(keys) == 1 else "'(%s)" % tup
            return ("%srbind (if %s then\n%s\n%selse\n%s)\n%s(fun %s =>\n%s)"
                    % (ind, test, body, ind, orelse, ind, pat, k(env2)))
        raise Abort("unsupported statement: " + _where(s))

    # ------------------------------------------------------------------ top level
    def function(self, fn):
        want = ast.parse(EXPECTED_SIGNATURE).body[0]
        if _dump(fn.args) != _dump(want.args) or fn.decorator_list or fn.returns is not None:
            raise Abort("fromFunction has an unexpected signature: " + ast.unparse(fn.args))
        body = list(fn.body)
        if not body or ast.unparse(body[-1]) != "return method":
            raise Abort("fromFunction does not end in ``return method``")

        def tail(env):
            for f in FIELD_ORDER:
                if "method." + f not in env:
                    raise Abort("method is never created")
            return "  Ok (mkMethod %s)" % " ".join(cvar("method." + f) for f in FIELD_ORDER)

        # the imlevel argument is an ordinary (re-assignable) int variable
        return ("  let v_imlevel := (Z.of_nat (fn_imlevel co)) in\n"
                + self.block(body[:-1], {"imlevel": INT}, tail, "  "))


def _find_function(tree, name):
    found = [n for n in tree.body if isinstance(n, ast.FunctionDef) and n.name == name]
    if len(found) != 1:
        raise Abort("expected exactly one module-level def %s, found %d" % (name, len(found)))
    # nobody rebinds the name at module level
    for n in tree.body:
        if isinstance(n, (ast.Assign, ast.AugAssign, ast.AnnAssign)):
            targets = n.targets if isinstance(n, ast.Assign) else [n.target]
            for t in targets:
                if isinstance(t, ast.Name) and t.id == name:
                    raise Abort("%s is rebound at module level" % name)
    return found[0]


def _check_flags(tree):
    vals = {}
    for n in ast.walk(tree):
        if isinstance(n, (ast.Assign, ast.AugAssign, ast.AnnAssign)):
            targets = n.targets if isinstance(n, ast.Assign) else [n.target]
            for t in targets:
                for sub in ast.walk(t):
                    if isinstance(sub, ast.Name) and sub.id in ("CO_VARARGS", "CO_VARKEYWORDS"):
                        if not (isinstance(n, ast.Assign) and len(n.targets) == 1 and isinstance(t, ast.Name)
                                and isinstance(n.value, ast.Constant) and type(n.value.value) is int
                                and n in tree.body) or sub.id in vals:
                            raise Abort("unexpected binding of " + sub.id)
                        vals[sub.id] = n.value.value
    if vals != {"CO_VARARGS": inspect.CO_VARARGS, "CO_VARKEYWORDS": inspect.CO_VARKEYWORDS}:
        raise Abort("CO_VARARGS / CO_VARKEYWORDS are not CPython's flag values: %r" % (vals,))


def _check_builtins(tree):
    """len / zip / dict / getattr mean the builtins: nothing in the module rebinds them."""
    names = {"len", "zip", "dict", "getattr"}
    for n in ast.walk(tree):
        bound = []
        if isinstance(n, ast.Name) and isinstance(n.ctx, (ast.Store, ast.Del)):
            bound = [n.id]
        elif isinstance(n, (ast.FunctionDef, ast.AsyncFunctionDef, ast.ClassDef)):
            bound = [n.name]
        elif isinstance(n, (ast.Import, ast.ImportFrom)):
            bound = [(a.asname or a.name).split(".")[0] for a in n.names]
            if any(a.name == "*" for a in n.names):
                raise Abort("star import in the module")
        elif isinstance(n, ast.arg):
            bound = [n.arg]
        elif isinstance(n, (ast.Global, ast.Nonlocal)):
            bound = list(n.names)
        hit = names.intersection(bound)
        if hit:
            raise Abort("builtin %s is rebound in the module (line %s)" % (sorted(hit), getattr(n, "lineno", "?")))


def _check_method_class(tree):
    """class Method's class-level initial values are what the ``init`` step assumes."""
    cls = [n for n in tree.body if isinstance(n, ast.ClassDef) and n.name == "Method"]
    if len(cls) != 1:
        raise Abort("expected exactly one class Method")
    lines = [ast.unparse(n) for n in cls[0].body if isinstance(n, ast.Assign)]
    for need in ("positional = required = ()", "_optional = varargs = kwargs = None"):
        if need not in lines:
            raise Abort("class Method no longer has ``%s``" % need)
    if "__init__" in [n.name for n in cls[0].body if isinstance(n, ast.FunctionDef)]:
        raise Abort("class Method defines __init__")


def _from_method(tree):
    fn = _find_function(tree, "fromMethod")
    ret = fn.body[-1] if fn.body else None
    lvl = None
    if isinstance(ret, ast.Return) and isinstance(ret.value, ast.Call):
        for kw in ret.value.keywords:
            if kw.arg == "imlevel" and isinstance(kw.value, ast.Constant) and type(kw.value.value) is int \
                    and kw.value.value >= 0:
                lvl = kw.value.value
                kw.value = ast.Constant(value=1)
    if lvl is None or _dump(fn) != _dump(ast.parse(EXPECTED_FROMMETHOD).body[0]):
        raise Abort("fromMethod has an unexpected shape")
    return lvl


# =========================================================================== further kernels
# Method.getSignatureInfo / getSignatureString, Element's tagged-value accessors and
# ABCInterfaceClass.__method_from_function.  Same rule: known shapes only, otherwise Abort.

def coq_str(text):
    return "[" + "; ".join("%d%%N" % ord(ch) for ch in text) + "]"


def _class(tree, name):
    cls = [n for n in tree.body if isinstance(n, ast.ClassDef) and n.name == name]
    if len(cls) != 1:
        raise Abort("expected exactly one class %s" % name)
    return cls[0]


def _method(cls, name, argnames, defaults=()):
    fns = [n for n in cls.body if isinstance(n, (ast.FunctionDef, ast.AsyncFunctionDef)) and n.name == name]
    if len(fns) != 1 or not isinstance(fns[0], ast.FunctionDef) or fns[0].decorator_list:
        raise Abort("expected exactly one plain method %s.%s" % (cls.name, name))
    fn = fns[0]
    a = fn.args
    if ([x.arg for x in a.args] != list(argnames) or a.posonlyargs or a.kwonlyargs or a.vararg or a.kwarg
            or [ast.unparse(d) for d in a.defaults] != list(defaults)):
        raise Abort("%s.%s has an unexpected signature: (%s)" % (cls.name, name, ast.unparse(a)))
    body = list(fn.body)
    if body and isinstance(body[0], ast.Expr) and isinstance(body[0].value, ast.Constant) \
            and isinstance(body[0].value.value, str):
        body = body[1:]
    return body


def _self_attr(e, attrs):
    if isinstance(e, ast.Attribute) and isinstance(e.value, ast.Name) and e.value.id == "self" and e.attr in attrs:
        return e.attr
    return None


INFO_KEYS = ["positional", "required", "optional", "varargs", "kwargs"]


def _signature_info(cls):
    body = _method(cls, "getSignatureInfo", ["self"])
    if len(body) != 1 or not isinstance(body[0], ast.Return) or not isinstance(body[0].value, ast.Dict):
        raise Abort("getSignatureInfo is not a single ``return {...}``")
    d = body[0].value
    got = {}
    for k, v in zip(d.keys, d.values):
        if not (isinstance(k, ast.Constant) and isinstance(k.value, str)) or k.value in got:
            raise Abort("getSignatureInfo: unexpected key " + _where(d))
        a = _self_attr(v, INFO_KEYS)
        if a is None:
            raise Abort("getSignatureInfo: unexpected value for %r: %s" % (k.value, ast.unparse(v)))
        got[k.value] = a
    if sorted(got) != sorted(INFO_KEYS):
        raise Abort("getSignatureInfo reports keys %r" % sorted(got))
    # ``optional`` is the property that reads _optional (None -> {})
    lines = [ast.unparse(n) for n in cls.body]
    for need in ("optional = property(_get_optional, _set_optional, _del_optional)",
                 "def _get_optional(self):\n    if self._optional is None:\n        return {}\n    return self._optional",
                 "def _set_optional(self, opt):\n    self._optional = opt"):
        if need not in lines:
            raise Abort("class Method no longer has ``%s``" % need.split("\n")[0])
    return ("Definition getSignatureInfo (m : method)\n  : list name * list name * list (name * dflt) * option name * option name :=\n"
            "  (%s).\n" % ", ".join("m_%s m" % got[k] for k in INFO_KEYS))


class _SigString:
    """getSignatureString: a list accumulator of strings, one loop over self.positional,
    guarded appends, a final ``"pre%spost" % sep.join(acc)``."""

    def __init__(self):
        self.acc = None

    def sexpr(self, e, loopvar):
        if isinstance(e, ast.Constant) and isinstance(e.value, str):
            return "[PLit %s]" % coq_str(e.value)
        if isinstance(e, ast.Name) and loopvar is not None and e.id == loopvar:
            return "[PName v_%s]" % loopvar
        a = _self_attr(e, ("varargs", "kwargs"))
        if a:
            return "(oname_pstr (m_%s m))" % a
        if isinstance(e, ast.BinOp) and isinstance(e.op, ast.Add):
            return "(%s ++ %s)" % (self.sexpr(e.left, loopvar), self.sexpr(e.right, loopvar))
        if (isinstance(e, ast.Call) and isinstance(e.func, ast.Name) and e.func.id == "repr" and len(e.args) == 1
                and not e.keywords and isinstance(e.args[0], ast.Subscript)
                and _self_attr(e.args[0].value, ("optional",)) and isinstance(e.args[0].slice, ast.Name)
                and e.args[0].slice.id == loopvar):
            return "(py_getitem_repr (m_optional m) v_%s)" % loopvar
        raise Abort("getSignatureString: unsupported string expression: " + _where(e))

    def cond(self, e, loopvar):
        a = _self_attr(e, ("varargs", "kwargs"))
        if a:
            return "(oname_truth (m_%s m))" % a
        if (isinstance(e, ast.Compare) and len(e.ops) == 1 and isinstance(e.ops[0], ast.In)
                and isinstance(e.left, ast.Name) and e.left.id == loopvar and loopvar is not None):
            c = e.comparators[0]
            if _self_attr(c, ("optional",)) or (isinstance(c, ast.Call) and isinstance(c.func, ast.Attribute)
                                                 and c.func.attr == "keys" and not c.args and not c.keywords
                                                 and _self_attr(c.func.value, ("optional",))):
                return "(dict_has (m_optional m) v_%s)" % loopvar
        raise Abort("getSignatureString: unsupported condition: " + _where(e))

    def stmts(self, body, loopvar, ind):
        out = ""
        for s in body:
            acc = "v_" + self.acc
            if (isinstance(s, ast.Expr) and isinstance(s.value, ast.Call) and isinstance(s.value.func, ast.Attribute)
                    and s.value.func.attr == "append" and isinstance(s.value.func.value, ast.Name)
                    and s.value.func.value.id == self.acc and len(s.value.args) == 1 and not s.value.keywords):
                out += "%slet %s := %s ++ [%s] in\n" % (ind, acc, acc, self.sexpr(s.value.args[0], loopvar))
            elif (isinstance(s, ast.AugAssign) and isinstance(s.op, ast.Add) and isinstance(s.target, ast.Subscript)
                  and isinstance(s.target.value, ast.Name) and s.target.value.id == self.acc
                  and ast.unparse(s.target.slice) == "-1"):
                out += "%slet %s := py_last_iadd %s %s in\n" % (ind, acc, acc, self.sexpr(s.value, loopvar))
            elif isinstance(s, ast.If) and not s.orelse:
                out += "%slet %s := if %s then\n%s%s  %s\n%s  else %s in\n" % (
                    ind, acc, self.cond(s.test, loopvar), self.stmts(s.body, loopvar, ind + "    "), ind, "  " + acc,
                    ind, acc)
            elif (isinstance(s, ast.For) and loopvar is None and not s.orelse and isinstance(s.target, ast.Name)
                  and _self_attr(s.iter, ("positional",)) and s.target.id not in (self.acc, "self")):
                v = s.target.id
                out += "%slet %s := fold_left (fun %s v_%s =>\n%s%s    %s) (m_positional m) %s in\n" % (
                    ind, acc, acc, v, self.stmts(s.body, v, ind + "    "), ind, acc, acc)
            else:
                raise Abort("getSignatureString: unsupported statement: " + _where(s))
        return out

    def translate(self, cls):
        body = _method(cls, "getSignatureString", ["self"])
        if len(body) < 2 or ast.unparse(body[0]).split(" = ")[1:] != ["[]"] or not isinstance(body[0], ast.Assign) \
                or not isinstance(body[0].targets[0], ast.Name):
            raise Abort("getSignatureString does not start with ``<acc> = []``")
        self.acc = body[0].targets[0].id
        ret = body[-1]
        ok = (isinstance(ret, ast.Return) and isinstance(ret.value, ast.BinOp) and isinstance(ret.value.op, ast.Mod)
              and isinstance(ret.value.left, ast.Constant) and isinstance(ret.value.left.value, str)
              and ret.value.left.value.count("%") == 1 and ret.value.left.value.count("%s") == 1)
        j = ret.value.right if ok else None
        ok = ok and (isinstance(j, ast.Call) and isinstance(j.func, ast.Attribute) and j.func.attr == "join"
                     and isinstance(j.func.value, ast.Constant) and isinstance(j.func.value.value, str)
                     and len(j.args) == 1 and not j.keywords and isinstance(j.args[0], ast.Name)
                     and j.args[0].id == self.acc)
        if not ok:
            raise Abort("getSignatureString does not end in ``return \"..%s..\" % sep.join(acc)``")
        pre, post = ret.value.left.value.split("%s")
        out = "Definition getSignatureString_gen (m : method) : pstr :=\n"
        out += "  let v_%s := (@nil pstr) in\n" % self.acc
        out += self.stmts(body[1:-1], None, "  ")
        out += "  py_format1 %s %s (py_join [PLit %s] v_%s).\n" % (coq_str(pre), coq_str(post),
                                                                    coq_str(j.func.value.value), self.acc)
        return out


TV = "__tagged_values"
ELEMENT_ALIASES = {"queryDirectTaggedValue": "queryTaggedValue", "getDirectTaggedValue": "getTaggedValue",
                   "getDirectTaggedValueTags": "getTaggedValueTags"}


def _is_tv(e):
    return _self_attr(e, (TV,)) is not None


def _tv_cond(e):
    if _is_tv(e):
        return "(tv_truth tv)"
    if isinstance(e, ast.UnaryOp) and isinstance(e.op, ast.Not) and _is_tv(e.operand):
        return "(negb (tv_truth tv))"
    if (isinstance(e, ast.Compare) and len(e.ops) == 1 and isinstance(e.ops[0], ast.Is) and _is_tv(e.left)
            and isinstance(e.comparators[0], ast.Constant) and e.comparators[0].value is None):
        return "(tv_is_none tv)"
    raise Abort("Element: unsupported condition: " + _where(e))


def _tv_expr(e, params):
    """-> (text, type) with type in rd / val / names"""
    if isinstance(e, ast.Name) and params.get(e.id) == "val":
        return "v_" + e.id, "val"
    if isinstance(e, ast.Subscript) and _is_tv(e.value) and isinstance(e.slice, ast.Name) and params.get(e.slice.id) == "name":
        return "(py_getitem (tv_dict tv) v_%s)" % e.slice.id, "rd"
    if isinstance(e, ast.Call) and isinstance(e.func, ast.Attribute) and _is_tv(e.func.value) and not e.keywords:
        if e.func.attr == "get" and len(e.args) == 2 and isinstance(e.args[0], ast.Name) \
                and params.get(e.args[0].id) == "name":
            d, td = _tv_expr(e.args[1], params)
            if td == "val":
                return "(dict_getd (tv_dict tv) v_%s %s)" % (e.args[0].id, d), "val"
        if e.func.attr == "keys" and not e.args:
            return "(map fst (tv_dict tv))", "names"
    if isinstance(e, ast.Tuple) and not e.elts:
        return "(@nil name)", "names"
    if isinstance(e, ast.IfExp):
        a, ta = _tv_expr(e.body, params)
        b, tb = _tv_expr(e.orelse, params)
        if ta == tb:
            return "(if %s then %s else %s)" % (_tv_cond(e.test), a, b), ta
    raise Abort("Element: unsupported expression: " + _where(e))


def _element(tree):
    cls = _class(tree, "Element")
    out = ""
    # state: set to None by __init__, assigned nowhere else but in setTaggedValue
    stores = [n for n in ast.walk(cls) if isinstance(n, ast.Attribute) and n.attr == TV and isinstance(n.ctx, ast.Store)]
    init = [n for n in cls.body if isinstance(n, ast.FunctionDef) and n.name == "__init__"]
    if len(init) != 1 or "self.%s = None" % TV not in [ast.unparse(x) for x in init[0].body]:
        raise Abort("Element.__init__ no longer sets self.%s = None" % TV)
    out += "Definition tv_init : tvstate := None.\n\n"
    # getTaggedValue
    body = _method(cls, "getTaggedValue", ["self", "tag"])
    params = {"tag": "name"}
    text = ""
    for s in body[:-1]:
        if (isinstance(s, ast.If) and not s.orelse and len(s.body) == 1
                and ast.unparse(s.body[0]) == "raise KeyError(tag)"):
            text += "  if %s then RKeyError else\n" % _tv_cond(s.test)
        else:
            raise Abort("getTaggedValue: unsupported statement: " + _where(s))
    if not body or not isinstance(body[-1], ast.Return) or body[-1].value is None:
        raise Abort("getTaggedValue does not end in a return")
    e, t = _tv_expr(body[-1].value, params)
    if t != "rd":
        raise Abort("getTaggedValue returns a %s" % t)
    out += "Definition getTaggedValue (tv : tvstate) (v_tag : name) : rd :=\n%s  %s.\n\n" % (text, e)
    # queryTaggedValue
    body = _method(cls, "queryTaggedValue", ["self", "tag", "default"], ["None"])
    if len(body) != 1 or not isinstance(body[0], ast.Return) or body[0].value is None:
        raise Abort("queryTaggedValue is not a single return")
    e, t = _tv_expr(body[0].value, {"tag": "name", "default": "val"})
    if t != "val":
        raise Abort("queryTaggedValue returns a %s" % t)
    out += "Definition queryTaggedValue (tv : tvstate) (v_tag : name) (v_default : val) : val :=\n  %s.\n" % e
    out += "Definition queryTaggedValue_default : val := VNone.\n\n"
    # getTaggedValueTags
    body = _method(cls, "getTaggedValueTags", ["self"])
    if len(body) != 1 or not isinstance(body[0], ast.Return) or body[0].value is None:
        raise Abort("getTaggedValueTags is not a single return")
    e, t = _tv_expr(body[0].value, {})
    if t != "names":
        raise Abort("getTaggedValueTags returns a %s" % t)
    out += "Definition getTaggedValueTags (tv : tvstate) : list name :=\n  %s.\n\n" % e
    # setTaggedValue
    body = _method(cls, "setTaggedValue", ["self", "tag", "value"])
    text = ""
    nstores = 0
    for s in body:
        if (isinstance(s, ast.If) and not s.orelse and len(s.body) == 1
                and ast.unparse(s.body[0]) == "self.%s = {}" % TV):
            text += "  let tv := if %s then Some (@nil (name * dflt)) else tv in\n" % _tv_cond(s.test)
            nstores += 1
        elif ast.unparse(s) == "self.%s[tag] = value" % TV:
            text += "  let tv := Some (dict_set (tv_dict tv) v_tag v_value) in\n"
        else:
            raise Abort("setTaggedValue: unsupported statement: " + _where(s))
    if len(stores) != nstores + 1:
        raise Abort("self.%s is assigned outside __init__ / setTaggedValue" % TV)
    out += "Definition setTaggedValue (tv : tvstate) (v_tag : name) (v_value : dflt) : tvstate :=\n%s  tv.\n\n" % text
    # aliases
    got = {}
    for n in cls.body:
        if isinstance(n, ast.Assign) and len(n.targets) == 1 and isinstance(n.targets[0], ast.Name) \
                and n.targets[0].id in ELEMENT_ALIASES:
            if not isinstance(n.value, ast.Name) or n.targets[0].id in got:
                raise Abort("Element: unexpected alias " + _where(n))
            got[n.targets[0].id] = n.value.id
    if got != ELEMENT_ALIASES:
        raise Abort("Element's Direct aliases are %r" % (got,))
    for a, b in ELEMENT_ALIASES.items():
        out += "Definition %s := %s.\n" % (a, b)
    # Attribute / Method use these accessors as inherited
    names = set(ELEMENT_ALIASES) | set(ELEMENT_ALIASES.values()) | {"setTaggedValue"}
    for cname in ("Attribute", "Method"):
        c = _class(tree, cname)
        for n in ast.walk(c):
            nm = getattr(n, "name", None) if isinstance(n, (ast.FunctionDef, ast.ClassDef)) else \
                (n.id if isinstance(n, ast.Name) and isinstance(n.ctx, ast.Store) else None)
            if nm in names:
                raise Abort("class %s overrides %s" % (cname, nm))
    bases = {"Attribute": ["Element"], "Method": ["Attribute"]}
    for cname, want in bases.items():
        if [ast.unparse(b) for b in _class(tree, cname).bases] != want:
            raise Abort("class %s no longer derives from %s" % (cname, want))
    return out


def _abc_method(common_text):
    tree = ast.parse(common_text)
    imp = [n for n in tree.body if isinstance(n, ast.ImportFrom) and n.module == "zope.interface.interface"
           and any(a.name == "fromFunction" and a.asname is None for a in n.names)]
    if not imp:
        raise Abort("common/__init__.py does not import fromFunction from zope.interface.interface")
    cls = _class(tree, "ABCInterfaceClass")
    body = _method(cls, "__method_from_function", ["self", "function", "name"])
    text = "  let v_imlevel := (0)%Z in\n"
    for s in body[:-1]:
        if isinstance(s, ast.Assign) and len(s.targets) == 1 and ast.unparse(s.targets[0]) == "imlevel":
            v = s.value
            if isinstance(v, ast.Constant) and type(v.value) is int and v.value >= 0:
                text += "  let v_imlevel := (%d)%%Z in\n" % v.value
                continue
            if (isinstance(v, ast.IfExp) and ast.unparse(v.test) == "function.__code__.co_argcount"
                    and all(isinstance(x, ast.Constant) and type(x.value) is int and x.value >= 0
                            for x in (v.body, v.orelse))):
                text += ("  let v_imlevel := (if negb (Z.of_nat (co_argcount co) =? 0)%%Z then (%d)%%Z else (%d)%%Z) in\n"
                         % (v.body.value, v.orelse.value))
                continue
        raise Abort("__method_from_function: unsupported statement: " + _where(s))
    ret = body[-1] if body else None
    src = ast.unparse(ret) if ret is not None else ""
    if src == "return fromFunction(function, self, imlevel=imlevel, name=name)":
        pass
    elif src == "return fromFunction(function, self, name=name)":
        text += "  let v_imlevel := (0)%Z in\n"
    else:
        raise Abort("__method_from_function does not end in ``return fromFunction(function, self, imlevel=imlevel, name=name)``")
    return ("Definition abc_method_from_function (co : code) : result method :=\n%s"
            "  fromFunction (with_imlevel (Z.to_nat v_imlevel) co).\n" % text)



HEADER = """(* GENERATED by harness/translate/fromfunction.py from
     %(path)s
   (functions fromFunction, fromMethod).  Do not edit; regenerated on every run. *)
From Coq Require Import List ZArith Bool.
Import ListNotations.
From ZI Require Import Model.PyFunc.

Definition translation_ok : bool := %(ok)s.
"""


def translate_source(text, path="<string>", common_text=None):
    tree = ast.parse(text)
    _check_flags(tree)
    _check_builtins(tree)
    _check_method_class(tree)
    fn = _find_function(tree, "fromFunction")
    body = Translator().function(fn)
    lvl = _from_method(tree)
    out = HEADER % {"path": path, "ok": "true"}
    out += "\nDefinition fromFunction (co : code) : result method :=\n" + body + ".\n"
    out += "\nDefinition fromMethod (co : code) : result method :=\n  fromFunction (with_imlevel %d co).\n" % lvl
    mcls = _class(tree, "Method")
    out += "\n(* class Method *)\n" + _signature_info(mcls)
    out += "\n" + _SigString().translate(mcls)
    out += "\n(* class Element: tagged values; [tv] is self.__tagged_values *)\n" + _element(tree)
    if common_text is not None:
        out += "\n(* common/__init__.py ABCInterfaceClass.__method_from_function *)\n" + _abc_method(common_text)
    return out


def stub(path, reason):
    """What is written when the translation aborts: no kernel (translation_ok = false), so the
    theorems cannot be proved and the Tie only runs the Spec oracle."""
    reason = "".join(ch if (ch.isalnum() and ch.isascii()) or ch in " _.,:=[]-+/" else "?" for ch in reason)
    out = HEADER % {"path": path, "ok": "false"}
    out += "(* translation aborted: %s *)\n" % reason
    out += "\nDefinition fromFunction (co : code) : result method := IndexError.\n"
    out += "\nDefinition fromMethod (co : code) : result method := IndexError.\n"
    out += "\nDefinition abc_method_from_function (co : code) : result method := IndexError.\n"
    out += "\nDefinition getSignatureString_gen (m : method) : pstr := [].\n"
    out += ("\nDefinition tv_init : tvstate := None.\n"
            "Definition getTaggedValue (tv : tvstate) (v_tag : name) : rd := RKeyError.\n"
            "Definition queryTaggedValue (tv : tvstate) (v_tag : name) (v_default : val) : val := v_default.\n"
            "Definition queryTaggedValue_default : val := VNone.\n"
            "Definition getTaggedValueTags (tv : tvstate) : list name := [].\n"
            "Definition setTaggedValue (tv : tvstate) (v_tag : name) (v_value : dflt) : tvstate := tv.\n"
            "Definition queryDirectTaggedValue := queryTaggedValue.\n"
            "Definition getDirectTaggedValue := getTaggedValue.\n"
            "Definition getDirectTaggedValueTags := getTaggedValueTags.\n")
    return out


def translate_file(path):
    import os
    with open(path) as fh:
        text = fh.read()
    with open(os.path.join(os.path.dirname(path), "common", "__init__.py")) as fh:
        common = fh.read()
    return translate_source(text, path, common)


if __name__ == "__main__":
    import sys
    print(translate_file(sys.argv[1]))
