"""Fail-closed translator: zope/interface/interface.py ``fromFunction`` / ``fromMethod``
-> Gallina (coq/Gen/FromFunction.v).

The source is parsed with Python's ``ast``.  Only the statement / expression shapes listed below
are accepted, every expression is typed (int / list of names / list of defaults / dict / bool /
optional name) and anything else raises ``Abort`` — there is no fallback.  The output is a
function over the abstract function object of Model/PyFunc.v:

    fromFunction : code -> result method      (``names[i]`` out of range -> IndexError)
    fromMethod   : code -> result method      (= fromFunction with the imlevel the source passes)

Python ints are Z, slices / indexing / len / zip / dict have Python's semantics (Model/PyFunc.v
py_slice, py_index, py_len, py_zip, dict_set ...).  An ``if`` becomes
``rbind (if c then .. Ok (x, y) else .. Ok (x, y)) (fun '(x, y) => ..)`` over the variables
assigned in either branch.

Accepted statements
    x = <expr>                      x = seq[i]  (fallible: rbind (py_index ..))
    method.positional|required|optional|varargs|kwargs = <expr> | seq[i] | None
    if <test>: .. [else: ..]
    d.update(dict(zip(a, b)))       (d a dict variable)
    for key, value in func.__dict__.items(): method.setTaggedValue(key, value)
    the fixed prologue/epilogue lines (name = name or func.__name__; method = Method(name,
    func.__doc__); code = func.__code__; method.interface = interface; return method)
Accepted expressions
    int constants, variables (imlevel is one, initialised from the argument and
    re-assignable, e.g. ``if imlevel > code.co_argcount: imlevel = code.co_argcount``), code.co_argcount, code.co_kwonlyargcount,
    code.co_varnames, a + b, a - b, -a, not a, a < b (<=, >, >=, ==, !=), len(s), s[a:], s[:b],
    s[a:b], {}, code.co_flags & CO_VARARGS, code.co_flags & CO_VARKEYWORDS,
    getattr(func, '__defaults__', None) or ()      -> fn_defaults co
    getattr(func, '__defaults_count__', 0)         -> 0   (CPython functions have no such
                                                           attribute; the driver checks that)
"""
import ast
import inspect


class Abort(Exception):
    """The source has a shape this translator does not know: no kernel is produced."""


INT, NAMES, DFLTS, DICT, BOOL, ONAME, CODE = "int", "names", "dflts", "dict", "bool", "oname", "code"
FIELDS = {"positional": NAMES, "required": NAMES, "optional": DICT, "varargs": ONAME, "kwargs": ONAME}
FIELD_ORDER = ["positional", "required", "optional", "varargs", "kwargs", "tagged"]

EXPECTED_SIGNATURE = "def fromFunction(func, interface=None, imlevel=0, name=None): pass"
EXPECTED_FROMMETHOD = """
def fromMethod(meth, interface=None, name=None):
    if isinstance(meth, MethodType):
        func = meth.__func__
    else:
        func = meth
    return fromFunction(func, interface, imlevel=1, name=name)
"""
FIXED = {
    "name = name or func.__name__": "name",
    "method = Method(name, func.__doc__)": "init",
    "code = func.__code__": "code",
    "method.interface = interface": "skip",
}
TAGGED_LOOP = "for key, value in func.__dict__.items():\n    method.setTaggedValue(key, value)"
DEFAULTS_EXPR = "getattr(func, '__defaults__', None) or ()"
DEFAULTS_COUNT_EXPR = "getattr(func, '__defaults_count__', 0)"


def _dump(node):
    return ast.dump(node, annotate_fields=True, include_attributes=False)


def _same(node, text):
    want = ast.parse(text).body[0]
    if isinstance(want, ast.Expr) and not isinstance(node, ast.Expr):
        want = want.value
    return _dump(node) == _dump(want)


def _where(node):
    return "line %s: %s" % (getattr(node, "lineno", "?"), ast.unparse(node).split("\n")[0][:100])


def cvar(v):
    if v.startswith("method."):
        return "f_" + v.split(".", 1)[1]
    return "v_" + v


class Translator:
    def __init__(self):
        self.code_var = None

    # ------------------------------------------------------------------ expressions
    def expr(self, e, env):
        """-> (coq text, type)"""
        if isinstance(e, ast.Constant):
            if type(e.value) is int:
                return "(%d)%%Z" % e.value, INT
            raise Abort("unsupported constant: " + _where(e))
        if isinstance(e, ast.Name):
            if e.id in env and env[e.id] != CODE:
                return cvar(e.id), env[e.id]
            raise Abort("unknown variable: " + _where(e))
        if isinstance(e, ast.Attribute):
            if isinstance(e.value, ast.Name) and env.get(e.value.id) == CODE:
                if e.attr in ("co_argcount", "co_kwonlyargcount"):
                    return "(Z.of_nat (%s co))" % e.attr, INT
                if e.attr == "co_varnames":
                    return "(co_varnames co)", NAMES
            raise Abort("unsupported attribute: " + _where(e))
        if isinstance(e, ast.BoolOp):
            if _same(e, DEFAULTS_EXPR):
                return "(fn_defaults co)", DFLTS
            raise Abort("unsupported boolean expression: " + _where(e))
        if isinstance(e, ast.BinOp):
            if isinstance(e.op, ast.BitAnd):
                l, r = e.left, e.right
                if (isinstance(l, ast.Attribute) and l.attr == "co_flags" and isinstance(l.value, ast.Name)
                        and env.get(l.value.id) == CODE and isinstance(r, ast.Name)
                        and r.id in ("CO_VARARGS", "CO_VARKEYWORDS") and r.id not in env):
                    return ("(has_varargs co)" if r.id == "CO_VARARGS" else "(has_varkw co)"), BOOL
                raise Abort("unsupported flag test: " + _where(e))
            if isinstance(e.op, (ast.Add, ast.Sub)):
                a, ta = self.expr(e.left, env)
                b, tb = self.expr(e.right, env)
                if ta != INT or tb != INT:
                    raise Abort("arithmetic on non-integers: " + _where(e))
                return "(%s %s %s)%%Z" % (a, "+" if isinstance(e.op, ast.Add) else "-", b), INT
            raise Abort("unsupported operator: " + _where(e))
        if isinstance(e, ast.UnaryOp):
            a, ta = self.expr(e.operand, env)
            if isinstance(e.op, ast.USub) and ta == INT:
                return "(- %s)%%Z" % a, INT
            if isinstance(e.op, ast.Not):
                return "(negb %s)" % self.truth(a, ta, e), BOOL
            raise Abort("unsupported unary operator: " + _where(e))
        if isinstance(e, ast.Compare):
            if len(e.ops) != 1:
                raise Abort("chained comparison: " + _where(e))
            a, ta = self.expr(e.left, env)
            b, tb = self.expr(e.comparators[0], env)
            if ta != INT or tb != INT:
                raise Abort("comparison of non-integers: " + _where(e))
            ops = {ast.Lt: "(%s <? %s)%%Z", ast.LtE: "(%s <=? %s)%%Z", ast.Gt: "(%s >? %s)%%Z",
                   ast.GtE: "(%s >=? %s)%%Z", ast.Eq: "(%s =? %s)%%Z", ast.NotEq: "(negb (%s =? %s)%%Z)"}
            fmt = ops.get(type(e.ops[0]))
            if fmt is None:
                raise Abort("unsupported comparison: " + _where(e))
            return fmt % (a, b), BOOL
        if isinstance(e, ast.Call):
            if _same(e, DEFAULTS_COUNT_EXPR):
                return "(0)%Z", INT
            if (isinstance(e.func, ast.Name) and e.func.id == "len" and "len" not in env
                    and len(e.args) == 1 and not e.keywords):
                a, ta = self.expr(e.args[0], env)
                if ta not in (NAMES, DFLTS):
                    raise Abort("len of a non-sequence: " + _where(e))
                return "(py_len %s)" % a, INT
            raise Abort("unsupported call: " + _where(e))
        if isinstance(e, ast.Subscript):
            if isinstance(e.slice, ast.Slice):
                s = e.slice
                if s.step is not None:
                    raise Abort("slice with a step: " + _where(e))
                v, tv = self.expr(e.value, env)
                if tv not in (NAMES, DFLTS):
                    raise Abort("slice of a non-sequence: " + _where(e))
                bounds = []
                for b in (s.lower, s.upper):
                    if b is None:
                        bounds.append("None")
                    else:
                        t, tt = self.expr(b, env)
                        if tt != INT:
                            raise Abort("non-integer slice bound: " + _where(e))
                        bounds.append("(Some %s)" % t)
                return "(py_slice %s %s %s)" % (v, bounds[0], bounds[1]), tv
            raise Abort("indexing is only supported as the whole right-hand side of an assignment: " + _where(e))
        if isinstance(e, ast.Dict) and not e.keys:
            return "(@nil (name * dflt))", DICT
        raise Abort("unsupported expression: " + _where(e))

    def truth(self, text, typ, node):
        if typ == BOOL:
            return text
        if typ == INT:
            return "(negb (%s =? 0)%%Z)" % text
        raise Abort("truth value of a %s: %s" % (typ, _where(node)))

    def index_expr(self, e, env):
        """seq[i] (no slice) -> (seq text, index text, element type) or None"""
        if isinstance(e, ast.Subscript) and not isinstance(e.slice, ast.Slice):
            v, tv = self.expr(e.value, env)
            i, ti = self.expr(e.slice, env)
            if tv != NAMES or ti != INT:
                raise Abort("unsupported indexing: " + _where(e))
            return v, i
        return None

    # ------------------------------------------------------------------ statements
    def assigned(self, stmts):
        out = []
        for s in stmts:
            if isinstance(s, ast.Assign) and len(s.targets) == 1:
                t = s.targets[0]
                if isinstance(t, ast.Name):
                    k = t.id
                elif isinstance(t, ast.Attribute) and isinstance(t.value, ast.Name) and t.value.id == "method":
                    k = "method." + t.attr
                else:
                    raise Abort("unsupported assignment target: " + _where(s))
                if k not in out:
                    out.append(k)
            elif isinstance(s, ast.If):
                for k in self.assigned(s.body) + self.assigned(s.orelse):
                    if k not in out:
                        out.append(k)
            elif isinstance(s, ast.Expr) and isinstance(s.value, ast.Call) and isinstance(s.value.func, ast.Attribute) \
                    and s.value.func.attr == "update" and isinstance(s.value.func.value, ast.Name):
                if s.value.func.value.id not in out:
                    out.append(s.value.func.value.id)
            else:
                raise Abort("unsupported statement inside a branch: " + _where(s))
        return out

    def block(self, stmts, env, tail, ind):
        if not stmts:
            return tail(env)
        s, rest = stmts[0], stmts[1:]
        return self.stmt(s, env, lambda env2: self.block(rest, env2, tail, ind), ind)

    def bind(self, key, typ, text, env, k, ind):
        env2 = dict(env)
        if key in env2 and env2[key] != typ:
            raise Abort("variable %s changes type from %s to %s" % (key, env2[key], typ))
        env2[key] = typ
        return "%slet %s := %s in\n%s" % (ind, cvar(key), text, k(env2))

    def stmt(self, s, env, k, ind):
        src = ast.unparse(s)
        if isinstance(s, ast.Expr) and isinstance(s.value, ast.Constant) and isinstance(s.value.value, str):
            return k(env)   # docstring
        if src in FIXED:
            what = FIXED[src]
            if what == "name" or what == "skip":
                if what == "skip" and "method.tagged" not in env:
                    raise Abort("method used before it is created: " + _where(s))
                return k(env)
            if what == "code":
                if "code" in env:
                    raise Abort("code object rebound: " + _where(s))
                env2 = dict(env)
                env2["code"] = CODE
                return k(env2)
            if what == "init":
                if "method.tagged" in env:
                    raise Abort("method created twice: " + _where(s))
                env2 = dict(env)
                out = ""
                for f, init in (("positional", "(@nil name)"), ("required", "(@nil name)"),
                                ("optional", "(@nil (name * dflt))"), ("varargs", "(@None name)"),
                                ("kwargs", "(@None name)"), ("tagged", "(@nil (name * dflt))")):
                    env2["method." + f] = FIELDS.get(f, DICT)
                    out += "%slet %s := %s in\n" % (ind, cvar("method." + f), init)
                return out + k(env2)
        if isinstance(s, ast.For):
            if src == TAGGED_LOOP and _same(s, TAGGED_LOOP) and "method.tagged" in env:
                return self.bind("method.tagged", DICT, "(dict_update f_tagged (fn_dict co))", env, k, ind)
            raise Abort("unsupported loop: " + _where(s))
        if isinstance(s, ast.Assign):
            if len(s.targets) != 1:
                raise Abort("multiple assignment: " + _where(s))
            t = s.targets[0]
            if isinstance(t, ast.Name):
                if t.id in ("func", "interface", "name", "method", "code", "co", "len", "getattr",
                            "zip", "dict", "Method", "CO_VARARGS", "CO_VARKEYWORDS"):
                    raise Abort("assignment to a reserved name: " + _where(s))
                key, want = t.id, None
            elif isinstance(t, ast.Attribute) and isinstance(t.value, ast.Name) and t.value.id == "method" \
                    and t.attr in FIELDS and "method.tagged" in env:
                key, want = "method." + t.attr, FIELDS[t.attr]
            else:
                raise Abort("unsupported assignment target: " + _where(s))
            ix = self.index_expr(s.value, env)
            if ix is not None:
                seq, i = ix
                if want == ONAME:
                    env2 = dict(env)
                    return ("%srbind (py_index %s %s) (fun t_item =>\n%slet %s := Some t_item in\n%s)"
                            % (ind, seq, i, ind, cvar(key), k(env2)))
                raise Abort("an indexed name may only be stored in method.varargs / method.kwargs: " + _where(s))
            if want == ONAME and isinstance(s.value, ast.Constant) and s.value.value is None:
                return self.bind(key, ONAME, "(@None name)", env, k, ind)
            text, typ = self.expr(s.value, env)
            if want is not None and typ != want:
                raise Abort("method.%s assigned a %s: %s" % (t.attr, typ, _where(s)))
            if typ in (BOOL, ONAME):
                raise Abort("unsupported variable type: " + _where(s))
            return self.bind(key, typ, text, env, k, ind)
        if isinstance(s, ast.Expr) and isinstance(s.value, ast.Call):
            c = s.value
            if (isinstance(c.func, ast.Attribute) and c.func.attr == "update" and isinstance(c.func.value, ast.Name)
                    and env.get(c.func.value.id) == DICT and len(c.args) == 1 and not c.keywords):
                a = c.args[0]
                if (isinstance(a, ast.Call) and isinstance(a.func, ast.Name) and a.func.id == "dict"
                        and len(a.args) == 1 and not a.keywords):
                    z = a.args[0]
                    if (isinstance(z, ast.Call) and isinstance(z.func, ast.Name) and z.func.id == "zip"
                            and len(z.args) == 2 and not z.keywords):
                        x, tx = self.expr(z.args[0], env)
                        y, ty = self.expr(z.args[1], env)
                        if tx == NAMES and ty == DFLTS:
                            d = c.func.value.id
                            return self.bind(d, DICT, "(dict_update %s (dict_of_pairs (py_zip %s %s)))"
                                             % (cvar(d), x, y), env, k, ind)
            raise Abort("unsupported call statement: " + _where(s))
        if isinstance(s, ast.If):
            test, tt = self.expr(s.test, env)
            test = self.truth(test, tt, s.test)
            keys = self.assigned(s.body + s.orelse)
            if not keys:
                raise Abort("branch without effect: " + _where(s))
            for key in keys:
                if key not in env:
                    # Python would leave it unbound on one path unless both paths assign it
                    if not (key in self.assigned(s.body) and key in self.assigned(s.orelse)):
                        raise Abort("variable %s may be unbound after: %s" % (key, _where(s)))
            tup = ", ".join(cvar(key) for key in keys)
            types = {}

            def tail(env_b):
                for key in keys:
                    if key not in env_b:
                        raise Abort("variable %s unbound at the end of a branch: %s" % (key, _where(s)))
                    if types.setdefault(key, env_b[key]) != env_b[key]:
                        raise Abort("variable %s has different types in the two branches: %s" % (key, _where(s)))
                return "%s  Ok (%s)" % (ind, tup)

            # a key first bound inside a branch needs a dummy for the other one: excluded above
            body = self.block(s.body, dict(env), tail, ind + "  ")
            orelse = self.block(s.orelse, dict(env), tail, ind + "  ")
            env2 = dict(env)
            for key in keys:
                if key in env and env[key] != types[key]:
                    raise Abort("variable %s changes type in: %s" % (key, _where(s)))
                env2[key] = types[key]
            pat = cvar(keys[0]) if len(keys) == 1 else "'(%s)" % tup
            return ("%srbind (if %s then\n%s\n%selse\n%s)\n%s(fun %s =>\n%s)"
                    % (ind, test, body, ind, orelse, ind, pat, k(env2)))
        raise Abort("unsupported statement: " + _where(s))

    # ------------------------------------------------------------------ top level
    def function(self, fn):
        want = ast.parse(EXPECTED_SIGNATURE).body[0]
        if _dump(fn.args) != _dump(want.args) or fn.decorator_list or fn.returns is not None:
            raise Abort("fromFunction has an unexpected signature: " + ast.unparse(fn.args))
        body = list(fn.body)
        if not body or ast.unparse(body[-1]) != "return method":
            raise Abort("fromFunction does not end in ``return method``")

        def tail(env):
            for f in FIELD_ORDER:
                if "method." + f not in env:
                    raise Abort("method is never created")
            return "  Ok (mkMethod %s)" % " ".join(cvar("method." + f) for f in FIELD_ORDER)

        # the imlevel argument is an ordinary (re-assignable) int variable
        return ("  let v_imlevel := (Z.of_nat (fn_imlevel co)) in\n"
                + self.block(body[:-1], {"imlevel": INT}, tail, "  "))


def _find_function(tree, name):
    found = [n for n in tree.body if isinstance(n, ast.FunctionDef) and n.name == name]
    if len(found) != 1:
        raise Abort("expected exactly one module-level def %s, found %d" % (name, len(found)))
    # nobody rebinds the name at module level
    for n in tree.body:
        if isinstance(n, (ast.Assign, ast.AugAssign, ast.AnnAssign)):
            targets = n.targets if isinstance(n, ast.Assign) else [n.target]
            for t in targets:
                if isinstance(t, ast.Name) and t.id == name:
                    raise Abort("%s is rebound at module level" % name)
    return found[0]


def _check_flags(tree):
    vals = {}
    for n in ast.walk(tree):
        if isinstance(n, (ast.Assign, ast.AugAssign, ast.AnnAssign)):
            targets = n.targets if isinstance(n, ast.Assign) else [n.target]
            for t in targets:
                for sub in ast.walk(t):
                    if isinstance(sub, ast.Name) and sub.id in ("CO_VARARGS", "CO_VARKEYWORDS"):
                        if not (isinstance(n, ast.Assign) and len(n.targets) == 1 and isinstance(t, ast.Name)
                                and isinstance(n.value, ast.Constant) and type(n.value.value) is int
                                and n in tree.body) or sub.id in vals:
                            raise Abort("unexpected binding of " + sub.id)
                        vals[sub.id] = n.value.value
    if vals != {"CO_VARARGS": inspect.CO_VARARGS, "CO_VARKEYWORDS": inspect.CO_VARKEYWORDS}:
        raise Abort("CO_VARARGS / CO_VARKEYWORDS are not CPython's flag values: %r" % (vals,))


def _check_builtins(tree):
    """len / zip / dict / getattr mean the builtins: nothing in the module rebinds them."""
    names = {"len", "zip", "dict", "getattr"}
    for n in ast.walk(tree):
        bound = []
        if isinstance(n, ast.Name) and isinstance(n.ctx, (ast.Store, ast.Del)):
            bound = [n.id]
        elif isinstance(n, (ast.FunctionDef, ast.AsyncFunctionDef, ast.ClassDef)):
            bound = [n.name]
        elif isinstance(n, (ast.Import, ast.ImportFrom)):
            bound = [(a.asname or a.name).split(".")[0] for a in n.names]
            if any(a.name == "*" for a in n.names):
                raise Abort("star import in the module")
        elif isinstance(n, ast.arg):
            bound = [n.arg]
        elif isinstance(n, (ast.Global, ast.Nonlocal)):
            bound = list(n.names)
        hit = names.intersection(bound)
        if hit:
            raise Abort("builtin %s is rebound in the module (line %s)" % (sorted(hit), getattr(n, "lineno", "?")))


def _check_method_class(tree):
    """class Method's class-level initial values are what the ``init`` step assumes."""
    cls = [n for n in tree.body if isinstance(n, ast.ClassDef) and n.name == "Method"]
    if len(cls) != 1:
        raise Abort("expected exactly one class Method")
    lines = [ast.unparse(n) for n in cls[0].body if isinstance(n, ast.Assign)]
    for need in ("positional = required = ()", "_optional = varargs = kwargs = None"):
        if need not in lines:
            raise Abort("class Method no longer has ``%s``" % need)
    if "__init__" in [n.name for n in cls[0].body if isinstance(n, ast.FunctionDef)]:
        raise Abort("class Method defines __init__")


def _from_method(tree):
    fn = _find_function(tree, "fromMethod")
    ret = fn.body[-1] if fn.body else None
    lvl = None
    if isinstance(ret, ast.Return) and isinstance(ret.value, ast.Call):
        for kw in ret.value.keywords:
            if kw.arg == "imlevel" and isinstance(kw.value, ast.Constant) and type(kw.value.value) is int \
                    and kw.value.value >= 0:
                lvl = kw.value.value
                kw.value = ast.Constant(value=1)
    if lvl is None or _dump(fn) != _dump(ast.parse(EXPECTED_FROMMETHOD).body[0]):
        raise Abort("fromMethod has an unexpected shape")
    return lvl


HEADER = """(* GENERATED by harness/translate/fromfunction.py from
     %(path)s
   (functions fromFunction, fromMethod).  Do not edit; regenerated on every run. *)
From Coq Require Import List ZArith Bool.
Import ListNotations.
From ZI Require Import Model.PyFunc.

Definition translation_ok : bool := %(ok)s.
"""


def translate_source(text, path="<string>"):
    tree = ast.parse(text)
    _check_flags(tree)
    _check_builtins(tree)
    _check_method_class(tree)
    fn = _find_function(tree, "fromFunction")
    body = Translator().function(fn)
    lvl = _from_method(tree)
    out = HEADER % {"path": path, "ok": "true"}
    out += "\nDefinition fromFunction (co : code) : result method :=\n" + body + ".\n"
    out += "\nDefinition fromMethod (co : code) : result method :=\n  fromFunction (with_imlevel %d co).\n" % lvl
    return out


def stub(path, reason):
    """What is written when the translation aborts: no kernel (translation_ok = false), so the
    theorems cannot be proved and the Tie only runs the Spec oracle."""
    reason = "".join(ch if (ch.isalnum() and ch.isascii()) or ch in " _.,:=[]-+/" else "?" for ch in reason)
    out = HEADER % {"path": path, "ok": "false"}
    out += "(* translation aborted: %s *)\n" % reason
    out += "\nDefinition fromFunction (co : code) : result method := IndexError.\n"
    out += "\nDefinition fromMethod (co : code) : result method := IndexError.\n"
    return out


def translate_file(path):
    with open(path) as fh:
        return translate_source(fh.read(), path)


if __name__ == "__main__":
    import sys
    print(translate_file(sys.argv[1]))
