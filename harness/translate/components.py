"""Fail-closed translator: ``zope/interface/registry.py`` (bookkeeping kernels of ``Components``)
-> ``coq/Gen/ComponentsKernel.v``.

Translated (everything else in registry.py is ignored):
  class _UnhashableComponentCounter   __init__, __getitem__, __setitem__, __delitem__
  class _UtilityRegistrations         __cache_utility, __uncache_utility, _is_utility_subscribed,
                                      registerUtility, unregisterUtility
  class Components                    registerUtility, unregisterUtility, registeredUtilities,
                                      registerAdapter, unregisterAdapter, registeredAdapters,
                                      registerSubscriptionAdapter, unregisterSubscriptionAdapter,
                                      registeredSubscriptionAdapters, registerHandler,
                                      unregisterHandler, registeredHandlers

The output is Gallina over the vocabulary of coq/Model/Components.v (state record [cstate], the
two registries through Model/Adapter.v's register / unregister / subscribe / unsubscribe, event
log, return values); Proofs/ComponentsKernel.v proves every generated definition equal to the
hand-written model, for all states and arguments (Properties/C16.v, C16_generated_*_eq_model).

Abstractions made by the translator (trusted; each is a fixed table below, not a guess):
  * ``self._cache[provided]`` is a cache value of unknown class (defaultdict(int) or
    _UnhashableComponentCounter): item access goes through Model.entry_getitem / entry_setitem /
    entry_delitem, which dispatch to Python-dict semantics or to the *generated* counter methods;
    ``e[c]`` may raise TypeError (None), ``e[c] = n`` / ``del e[c]`` are only accepted after a
    successful ``e[c]`` with the same key in the same function; reading a defaultdict is treated
    as pure (the zero entry it creates is indistinguishable from an absent one);
  * counts are naturals: ``count -= 1`` is truncated subtraction (a count of 0 is unreachable,
    Proofs/Components.v inv_u); the trailing ``raise KeyError`` of __delitem__ (marked
    ``# pragma: no cover`` in the source) is "no change";
  * ``self._utility_registrations_cache`` is the _UtilityRegistrations object sharing
    ``self.utilities`` and ``self._utility_registrations`` (the lazily rebuilding property is not
    translated); del of a missing dictionary key (KeyError) does not occur: every ``del d[k]`` is
    accepted only after a successful ``d.get(k)`` / under the caller's contract for
    _UtilityRegistrations.unregisterUtility;
  * inference helpers are oracles (Section variables of the generated file): _getUtilityProvided,
    _getName, _getAdapterProvided, _getAdapterRequired; an oracle answering None raises TypeError;
  * a ``factory=`` argument of register/unregisterUtility is a pair (identity, the component it
    returns); a call that reaches a point needing a component while ``component`` is still None
    yields the marker ROutside (outside the modelled argument space);
  * subscription / handler registrations are stored without their name, which the source
    guarantees to be '' (``if name: raise TypeError`` dominates every append).
Anything that is not one of the accepted statement / expression shapes raises TranslationError.
"""
import ast
import copy
import os

HERE = os.path.dirname(os.path.abspath(__file__))
PINNED = os.path.join(HERE, "components_pinned_registry.txt")


class TranslationError(Exception):
    pass


def _fail(node, why):
    raise TranslationError("registry.py:%s: %s: %s" % (
        getattr(node, "lineno", "?"), why, ast.dump(node)[:160] if isinstance(node, ast.AST) else node))


OPT = {"ovalue": "value", "ospec": "spec", "ofactory": "factory", "outriple": "utriple", "oapair": "apair",
       "oreq": "reqo"}


class Var:
    def __init__(self, typ, coq):
        self.typ, self.coq = typ, coq


class Env:
    def __init__(self):
        self.vars = {}
        self.empty = set()        # python names known to be ''
        self.safe = set()         # (entry coq, key coq) for which e[k] succeeded
        self.got = set()          # (store, key coq) for which store.get(key) returned an entry
        self.n = 0
        self.aliases = {}         # python name -> provided-coq of the cache location it aliases

    def copy(self):
        e = Env()
        e.vars = dict(self.vars)
        e.empty = set(self.empty)
        e.safe = set(self.safe)
        e.got = set(self.got)
        e.n = self.n
        e.aliases = dict(self.aliases)
        return e

    def fresh(self, base):
        self.n += 1
        return "%s%d" % (base, self.n)


def _is_self_attr(node, attr=None):
    return (isinstance(node, ast.Attribute) and isinstance(node.value, ast.Name) and node.value.id == "self"
            and (attr is None or node.attr == attr))


def _docless(body):
    if body and isinstance(body[0], ast.Expr) and isinstance(body[0].value, ast.Constant) \
            and isinstance(body[0].value.value, str):
        return body[1:]
    return body


def _plain_args(fn, names):
    a = fn.args
    if a.vararg or a.kwarg or a.kwonlyargs or getattr(a, "posonlyargs", None):
        _fail(fn, "unexpected parameter kinds")
    if [x.arg for x in a.args] != names:
        _fail(fn, "unexpected parameter names (expected %r)" % (names,))
    if fn.decorator_list:
        _fail(fn, "decorated method")


def _defaults(fn):
    """{param: default AST} for trailing parameters with defaults"""
    a = fn.args
    names = [x.arg for x in a.args]
    return dict(zip(names[len(names) - len(a.defaults):], a.defaults))


def _check_defaults(fn, expected):
    got = {}
    for k, v in _defaults(fn).items():
        if not isinstance(v, ast.Constant):
            _fail(v, "non-constant default")
        got[k] = v.value
    if got != expected:
        _fail(fn, "unexpected defaults %r (expected %r)" % (got, expected))


# =========================================================================== the counter class

def _loop_search(fn, want_enumerate):
    """``for <target> in [enumerate](self._data): if <test>: <body>`` followed by trailing statements"""
    body = _docless(fn.body)
    if len(body) != 2 or not isinstance(body[0], ast.For) or body[0].orelse:
        _fail(fn, "expected a for loop followed by one statement")
    loop, tail = body
    it = loop.iter
    if want_enumerate:
        if not (isinstance(it, ast.Call) and isinstance(it.func, ast.Name) and it.func.id == "enumerate"
                and len(it.args) == 1 and not it.keywords and _is_self_attr(it.args[0], "_data")):
            _fail(it, "expected enumerate(self._data)")
    elif not _is_self_attr(it, "_data"):
        _fail(it, "expected self._data")
    if len(loop.body) != 1 or not isinstance(loop.body[0], ast.If) or loop.body[0].orelse:
        _fail(loop, "expected a single if in the loop body")
    return loop.target, loop.body[0].test, loop.body[0].body, tail


def _eq_test(test, lhs_ok, rhs_name):
    """``<lhs> == <param>`` -> coq lhs"""
    if not (isinstance(test, ast.Compare) and len(test.ops) == 1 and isinstance(test.ops[0], ast.Eq)):
        _fail(test, "expected a single == comparison")
    lhs = lhs_ok(test.left)
    if not (isinstance(test.comparators[0], ast.Name) and test.comparators[0].id == rhs_name):
        _fail(test, "expected comparison with parameter %s" % rhs_name)
    return "v_eq %s %s" % (lhs, rhs_name)


def _pair(node, a, b):
    """the tuple (a, b) of two names"""
    return (isinstance(node, ast.Tuple) and len(node.elts) == 2 and all(isinstance(e, ast.Name) for e in node.elts)
            and [e.id for e in node.elts] == [a, b])


def translate_counter(cls):
    methods = {n.name: n for n in cls.body if isinstance(n, ast.FunctionDef)}
    extra = [n for n in cls.body if not isinstance(n, (ast.FunctionDef, ast.Expr, ast.Pass))]
    if extra:
        _fail(extra[0], "unexpected class-level statement in _UnhashableComponentCounter")
    if sorted(methods) != ["__delitem__", "__getitem__", "__init__", "__setitem__"]:
        _fail(cls, "unexpected method set %r" % sorted(methods))
    out = []
    # __init__: self._data = [item for item in otherdict.items()]
    fn = methods["__init__"]
    _plain_args(fn, ["self", "otherdict"])
    body = _docless(fn.body)
    ok = (len(body) == 1 and isinstance(body[0], ast.Assign) and len(body[0].targets) == 1
          and _is_self_attr(body[0].targets[0], "_data") and isinstance(body[0].value, ast.ListComp))
    if ok:
        lc = body[0].value
        g = lc.generators
        ok = (len(g) == 1 and not g[0].ifs and not g[0].is_async and isinstance(g[0].target, ast.Name)
              and isinstance(g[0].iter, ast.Call) and not g[0].iter.args and not g[0].iter.keywords
              and isinstance(g[0].iter.func, ast.Attribute) and g[0].iter.func.attr == "items"
              and isinstance(g[0].iter.func.value, ast.Name) and g[0].iter.func.value.id == "otherdict"
              and isinstance(lc.elt, ast.Name) and lc.elt.id == g[0].target.id)
    if not ok:
        _fail(fn, "expected self._data = [item for item in otherdict.items()]")
    v = fn.body[-1].value.elt.id
    out.append("(* __init__(self, otherdict): self._data = [%s for %s in otherdict.items()] *)" % (v, v))
    out.append("Definition g_counter_init (otherdict_items : list (value * nat)) : list (value * nat) :=")
    out.append("  map (fun %s => %s) otherdict_items." % (v, v))
    out.append("")

    # __getitem__
    fn = methods["__getitem__"]
    _plain_args(fn, ["self", "key"])
    target, test, then, tail = _loop_search(fn, False)
    if not _pair(target, "component", "count"):
        _fail(target, "expected 'for component, count in self._data'")

    def lhs_name(n):
        if isinstance(n, ast.Name) and n.id == "component":
            return "component"
        _fail(n, "expected the loop variable 'component'")
    c = _eq_test(test, lhs_name, "key")
    if not (len(then) == 1 and isinstance(then[0], ast.Return) and isinstance(then[0].value, ast.Name)
            and then[0].value.id == "count"):
        _fail(fn, "expected 'return count' in the loop")
    if not (isinstance(tail, ast.Return) and isinstance(tail.value, ast.Constant) and tail.value.value == 0
            and type(tail.value.value) is int):
        _fail(tail, "expected 'return 0' after the loop")
    out += ["Fixpoint g_counter_getitem (data : list (value * nat)) (key : value) : nat :=",
            "  match data with",
            "  | [] => 0",
            "  | (component, count) :: data' => if %s then count else g_counter_getitem data' key" % c,
            "  end.", ""]

    def data0(n):
        if (isinstance(n, ast.Subscript) and isinstance(n.value, ast.Name) and n.value.id == "data"
                and isinstance(n.slice, ast.Constant) and n.slice.value == 0 and type(n.slice.value) is int):
            return "(fst data)"
        _fail(n, "expected data[0]")

    def self_data_i(n):
        return (isinstance(n, ast.Subscript) and _is_self_attr(n.value, "_data")
                and isinstance(n.slice, ast.Name) and n.slice.id == "i")

    # __setitem__
    fn = methods["__setitem__"]
    _plain_args(fn, ["self", "component", "count"])
    target, test, then, tail = _loop_search(fn, True)
    if not _pair(target, "i", "data"):
        _fail(target, "expected 'for i, data in enumerate(self._data)'")
    c = _eq_test(test, data0, "component")
    if not (len(then) == 2 and isinstance(then[0], ast.Assign) and len(then[0].targets) == 1
            and self_data_i(then[0].targets[0]) and _pair(then[0].value, "component", "count")
            and isinstance(then[1], ast.Return) and then[1].value is None):
        _fail(fn, "expected 'self._data[i] = component, count; return' in the loop")
    ok = (isinstance(tail, ast.Expr) and isinstance(tail.value, ast.Call) and not tail.value.keywords
          and isinstance(tail.value.func, ast.Attribute) and tail.value.func.attr == "append"
          and _is_self_attr(tail.value.func.value, "_data") and len(tail.value.args) == 1
          and _pair(tail.value.args[0], "component", "count"))
    if not ok:
        _fail(tail, "expected self._data.append((component, count)) after the loop")
    out += ["Fixpoint g_counter_setitem (data0 : list (value * nat)) (component : value) (count : nat)",
            "  : list (value * nat) :=",
            "  match data0 with",
            "  | [] => [(component, count)]",
            "  | data :: data' => if %s then (component, count) :: data'" % c,
            "                     else data :: g_counter_setitem data' component count",
            "  end.", ""]

    # __delitem__
    fn = methods["__delitem__"]
    _plain_args(fn, ["self", "component"])
    target, test, then, tail = _loop_search(fn, True)
    if not _pair(target, "i", "data"):
        _fail(target, "expected 'for i, data in enumerate(self._data)'")
    c = _eq_test(test, data0, "component")
    if not (len(then) == 2 and isinstance(then[0], ast.Delete) and len(then[0].targets) == 1
            and self_data_i(then[0].targets[0]) and isinstance(then[1], ast.Return) and then[1].value is None):
        _fail(fn, "expected 'del self._data[i]; return' in the loop")
    ok = (isinstance(tail, ast.Raise) and isinstance(tail.exc, ast.Call) and isinstance(tail.exc.func, ast.Name)
          and tail.exc.func.id == "KeyError")
    if not ok:
        _fail(tail, "expected 'raise KeyError(...)' after the loop")
    out += ["(* the trailing raise KeyError (unreachable: # pragma: no cover) is 'no change' *)",
            "Fixpoint g_counter_delitem (data0 : list (value * nat)) (component : value) : list (value * nat) :=",
            "  match data0 with",
            "  | [] => []",
            "  | data :: data' => if %s then data' else data :: g_counter_delitem data' component" % c,
            "  end.", ""]
    return out


# =========================================================================== statement compiler

CTORS = {"UtilityRegistration": "U", "AdapterRegistration": "A", "SubscriptionRegistration": "S",
         "HandlerRegistration": "H"}
GC = "g_counter_getitem"
SC = "g_counter_setitem"
DC = "g_counter_delitem"


def _const(node, value):
    return isinstance(node, ast.Constant) and node.value == value and type(node.value) is type(value)


def _is_none(node):
    return isinstance(node, ast.Constant) and node.value is None


class Compiler:
    """kind 'ur': methods of _UtilityRegistrations over the variables utils / ureg / cache;
       kind 'comp': methods of Components over st (a cstate) and evs (events so far)."""

    def __init__(self, kind, on_return, on_end, on_typeerror):
        self.kind = kind
        self.on_return, self.on_end, self.on_typeerror = on_return, on_end, on_typeerror

    # ---- state access
    def get(self, field):
        if self.kind == "ur":
            return field
        return "(c_%s st)" % field

    def put(self, field, expr):
        if self.kind == "ur":
            return "let %s := %s in\n  " % (field, expr)
        return "let st := with_%s st (%s) in\n  " % (field, expr)

    # ---- expressions: (type, coq)
    def ex(self, node, env):
        if isinstance(node, ast.Name):
            if node.id in env.aliases:
                _fail(node, "a cache value used as a plain value")
            if node.id not in env.vars:
                _fail(node, "unknown name")
            v = env.vars[node.id]
            return v.typ, v.coq
        if isinstance(node, ast.Constant):
            if node.value == "" and isinstance(node.value, str):
                return "str0", "0"
            if node.value is True or node.value is False:
                return "bool", "true" if node.value else "false"
            if type(node.value) is int and node.value >= 0:
                return "nat", str(node.value)
            if node.value is None:
                return "none", "None"
            _fail(node, "unsupported constant")
        if isinstance(node, ast.Tuple):
            parts = [self.ex(e, env) for e in node.elts if not isinstance(e, ast.Starred)]
            if len(parts) != len(node.elts):
                _fail(node, "starred element in a tuple")
            return "tuple", parts
        if isinstance(node, ast.Subscript) and isinstance(node.ctx, ast.Load):
            typ, c = self.ex(node.value, env) if not self.is_entry(node.value, env) else ("entry", None)
            sl = node.slice
            if typ == "utriple" and _const(sl, 0):
                return "value", "(fst (fst %s))" % c
            if typ == "utriple" and isinstance(sl, ast.Slice) and sl.lower is None and _const(sl.upper, 2) \
                    and sl.step is None:
                return "tuple", [("value", "(fst (fst %s))" % c), ("info", "(snd (fst %s))" % c)]
            if typ == "apair" and _const(sl, 0):
                return "value", "(fst %s)" % c
            _fail(node, "unsupported subscript")
        if isinstance(node, ast.Call):
            f = node.func
            if isinstance(f, ast.Name) and f.id == "len" and len(node.args) == 1 and not node.keywords:
                typ, c = self.ex(node.args[0], env)
                if typ not in ("slist", "hlist"):
                    _fail(node, "len() of something that is not a registration list")
                return "nat", "(length %s)" % c
            if isinstance(f, ast.Name) and not node.args and not node.keywords and f.id in env.vars \
                    and env.vars[f.id].typ == "factory":
                return "value", "(snd %s)" % env.vars[f.id].coq       # factory()
            _fail(node, "unsupported call in an expression")
        if _is_self_attr(node):
            if self.kind == "comp" and node.attr == "_subscription_registrations":
                return "slist", self.get("sreg")
            if self.kind == "comp" and node.attr == "_handler_registrations":
                return "hlist", self.get("hreg")
        if isinstance(node, (ast.Compare, ast.BoolOp)) or (isinstance(node, ast.UnaryOp) and isinstance(node.op, ast.Not)):
            return "bool", self.boolean(node, env)
        _fail(node, "unsupported expression")

    def eq(self, a, b, node):
        """coq boolean for a == b, a and b typed expressions"""
        (ta, ca), (tb, cb) = a, b
        if ta == "tuple" and tb == "tuple":
            if len(ca) != len(cb):
                _fail(node, "tuples of different length compared")
            return "(" + " && ".join(self.eq(x, y, node) for x, y in zip(ca, cb)) + ")"
        if ta == "value" and tb == "value":
            return "v_eq %s %s" % (ca, cb)
        nat_like = {"spec", "name", "info", "nat", "str0"}
        if ta in nat_like and tb in nat_like and (ta == tb or "str0" in (ta, tb) and {ta, tb} <= {"name", "info", "str0"}):
            return "Nat.eqb %s %s" % (ca, cb)
        if ta == "req" and tb == "req":
            return "lspec_eqb %s %s" % (ca, cb)
        _fail(node, "== between %s and %s" % (ta, tb))

    def boolean(self, node, env):
        """a condition without option tests (those are handled by [cond])"""
        if isinstance(node, ast.BoolOp):
            op = " && " if isinstance(node.op, ast.And) else " || "
            return "(" + op.join(self.boolean(v, env) for v in node.values) + ")"
        if isinstance(node, ast.UnaryOp) and isinstance(node.op, ast.Not):
            return "negb (%s)" % self.boolean(node.operand, env)
        if isinstance(node, ast.Compare):
            if len(node.ops) != 1:
                _fail(node, "chained comparison")
            op, l, r = node.ops[0], node.left, node.comparators[0]
            if isinstance(op, (ast.Is, ast.IsNot)):
                a, b = self.ex(l, env), self.ex(r, env)
                if a[0] == "value" and b[0] == "value":
                    c = "v_is %s %s" % (a[1], b[1])
                    return c if isinstance(op, ast.Is) else "negb (%s)" % c
                _fail(node, "identity test between %s and %s" % (a[0], b[0]))
            a, b = self.ex(l, env), self.ex(r, env)
            if isinstance(op, ast.Eq):
                return self.eq(a, b, node)
            if isinstance(op, ast.NotEq):
                return "negb (%s)" % self.eq(a, b, node)
            if isinstance(op, ast.Gt) and a[0] == "nat" and b[0] == "nat":
                return "Nat.ltb %s %s" % (b[1], a[1])
            _fail(node, "unsupported comparison")
        if isinstance(node, ast.Name):
            typ, c = self.ex(node, env)
            if typ == "bool":
                return c
            if typ == "name":          # truthiness of a string
                return "negb (Nat.eqb %s 0)" % c
            _fail(node, "truth value of a %s" % typ)
        _fail(node, "unsupported condition")

    def cond(self, node, env, then_k, else_k):
        """if node then then_k(env') else else_k(env''), refining option variables"""
        if isinstance(node, ast.BoolOp) and isinstance(node.op, ast.And):
            first, rest = node.values[0], node.values[1:]
            restn = rest[0] if len(rest) == 1 else ast.BoolOp(op=ast.And(), values=rest)
            return self.cond(first, env, lambda e: self.cond(restn, e, then_k, else_k), else_k)
        if isinstance(node, ast.BoolOp) and isinstance(node.op, ast.Or):
            first, rest = node.values[0], node.values[1:]
            restn = rest[0] if len(rest) == 1 else ast.BoolOp(op=ast.Or(), values=rest)
            return self.cond(first, env, then_k, lambda e: self.cond(restn, e, then_k, else_k))
        if isinstance(node, ast.UnaryOp) and isinstance(node.op, ast.Not):
            return self.cond(node.operand, env, else_k, then_k)
        if (isinstance(node, ast.Compare) and len(node.ops) == 1 and isinstance(node.ops[0], (ast.Is, ast.IsNot))
                and _is_none(node.comparators[0]) and isinstance(node.left, ast.Name)):
            name = node.left.id
            if name not in env.vars:
                _fail(node, "unknown name")
            v = env.vars[name]
            none_k, some_k = (then_k, else_k) if isinstance(node.ops[0], ast.Is) else (else_k, then_k)
            if v.typ in OPT:
                e2 = env.copy()
                x = e2.fresh(name + "_")
                e2.vars[name] = Var(OPT[v.typ], x)
                return "match %s with\n  | None => %s\n  | Some %s => %s\n  end" % (v.coq, none_k(env.copy()), x, some_k(e2))
            if v.typ in OPT.values():
                return some_k(env)            # statically an object
            _fail(node, "'is None' on a %s" % v.typ)
        if isinstance(node, ast.Name) and node.id in env.vars and env.vars[node.id].typ == "name":
            e_then, e_else = env.copy(), env.copy()
            e_else.empty.add(node.id)
            return "if negb (Nat.eqb %s 0) then %s\n  else %s" % (env.vars[node.id].coq, then_k(e_then), else_k(e_else))
        return "if %s then %s\n  else %s" % (self.boolean(node, env), then_k(env.copy()), else_k(env.copy()))

    # ---- cache values (kind 'ur')
    def is_entry(self, node, env):
        if isinstance(node, ast.Name) and node.id in env.aliases:
            return True
        return (self.kind == "ur" and isinstance(node, ast.Subscript) and _is_self_attr(node.value, "_cache"))

    def entry(self, node, env):
        """-> (class, P coq, entry coq or data coq)"""
        if isinstance(node, ast.Name) and node.id in env.aliases:
            cls, p, data = env.aliases[node.id]
            return cls, p, ("(cache_get cache %s)" % p if cls == "entry" else data)
        typ, p = self.ex(node.slice, env)
        if typ != "spec":
            _fail(node, "self._cache[...] indexed by a %s" % typ)
        return "entry", p, "(cache_get cache %s)" % p

    def getitem(self, node, env, texc, k):
        """e[key] where e is a cache value: k(env, coq of the count)"""
        cls, p, e = self.entry(node.value, env)
        typ, key = self.ex(node.slice, env)
        if typ != "value":
            _fail(node, "cache value indexed by a %s" % typ)
        if cls == "counter":
            return k(env, "(%s %s %s)" % (GC, e, key))
        n = env.fresh("n")
        e2 = env.copy()
        e2.n = env.n
        e2.safe.add((p, key))
        return ("match entry_getitem %s hashable %s %s with\n  | None => %s\n  | Some %s => %s\n  end"
                % (GC, e, key, texc(env.copy()), n, k(e2, n)))

    def setitem(self, target, env, value):
        cls, p, e = self.entry(target.value, env)
        typ, key = self.ex(target.slice, env)
        if typ != "value":
            _fail(target, "cache value indexed by a %s" % typ)
        if cls == "counter":
            return ("let %s := %s %s %s %s in\n  let cache := cache_set cache %s (true, %s) in\n  "
                    % (e, SC, e, key, value, p, e))
        if (p, key) not in env.safe:
            _fail(target, "e[k] = v on a cache value without a preceding successful e[k]")
        return "let cache := cache_set cache %s (entry_setitem %s %s %s %s) in\n  " % (p, SC, e, key, value)

    def delitem(self, target, env):
        cls, p, e = self.entry(target.value, env)
        typ, key = self.ex(target.slice, env)
        if typ != "value":
            _fail(target, "cache value indexed by a %s" % typ)
        if cls == "counter":
            return ("let %s := %s %s %s in\n  let cache := cache_set cache %s (true, %s) in\n  "
                    % (e, DC, e, key, p, e))
        if (p, key) not in env.safe:
            _fail(target, "del e[k] on a cache value without a preceding successful e[k]")
        return "let cache := cache_set cache %s (entry_delitem %s %s %s) in\n  " % (p, DC, e, key)

    # ---- blocks
    def block(self, stmts, env, texc):
        if not stmts:
            return self.on_end(env)
        s, rest = stmts[0], stmts[1:]
        k = lambda e: self.block(rest, e, texc)      # noqa: E731
        return self.stmt(s, env, texc, k, rest)

    def stmt(self, s, env, texc, k, rest):
        if isinstance(s, ast.Expr) and isinstance(s.value, ast.Constant) and isinstance(s.value.value, str):
            return k(env)                             # docstring / stray string
        if isinstance(s, ast.Return):
            return self.ret(s, env, texc)
        if isinstance(s, ast.Raise):
            if (isinstance(s.exc, ast.Call) and isinstance(s.exc.func, ast.Name) and s.exc.func.id == "TypeError"
                    and s.cause is None):
                return self.on_typeerror(env)
            _fail(s, "unsupported raise")
        if isinstance(s, ast.If):
            return self.cond(s.test, env,
                             lambda e: self.block(list(s.body) + list(rest), e, texc),
                             lambda e: self.block(list(s.orelse) + list(rest), e, texc))
        if isinstance(s, ast.Try):
            ok = (len(s.body) == 1 and len(s.handlers) == 1 and not s.orelse and not s.finalbody
                  and isinstance(s.handlers[0].type, ast.Name) and s.handlers[0].type.id == "TypeError"
                  and s.handlers[0].name is None)
            if not ok:
                _fail(s, "only 'try: <one statement> except TypeError: ...' is supported")
            handler = lambda e: self.block(list(s.handlers[0].body) + list(rest), e, texc)   # noqa: E731
            return self.stmt(s.body[0], env, handler, k, rest)
        if isinstance(s, ast.AugAssign):
            return self.augassign(s, env, texc, k)
        if isinstance(s, ast.Assign):
            return self.assign(s, env, texc, k)
        if isinstance(s, ast.Delete):
            return self.delete(s, env, texc, k)
        if isinstance(s, ast.Expr) and isinstance(s.value, ast.Call):
            return self.call_stmt(s.value, env, texc, k)
        _fail(s, "unsupported statement")

    def ret(self, s, env, texc):
        v = s.value
        if v is not None and isinstance(v, ast.Compare) and len(v.ops) == 1 and isinstance(v.left, ast.Subscript) \
                and self.is_entry(v.left.value, env):
            # return e[k] > 0
            def k(e, n):
                e.vars["__item"] = Var("nat", n)
                node = ast.Compare(left=ast.Name(id="__item", ctx=ast.Load()), ops=v.ops, comparators=v.comparators)
                return self.on_return(e, ("bool", self.boolean(node, e)))
            return self.getitem(v.left, env, texc, k)
        if v is None:
            return self.on_return(env, None)
        return self.on_return(env, self.ex(v, env))

    def augassign(self, s, env, texc, k):
        if not (isinstance(s.op, (ast.Add, ast.Sub)) and _const(s.value, 1)):
            _fail(s, "only += 1 / -= 1")
        t = s.target
        if isinstance(t, ast.Subscript) and self.is_entry(t.value, env) and isinstance(s.op, ast.Add):
            def after(e, n):
                return self.setitem(t, e, "(%s + 1)" % n) + k(e)
            return self.getitem(ast.Subscript(value=t.value, slice=t.slice, ctx=ast.Load()), env, texc, after)
        if isinstance(t, ast.Name) and t.id in env.vars and env.vars[t.id].typ == "nat" and isinstance(s.op, ast.Sub):
            c = env.vars[t.id].coq
            return "let %s := %s - 1 in\n  %s" % (c, c, k(env))
        _fail(s, "unsupported augmented assignment")

    # the remaining statement kinds are specific to the two classes
    def assign(self, s, env, texc, k):
        raise NotImplementedError

    def delete(self, s, env, texc, k):
        raise NotImplementedError

    def call_stmt(self, call, env, texc, k):
        raise NotImplementedError


# =========================================================================== class _UtilityRegistrations

def _call_self(call, name, nargs):
    return (isinstance(call, ast.Call) and not call.keywords and _is_self_attr(call.func, name)
            and len(call.args) == nargs)


def _empty_tuple(n):
    return isinstance(n, ast.Tuple) and not n.elts


class UR(Compiler):
    def __init__(self, on_return, on_end, on_typeerror):
        Compiler.__init__(self, "ur", on_return, on_end, on_typeerror)

    def args(self, call, env, types):
        out = []
        for a, t in zip(call.args, types):
            typ, c = self.ex(a, env)
            if typ != t:
                _fail(a, "argument of type %s where %s is expected" % (typ, t))
            out.append(c)
        return out

    def assign(self, s, env, texc, k):
        v = s.value
        # prov = self._cache[P] = _UnhashableComponentCounter(self._cache[P'])
        if (len(s.targets) == 2 and isinstance(s.targets[0], ast.Name) and isinstance(s.targets[1], ast.Subscript)
                and _is_self_attr(s.targets[1].value, "_cache") and isinstance(v, ast.Call)
                and isinstance(v.func, ast.Name) and v.func.id == "_UnhashableComponentCounter"
                and len(v.args) == 1 and not v.keywords):
            arg = v.args[0]
            if not (isinstance(arg, ast.Subscript) and _is_self_attr(arg.value, "_cache")):
                _fail(arg, "_UnhashableComponentCounter(...) must be given one value of self._cache "
                           "(self._cache[<provided>])")
            _cls, p_from, e_from = self.entry(arg, env)
            _cls, p_to, _e = self.entry(s.targets[1], env)
            name = s.targets[0].id
            data = env.fresh(name)
            e2 = env.copy()
            e2.aliases[name] = ("counter", p_to, data)
            return ("let %s := g_counter_init (entry_items %s) in\n  let cache := cache_set cache %s (true, %s) in\n  %s"
                    % (data, e_from, p_to, data, k(e2)))
        if len(s.targets) != 1:
            _fail(s, "unsupported chained assignment")
        t = s.targets[0]
        # <name> = self._cache[P]      (an alias of that cache value)
        if isinstance(t, ast.Name) and isinstance(v, ast.Subscript) and _is_self_attr(v.value, "_cache"):
            _cls, p, _e = self.entry(v, env)
            e2 = env.copy()
            e2.vars.pop(t.id, None)
            e2.aliases[t.id] = ("entry", p, None)
            return k(e2)
        # count = <cache value>[component]
        if isinstance(t, ast.Name) and isinstance(v, ast.Subscript) and self.is_entry(v.value, env):
            def after(e, n):
                e.vars[t.id] = Var("nat", t.id)
                return "let %s := %s in\n  %s" % (t.id, n, k(e))
            return self.getitem(v, env, texc, after)
        # <cache value>[component] = count
        if isinstance(t, ast.Subscript) and self.is_entry(t.value, env):
            typ, c = self.ex(v, env)
            if typ != "nat":
                _fail(s, "a %s stored as a count" % typ)
            return self.setitem(t, env, c) + k(env)
        # subscribed = self._is_utility_subscribed(provided, component)
        if isinstance(t, ast.Name) and _call_self(v, "_is_utility_subscribed", 2):
            p, c = self.args(v, env, ["spec", "value"])
            e2 = env.copy()
            e2.vars[t.id] = Var("bool", t.id)
            return "let %s := g_is_utility_subscribed cache %s %s in\n  %s" % (t.id, p, c, k(e2))
        # subscribed = self.__uncache_utility(provided, component)
        if isinstance(t, ast.Name) and _call_self(v, "__uncache_utility", 2):
            p, c = self.args(v, env, ["spec", "value"])
            e2 = env.copy()
            e2.vars[t.id] = Var("bool", t.id)
            return ("match g_uncache_utility cache %s %s with\n  | None => %s\n  | Some (cache, %s) => %s\n  end"
                    % (p, c, texc(env.copy()), t.id, k(e2)))
        # self._utility_registrations[(provided, name)] = component, info, factory
        if isinstance(t, ast.Subscript) and _is_self_attr(t.value, "_utility_registrations"):
            kt, kc = self.ex(t.slice, env)
            vt, vc = self.ex(v, env)
            if kt != "tuple" or [x[0] for x in kc] != ["spec", "name"]:
                _fail(t, "key of _utility_registrations is not (provided, name)")
            if vt != "tuple" or [x[0] for x in vc] != ["value", "info", "ufac"]:
                _fail(v, "value of _utility_registrations is not (component, info, factory)")
            return ("let ureg := aset pn_eqb ureg (%s, %s) (%s, %s, %s) in\n  %s"
                    % (kc[0][1], kc[1][1], vc[0][1], vc[1][1], vc[2][1], k(env)))
        _fail(s, "unsupported assignment")

    def delete(self, s, env, texc, k):
        if len(s.targets) != 1:
            _fail(s, "multiple del targets")
        t = s.targets[0]
        if isinstance(t, ast.Subscript) and self.is_entry(t.value, env):
            return self.delitem(t, env) + k(env)
        if isinstance(t, ast.Subscript) and _is_self_attr(t.value, "_utility_registrations"):
            kt, kc = self.ex(t.slice, env)
            if kt != "tuple" or [x[0] for x in kc] != ["spec", "name"]:
                _fail(t, "key of _utility_registrations is not (provided, name)")
            return "let ureg := adel pn_eqb ureg (%s, %s) in\n  %s" % (kc[0][1], kc[1][1], k(env))
        _fail(s, "unsupported del")

    def call_stmt(self, call, env, texc, k):
        f = call.func
        if call.keywords:
            _fail(call, "keyword arguments")
        if _call_self(call, "__cache_utility", 2):
            p, c = self.args(call, env, ["spec", "value"])
            return "let cache := g_cache_utility cache %s %s in\n  %s" % (p, c, k(env))
        if isinstance(f, ast.Attribute) and _is_self_attr(f.value, "_utilities") and call.args \
                and _empty_tuple(call.args[0]):
            rest = ast.Call(func=f, args=call.args[1:], keywords=[])
            if f.attr == "register" and len(call.args) == 4:
                p, n, c = self.args(rest, env, ["spec", "name", "value"])
                return "let utils := register W utils [] %s %s (Some %s) in\n  %s" % (p, n, c, k(env))
            if f.attr == "unregister" and len(call.args) == 3:
                p, n = self.args(rest, env, ["spec", "name"])
                return "let utils := unregister W utils [] %s %s None in\n  %s" % (p, n, k(env))
            if f.attr == "subscribe" and len(call.args) == 3:
                p, c = self.args(rest, env, ["spec", "value"])
                return "let utils := subscribe W utils [] (Some %s) %s in\n  %s" % (p, c, k(env))
            if f.attr == "unsubscribe" and len(call.args) == 3:
                p, c = self.args(rest, env, ["spec", "value"])
                return "let utils := unsubscribe W utils [] (Some %s) (Some %s) in\n  %s" % (p, c, k(env))
        _fail(call, "unsupported call statement")


def _env(params):
    env = Env()
    for name, typ in params:
        env.vars[name] = Var(typ, name)
    return env


def translate_utility_registrations(cls):
    methods = {n.name: n for n in cls.body if isinstance(n, ast.FunctionDef)}
    need = ["__cache_utility", "__uncache_utility", "_is_utility_subscribed", "registerUtility", "unregisterUtility"]
    for m in need:
        if m not in methods:
            _fail(cls, "method %s not found in _UtilityRegistrations" % m)
    for n in cls.body:
        if isinstance(n, ast.FunctionDef) and n.name not in need + ["__init__", "_UtilityRegistrations__populate_cache",
                                                                    "__populate_cache"]:
            _fail(n, "unexpected method in _UtilityRegistrations")
    out = []

    def unexpected_return(env, v):
        raise TranslationError("unexpected return")

    # _is_utility_subscribed(self, provided, component) -> bool
    fn = methods["_is_utility_subscribed"]
    _plain_args(fn, ["self", "provided", "component"])
    c = UR(lambda env, v: v[1] if v and v[0] == "bool" else _fail(fn, "non-boolean return"),
           lambda env: _fail(fn, "falls off the end"), lambda env: _fail(fn, "TypeError escapes"))
    body = c.block(_docless(fn.body), _env([("provided", "spec"), ("component", "value")]), c.on_typeerror)
    out += ["Definition g_is_utility_subscribed (cache : ucache) (provided : spec) (component : value) : bool :=",
            "  " + body + ".", ""]

    # __cache_utility(self, provided, component): new cache
    fn = methods["__cache_utility"]
    _plain_args(fn, ["self", "provided", "component"])
    c = UR(unexpected_return, lambda env: "cache", lambda env: _fail(fn, "TypeError escapes"))
    body = c.block(_docless(fn.body), _env([("provided", "spec"), ("component", "value")]), c.on_typeerror)
    out += ["Definition g_cache_utility (cache : ucache) (provided : spec) (component : value) : ucache :=",
            "  " + body + ".", ""]

    # __uncache_utility(self, provided, component): option (cache * bool), None = TypeError escapes
    fn = methods["__uncache_utility"]
    _plain_args(fn, ["self", "provided", "component"])
    c = UR(lambda env, v: "Some (cache, %s)" % v[1] if v and v[0] == "bool" else _fail(fn, "non-boolean return"),
           lambda env: _fail(fn, "falls off the end"), lambda env: "None")
    body = c.block(_docless(fn.body), _env([("provided", "spec"), ("component", "value")]), c.on_typeerror)
    out += ["Definition g_uncache_utility (cache : ucache) (provided : spec) (component : value)",
            "  : option (ucache * bool) :=", "  " + body + ".", ""]

    # registerUtility(self, provided, name, component, info, factory)
    fn = methods["registerUtility"]
    _plain_args(fn, ["self", "provided", "name", "component", "info", "factory"])
    c = UR(unexpected_return, lambda env: "(utils, ureg, cache)", lambda env: _fail(fn, "TypeError escapes"))
    body = c.block(_docless(fn.body), _env([("provided", "spec"), ("name", "name"), ("component", "value"),
                                            ("info", "info"), ("factory", "ufac")]), c.on_typeerror)
    out += ["Definition g_ur_registerUtility (utils : reg) (ureg : list ((spec * Adapter.name) * (value * Components.info * option nat)))",
            "    (cache : ucache) (provided : spec) (name : Adapter.name) (component : value) (info : Components.info)",
            "    (factory : option nat) : reg * list ((spec * Adapter.name) * (value * Components.info * option nat)) * ucache :=",
            "  " + body + ".", ""]

    # unregisterUtility(self, provided, name, component); the boolean is false when TypeError escaped
    fn = methods["unregisterUtility"]
    _plain_args(fn, ["self", "provided", "name", "component"])
    c = UR(unexpected_return, lambda env: "(utils, ureg, cache, true)", lambda env: "(utils, ureg, cache, false)")
    body = c.block(_docless(fn.body), _env([("provided", "spec"), ("name", "name"), ("component", "value")]),
                   c.on_typeerror)
    out += ["Definition g_ur_unregisterUtility (utils : reg) (ureg : list ((spec * Adapter.name) * (value * Components.info * option nat)))",
            "    (cache : ucache) (provided : spec) (name : Adapter.name) (component : value)",
            "  : reg * list ((spec * Adapter.name) * (value * Components.info * option nat)) * ucache * bool :=",
            "  " + body + ".", ""]
    return out


# =========================================================================== class Components

STORES = {"_utility_registrations": ("ureg", "pn_eqb", ["spec", "name"], "outriple"),
          "_adapter_registrations": ("areg", "akey_eqb", ["req", "spec", "name"], "oapair")}


def _opt(typ, c):
    """coq of an option from a plain or optional expression"""
    return c if typ in OPT or typ == "none" else "(Some %s)" % c


class Comp(Compiler):
    OUTSIDE = "(st, ROutside, evs)"

    def __init__(self):
        def on_return(env, v):
            if v is None:
                return "(st, RNone, evs)"
            if v[0] == "bool":
                return "(st, RBool %s, evs)" % (v[1] if v[1] in ("true", "false") else "(%s)" % v[1])
            _fail(None, "unsupported return value of type %s" % v[0])
        Compiler.__init__(self, "comp", on_return, lambda env: "(st, RNone, evs)",
                          lambda env: "(st, RTypeError, evs)")

    # ---- arguments that must be objects: an option still None there is outside the model
    def want(self, node, env, typ, k):
        if isinstance(node, ast.Name) and node.id in env.vars and env.vars[node.id].typ in OPT \
                and OPT[env.vars[node.id].typ] == typ:
            v = env.vars[node.id]
            e2 = env.copy()
            x = e2.fresh(node.id + "_")
            e2.vars[node.id] = Var(typ, x)
            return "match %s with\n  | None => %s\n  | Some %s => %s\n  end" % (v.coq, self.OUTSIDE, x, k(e2, x))
        t, c = self.ex(node, env)
        if t == "str0" and typ in ("name", "info"):
            t = typ
        if t != typ:
            _fail(node, "a %s where a %s is needed" % (t, typ))
        return k(env, c)

    def wants(self, nodes, types, env, k, acc=None):
        acc = acc or []
        if not nodes:
            return k(env, acc)
        return self.want(nodes[0], env, types[0],
                         lambda e, c: self.wants(nodes[1:], types[1:], e, k, acc + [c]))

    def definite(self, names, env, k):
        """refine the option variables [names] (outside the model if None)"""
        if not names:
            return k(env)
        n = names[0]
        node = ast.Name(id=n, ctx=ast.Load())
        return self.want(node, env, OPT[env.vars[n].typ], lambda e, _c: self.definite(names[1:], e, k))

    def loose_options(self, node, env):
        """option variables used in [node] other than as the subject of an 'is (not) None' test"""
        tested = set()
        for n in ast.walk(node):
            if (isinstance(n, ast.Compare) and len(n.ops) == 1 and isinstance(n.ops[0], (ast.Is, ast.IsNot))
                    and isinstance(n.left, ast.Name) and _is_none(n.comparators[0])):
                tested.add(n.left.id)
        out = []
        for n in ast.walk(node):
            if isinstance(n, ast.Name) and n.id in env.vars and env.vars[n.id].typ in OPT \
                    and n.id not in tested and n.id not in out:
                out.append(n.id)
        return out

    def stmt(self, s, env, texc, k, rest):
        if isinstance(s, ast.If):
            loose = self.loose_options(s.test, env)
            if loose:
                return self.definite(loose, env, lambda e: Compiler.stmt(self, s, e, texc, k, rest))
        return Compiler.stmt(self, s, env, texc, k, rest)

    # ---- registration records
    def expand_args(self, args, env):
        out = []
        for a in args:
            if isinstance(a, ast.Starred):
                v = a.value
                if isinstance(v, ast.Subscript) and isinstance(v.slice, ast.Slice) and _const(v.slice.lower, 1) \
                        and v.slice.upper is None and v.slice.step is None:
                    typ, c = self.ex(v.value, env)
                    if typ != "utriple":
                        _fail(a, "*x[1:] of a %s" % typ)
                    out += [("info", "(snd (fst %s))" % c), ("ufac", "(snd %s)" % c)]
                    continue
                typ, c = self.ex(v, env)
                if typ == "utriple":
                    out += [("value", "(fst (fst %s))" % c), ("info", "(snd (fst %s))" % c), ("ufac", "(snd %s)" % c)]
                elif typ == "apair":
                    out += [("value", "(fst %s)" % c), ("info", "(snd %s)" % c)]
                elif typ == "srec":
                    out += [("req", "(fst (fst (fst %s)))" % c), ("spec", "(snd (fst (fst %s)))" % c), ("name0", "0"),
                            ("value", "(snd (fst %s))" % c), ("info", "(snd %s)" % c)]
                elif typ == "hrec":
                    out += [("req", "(fst (fst %s))" % c), ("name0", "0"), ("value", "(snd (fst %s))" % c),
                            ("info", "(snd %s)" % c)]
                else:
                    _fail(a, "*x of a %s" % typ)
            elif isinstance(a, ast.Name) and a.id in env.empty:
                out.append(("name0", "0"))
            else:
                out.append(self.ex(a, env))
        return out

    def record(self, call, env):
        if not (isinstance(call, ast.Call) and isinstance(call.func, ast.Name) and call.func.id in CTORS
                and not call.keywords and call.args and isinstance(call.args[0], ast.Name) and call.args[0].id == "self"):
            _fail(call, "expected <Kind>Registration(self, ...)")
        kind = CTORS[call.func.id]
        a = self.expand_args(call.args[1:], env)
        ts = [x[0] for x in a]
        cs = [x[1] for x in a]

        def is_(i, *ok):
            return ts[i] in ok
        if kind == "U" and len(a) == 5 and is_(0, "spec") and is_(1, "name", "str0") and is_(2, "value") \
                and is_(3, "info", "str0") and is_(4, "ufac", "ofactory", "factory", "none"):
            f = cs[4]
            if ts[4] == "ofactory":
                f = "(option_map fst %s)" % f
            elif ts[4] == "factory":
                f = "(Some (fst %s))" % f
            return "RU %s %s %s %s %s" % (cs[0], cs[1], cs[2], cs[3], f)
        if kind == "A" and len(a) == 5 and is_(0, "req") and is_(1, "spec") and is_(2, "name", "str0") \
                and is_(3, "value") and is_(4, "info", "str0"):
            return "RA %s %s %s %s %s" % tuple(cs)
        if kind == "S" and len(a) == 5 and is_(0, "req") and is_(1, "spec") and is_(2, "name0", "str0") \
                and is_(3, "value", "ovalue", "none") and is_(4, "info", "str0"):
            return "RS %s %s %s %s" % (cs[0], cs[1], _opt(ts[3], cs[3]), cs[4])
        if kind == "H" and len(a) == 4 and is_(0, "req") and is_(1, "name0", "str0") \
                and is_(2, "value", "ovalue", "none") and is_(3, "info", "str0"):
            return "RH %s %s %s" % (cs[0], _opt(ts[2], cs[2]), cs[3])
        _fail(call, "unsupported registration record %s%r" % (kind, ts))

    # ---- statements
    def bind(self, env, name, typ, expr, k):
        e2 = env.copy()
        x = e2.fresh(name + "_")
        e2.vars[name] = Var(typ, x)
        e2.empty.discard(name)
        return "let %s := %s in\n  %s" % (x, expr, k(e2))

    def key(self, node, env, store):
        field, eqb, types, _ot = STORES[store]
        typ, parts = self.ex(node, env)
        if typ != "tuple" or [x[0] for x in parts] != types:
            _fail(node, "key of %s is not %r" % (store, types))
        return "(" + ", ".join(x[1] for x in parts) + ")"

    def assign(self, s, env, texc, k):
        if len(s.targets) != 1:
            _fail(s, "chained assignment")
        t, v = s.targets[0], s.value
        if isinstance(t, ast.Name):
            # oracles
            if isinstance(v, ast.Call) and isinstance(v.func, ast.Name) and not v.keywords:
                fn = v.func.id
                if fn in ("_getUtilityProvided", "_getAdapterProvided") and len(v.args) == 1:
                    oracle = "getUtilityProvided" if fn == "_getUtilityProvided" else "getAdapterProvided"

                    def after(e, c):
                        e2 = e.copy()
                        x = e2.fresh(t.id + "_")
                        e2.vars[t.id] = Var("spec", x)
                        return ("match %s %s with\n  | None => %s\n  | Some %s => %s\n  end"
                                % (oracle, c, self.on_typeerror(e), x, k(e2)))
                    return self.want(v.args[0], env, "value", after)
                if fn == "_getName" and len(v.args) == 1:
                    return self.want(v.args[0], env, "value",
                                     lambda e, c: self.bind(e, t.id, "name", "getName %s" % c, k))
                if fn == "_getAdapterRequired" and len(v.args) == 2:
                    (tf, cf), (tr, cr) = self.ex(v.args[0], env), self.ex(v.args[1], env)
                    if tf not in ("value", "ovalue") or tr not in ("oreq", "reqo"):
                        _fail(v, "_getAdapterRequired(%s, %s)" % (tf, tr))
                    e2 = env.copy()
                    x = e2.fresh(t.id + "_")
                    e2.vars[t.id] = Var("req", x)
                    return ("match getAdapterRequired %s %s with\n  | None => %s\n  | Some %s => %s\n  end"
                            % (_opt(tf, cf), _opt("oreq", cr) if tr == "oreq" else "(Some %s)" % cr,
                               self.on_typeerror(env), x, k(e2)))
            # d.get(key)
            if (isinstance(v, ast.Call) and isinstance(v.func, ast.Attribute) and v.func.attr == "get"
                    and _is_self_attr(v.func.value) and v.func.value.attr in STORES and len(v.args) == 1
                    and not v.keywords):
                store = v.func.value.attr
                field, eqb, _types, otyp = STORES[store]
                key = self.key(v.args[0], env, store)
                e2 = env.copy()
                e2.got.add((store, key))
                return self.bind(e2, t.id, otyp, "aget %s %s %s" % (eqb, self.get(field), key), k)
            # list comprehension over a registration list
            if isinstance(v, ast.ListComp):
                return self.bind(env, t.id, *self.listcomp(v, env), k=k)
            typ, c = self.ex(v, env)
            if typ in ("value", "spec", "name", "info", "nat", "bool"):
                return self.bind(env, t.id, typ, c, k)
            _fail(s, "unsupported assignment of a %s" % typ)
        if isinstance(t, ast.Subscript) and _is_self_attr(t.value) and t.value.attr == "_adapter_registrations":
            key = self.key(t.slice, env, "_adapter_registrations")
            typ, parts = self.ex(v, env)
            if typ != "tuple" or [x[0] for x in parts] not in (["value", "info"], ["value", "str0"]):
                _fail(v, "value of _adapter_registrations is not (factory, info)")
            return self.put("areg", "aset akey_eqb %s %s (%s, %s)" % (self.get("areg"), key, parts[0][1], parts[1][1])) + k(env)
        if (isinstance(t, ast.Subscript) and _is_self_attr(t.value) and isinstance(t.slice, ast.Slice)
                and t.slice.lower is None and t.slice.upper is None and t.slice.step is None
                and t.value.attr in ("_subscription_registrations", "_handler_registrations")):
            typ, c = self.ex(v, env)
            want, field = ("slist", "sreg") if t.value.attr == "_subscription_registrations" else ("hlist", "hreg")
            if typ != want:
                _fail(s, "a %s stored into %s" % (typ, t.value.attr))
            return self.put(field, c) + k(env)
        _fail(s, "unsupported assignment")

    def listcomp(self, lc, env):
        g = lc.generators
        if len(g) != 1 or g[0].is_async or len(g[0].ifs) != 1:
            _fail(lc, "unsupported comprehension")
        typ, src = self.ex(g[0].iter, env)
        tgt = g[0].target
        names = [e.id for e in tgt.elts] if isinstance(tgt, ast.Tuple) and all(isinstance(e, ast.Name) for e in tgt.elts) else None
        shape = {"slist": ["req", "spec", "name0", "value", "info"], "hlist": ["req", "name0", "value", "info"]}.get(typ)
        if shape is None or names is None or len(names) != len(shape) or len(set(names)) != len(names):
            _fail(lc, "comprehension over %s with an unexpected target" % typ)
        if not (isinstance(lc.elt, ast.Tuple) and all(isinstance(e, ast.Name) for e in lc.elt.elts)
                and [e.id for e in lc.elt.elts] == names):
            _fail(lc, "comprehension element is not the loop target")
        e2 = env.copy()
        pat = []
        for n, t in zip(names, shape):
            if n in e2.vars or n in e2.aliases:
                _fail(lc, "comprehension variable shadows %s" % n)
            if t == "name0":
                e2.vars[n] = Var("name", "0")
            else:
                e2.vars[n] = Var(t, n)
                pat.append(n)
        c = self.boolean(g[0].ifs[0], e2)
        return typ, "filter (fun e_ => let '(%s) := e_ in %s) %s" % (", ".join(pat), c, src)

    def delete(self, s, env, texc, k):
        if len(s.targets) != 1:
            _fail(s, "multiple del targets")
        t = s.targets[0]
        if isinstance(t, ast.Subscript) and _is_self_attr(t.value) and t.value.attr == "_adapter_registrations":
            key = self.key(t.slice, env, "_adapter_registrations")
            if ("_adapter_registrations", key) not in env.got:
                _fail(s, "del d[k] without a preceding d.get(k)")
            return self.put("areg", "adel akey_eqb %s %s" % (self.get("areg"), key)) + k(env)
        _fail(s, "unsupported del")

    def call_stmt(self, call, env, texc, k):
        f = call.func
        if call.keywords:
            _fail(call, "keyword arguments")
        # notify(Registered(X)) / notify(Unregistered(X))
        if isinstance(f, ast.Name) and f.id == "notify" and len(call.args) == 1:
            ev = call.args[0]
            if not (isinstance(ev, ast.Call) and isinstance(ev.func, ast.Name) and ev.func.id in ("Registered", "Unregistered")
                    and len(ev.args) == 1 and not ev.keywords):
                _fail(call, "notify() of something that is not Registered(...) / Unregistered(...)")
            loose = self.loose_options(ast.Tuple(elts=[a for a in ev.args[0].args
                                                      if isinstance(a, ast.Name) and a.id in env.vars
                                                      and env.vars[a.id].typ == "ospec"], ctx=ast.Load()), env)
            return self.definite(loose, env, lambda e: "let evs := evs ++ [%s (%s)] in\n  %s"
                                 % (ev.func.id, self.record(ev.args[0], e), k(e)))
        # self.unregisterUtility(component, provided, name)
        if _is_self_attr(f, "unregisterUtility") and len(call.args) == 3:
            (tc, cc), (tp, cp), (tn, cn) = [self.ex(a, env) for a in call.args]
            if tc not in ("value", "ovalue") or tp not in ("spec", "ospec") or tn not in ("name", "str0"):
                _fail(call, "self.unregisterUtility(%s, %s, %s)" % (tc, tp, tn))
            return ("let '(st1_, r1_, evs1_) := g_unregisterUtility st %s %s %s None in\n  "
                    "if is_exc r1_ then (st1_, r1_, evs ++ evs1_) else\n  let st := st1_ in\n  let evs := evs ++ evs1_ in\n  %s"
                    % (_opt(tc, cc), _opt(tp, cp), cn, k(env)))
        # self._utility_registrations_cache.<method>(...)
        if isinstance(f, ast.Attribute) and _is_self_attr(f.value, "_utility_registrations_cache"):
            state = "(c_utils st) (c_ureg st) (c_cache st)"
            store = "let st := with_cache (with_ureg (with_utils st u_) r_) c_ in\n  "
            if f.attr == "registerUtility" and len(call.args) == 5:
                def after(e, cs):
                    tf, cf = self.ex(call.args[4], e)
                    if tf not in ("ofactory", "factory", "ufac", "none"):
                        _fail(call, "factory argument of type %s" % tf)
                    fac = ("(option_map fst %s)" % cf if tf == "ofactory" else
                           "(Some (fst %s))" % cf if tf == "factory" else cf)
                    return ("let '(u_, r_, c_) := g_ur_registerUtility %s %s %s %s %s %s in\n  %s%s"
                            % (state, cs[0], cs[1], cs[2], cs[3], fac, store, k(e)))
                return self.wants(call.args[:4], ["spec", "name", "value", "info"], env, after)
            if f.attr == "unregisterUtility" and len(call.args) == 3:
                def after(e, cs):
                    return ("let '(u_, r_, c_, ok_) := g_ur_unregisterUtility %s %s %s %s in\n  %s"
                            "if negb ok_ then %s else\n  %s" % (state, cs[0], cs[1], cs[2], store, self.on_typeerror(e), k(e)))
                return self.wants(call.args, ["spec", "name", "value"], env, after)
        # self.adapters.<method>(...)
        if isinstance(f, ast.Attribute) and _is_self_attr(f.value, "adapters"):
            a = call.args
            if f.attr == "register" and len(a) == 4:
                return self.wants(a, ["req", "spec", "name", "value"], env, lambda e, cs: self.put(
                    "adapters", "register W %s (map Some %s) %s %s (Some %s)" % (self.get("adapters"), cs[0], cs[1], cs[2], cs[3])) + k(e))
            if f.attr == "unregister" and len(a) == 3:
                return self.wants(a, ["req", "spec", "name"], env, lambda e, cs: self.put(
                    "adapters", "unregister W %s (map Some %s) %s %s None" % (self.get("adapters"), cs[0], cs[1], cs[2])) + k(e))
            if f.attr in ("subscribe", "unsubscribe") and len(a) == 3:
                def after(e, cs):
                    prov = "None" if _is_none(a[1]) else "(Some %s)" % self.want(a[1], e, "spec", lambda _e, c: c)
                    tf, cf = self.ex(a[2], e)
                    if f.attr == "subscribe":
                        if tf != "value":
                            _fail(call, "subscribe(..., %s)" % tf)
                        return self.put("adapters", "subscribe W %s (map Some %s) %s %s" % (self.get("adapters"), cs[0], prov, cf)) + k(e)
                    if tf not in ("value", "ovalue"):
                        _fail(call, "unsubscribe(..., %s)" % tf)
                    return self.put("adapters", "unsubscribe W %s (map Some %s) %s %s" % (self.get("adapters"), cs[0], prov, _opt(tf, cf))) + k(e)
                if not _is_none(a[1]):
                    t1, _c1 = self.ex(a[1], env)
                    if t1 != "spec":
                        _fail(call, "provided of type %s" % t1)
                return self.wants(a[:1], ["req"], env, after)
        # self._<list>.append(tuple)
        if (isinstance(f, ast.Attribute) and f.attr == "append" and _is_self_attr(f.value) and len(call.args) == 1
                and isinstance(call.args[0], ast.Tuple)):
            elts = call.args[0].elts
            parts = self.expand_args(elts, env)
            ts = [x[0] for x in parts]
            if f.value.attr == "_subscription_registrations" and ts in (["req", "spec", "name0", "value", "info"],):
                return self.put("sreg", "%s ++ [(%s, %s, %s, %s)]" % (self.get("sreg"), parts[0][1], parts[1][1], parts[3][1], parts[4][1])) + k(env)
            if f.value.attr == "_handler_registrations" and ts in (["req", "name0", "value", "info"],):
                return self.put("hreg", "%s ++ [(%s, %s, %s)]" % (self.get("hreg"), parts[0][1], parts[2][1], parts[3][1])) + k(env)
            _fail(call, "append of %r to %s (a name that is not known to be '' cannot be dropped)" % (ts, f.value.attr))
        _fail(call, "unsupported call statement")


PARAMS = {
    "unregisterUtility": (["self", "component", "provided", "name", "factory"],
                          {"component": None, "provided": None, "name": "", "factory": None},
                          [("component", "ovalue"), ("provided", "ospec"), ("name", "name"), ("factory", "ofactory")]),
    "registerUtility": (["self", "component", "provided", "name", "info", "event", "factory"],
                        {"component": None, "provided": None, "name": "", "info": "", "event": True, "factory": None},
                        [("component", "ovalue"), ("provided", "ospec"), ("name", "name"), ("info", "info"),
                         ("event", "bool"), ("factory", "ofactory")]),
    "registerAdapter": (["self", "factory", "required", "provided", "name", "info", "event"],
                        {"required": None, "provided": None, "name": "", "info": "", "event": True},
                        [("factory", "value"), ("required", "oreq"), ("provided", "ospec"), ("name", "name"),
                         ("info", "info"), ("event", "bool")]),
    "unregisterAdapter": (["self", "factory", "required", "provided", "name"],
                          {"factory": None, "required": None, "provided": None, "name": ""},
                          [("factory", "ovalue"), ("required", "oreq"), ("provided", "ospec"), ("name", "name")]),
    "registerSubscriptionAdapter": (["self", "factory", "required", "provided", "name", "info", "event"],
                                    {"required": None, "provided": None, "name": "", "info": "", "event": True},
                                    [("factory", "value"), ("required", "oreq"), ("provided", "ospec"), ("name", "name"),
                                     ("info", "info"), ("event", "bool")]),
    "unregisterSubscriptionAdapter": (["self", "factory", "required", "provided", "name"],
                                      {"factory": None, "required": None, "provided": None, "name": ""},
                                      [("factory", "ovalue"), ("required", "oreq"), ("provided", "ospec"), ("name", "name")]),
    "registerHandler": (["self", "factory", "required", "name", "info", "event"],
                        {"required": None, "name": "", "info": "", "event": True},
                        [("factory", "value"), ("required", "oreq"), ("name", "name"), ("info", "info"), ("event", "bool")]),
    "unregisterHandler": (["self", "factory", "required", "name"],
                          {"factory": None, "required": None, "name": ""},
                          [("factory", "ovalue"), ("required", "oreq"), ("name", "name")]),
}
COQTYPE = {"value": "value", "ovalue": "option value", "spec": "spec", "ospec": "option spec", "name": "Adapter.name",
           "info": "Components.info", "bool": "bool", "ofactory": "option (nat * value)", "oreq": "option (list (option spec))"}
ORDER = ["unregisterUtility", "registerUtility", "registerAdapter", "unregisterAdapter", "registerSubscriptionAdapter",
         "unregisterSubscriptionAdapter", "registerHandler", "unregisterHandler"]

LISTINGS = {
    "registeredUtilities": ("_utility_registrations", True, "ureg"),
    "registeredAdapters": ("_adapter_registrations", True, "areg"),
    "registeredSubscriptionAdapters": ("_subscription_registrations", False, "sreg"),
    "registeredHandlers": ("_handler_registrations", False, "hreg"),
}


def translate_listing(fn, comp):
    store, is_dict, field = LISTINGS[fn.name]
    _plain_args(fn, ["self"])
    body = _docless(fn.body)
    if not (len(body) == 1 and isinstance(body[0], ast.For) and not body[0].orelse and len(body[0].body) == 1
            and isinstance(body[0].body[0], ast.Expr) and isinstance(body[0].body[0].value, ast.Yield)):
        _fail(fn, "expected 'for ... in ...: yield <registration>'")
    loop = body[0]
    it = loop.iter
    if is_dict:
        if isinstance(it, ast.Call) and isinstance(it.func, ast.Name) and it.func.id == "iter" and len(it.args) == 1:
            it = it.args[0]
        if not (isinstance(it, ast.Call) and isinstance(it.func, ast.Attribute) and it.func.attr == "items"
                and not it.args and _is_self_attr(it.func.value, store)):
            _fail(it, "expected [iter](self.%s.items())" % store)
    elif not _is_self_attr(it, store):
        _fail(it, "expected self.%s" % store)
    env = Env()

    def names(t):
        if isinstance(t, ast.Tuple) and all(isinstance(e, ast.Name) for e in t.elts):
            return [e.id for e in t.elts]
        return None
    t = loop.target
    if field == "ureg":
        ok = isinstance(t, ast.Tuple) and len(t.elts) == 2 and names(t.elts[0]) and len(names(t.elts[0])) == 2 \
            and isinstance(t.elts[1], ast.Name)
        if not ok:
            _fail(t, "expected ((provided, name), data)")
        (p, n), d = names(t.elts[0]), t.elts[1].id
        env.vars.update({p: Var("spec", p), n: Var("name", n), d: Var("utriple", d)})
        pat = "((%s, %s), %s)" % (p, n, d)
    elif field == "areg":
        ok = isinstance(t, ast.Tuple) and len(t.elts) == 2 and names(t.elts[0]) and len(names(t.elts[0])) == 3 \
            and names(t.elts[1]) and len(names(t.elts[1])) == 2
        if not ok:
            _fail(t, "expected ((required, provided, name), (component, info))")
        (r, p, n), (c, i) = names(t.elts[0]), names(t.elts[1])
        env.vars.update({r: Var("req", r), p: Var("spec", p), n: Var("name", n), c: Var("value", c), i: Var("info", i)})
        pat = "((%s, %s, %s), (%s, %s))" % (r, p, n, c, i)
    else:
        if not isinstance(t, ast.Name):
            _fail(t, "expected a single loop variable")
        env.vars[t.id] = Var("srec" if field == "sreg" else "hrec", t.id)
        pat = t.id
    if len(set(env.vars)) != len(env.vars):
        _fail(t, "duplicate loop variables")
    rec = comp.record(loop.body[0].value.value, env)
    return ["Definition g_%s (st : cstate) : list regrec :=" % fn.name,
            "  map (fun kv_ => let '%s := kv_ in %s) (c_%s st)." % (pat, rec, field), ""]


def translate_components(cls):
    methods = {n.name: n for n in cls.body if isinstance(n, ast.FunctionDef)}
    out = []
    comp = Comp()
    for name in ORDER:
        if name not in methods:
            _fail(cls, "method %s not found in Components" % name)
        fn = methods[name]
        names, defaults, params = PARAMS[name]
        _plain_args(fn, names)
        _check_defaults(fn, defaults)
        body = comp.block(_docless(fn.body), _env(params), comp.on_typeerror)
        sig = " ".join("(%s : %s)" % (n, COQTYPE[t]) for n, t in params)
        out += ["Definition g_%s (st : cstate) %s : cstate * ret * list Components.event :=" % (name, sig),
                "  let evs : list Components.event := [] in", "  " + body + ".", ""]
    for name in LISTINGS:
        if name not in methods:
            _fail(cls, "method %s not found in Components" % name)
        out += translate_listing(methods[name], comp)
    return out


# =========================================================================== rebuildUtilityRegistryFromLocalCache

COUNTERS = ["needed_registered", "did_not_register", "needed_subscribed", "did_not_subscribe"]


def _name(n, ident=None):
    return isinstance(n, ast.Name) and (ident is None or n.id == ident)


def _attr_of(n, obj, attr):
    return isinstance(n, ast.Attribute) and _name(n.value, obj) and n.attr == attr


def _assign1(s):
    if isinstance(s, ast.Assign) and len(s.targets) == 1:
        return s.targets[0], s.value
    return None, None


def translate_rebuild(fn):
    """The emergency repair method.  Accepted shape (anything else is refused):
         regs = dict(self._utility_registrations); utils = self.utilities; four counters = 0;
         assert 'changed' not in utils.__dict__; utils.changed = lambda _: None        (suppress changed())
         if rebuild: register = utils.register; subscribe = utils.subscribe
         else:       register = subscribe = lambda *args: None
         try:   for (provided, name), (value, _, _) in regs.items(): <ifs over utils / counters>
         finally: del utils.changed; if rebuild and (<counter> or <counter>): utils.changed(utils)
         return {<the four counters>}
       The suppressed-changed protocol becomes Model.set_gen (generation restored; bumped once if the
       final changed() runs)."""
    _plain_args(fn, ["self", "rebuild"])
    _check_defaults(fn, {"rebuild": False})
    b = _docless(fn.body)
    if len(b) != 11:
        _fail(fn, "unexpected number of statements in rebuildUtilityRegistryFromLocalCache")
    t, v = _assign1(b[0])
    if not (_name(t, "regs") and isinstance(v, ast.Call) and _name(v.func, "dict") and len(v.args) == 1
            and not v.keywords and _is_self_attr(v.args[0], "_utility_registrations")):
        _fail(b[0], "expected regs = dict(self._utility_registrations)")
    t, v = _assign1(b[1])
    if not (_name(t, "utils") and _is_self_attr(v, "utilities")):
        _fail(b[1], "expected utils = self.utilities")
    for s_, c in zip(b[2:6], COUNTERS):
        t, v = _assign1(s_)
        if not (_name(t, c) and _const(v, 0)):
            _fail(s_, "expected %s = 0" % c)
    a = b[6]
    if not (isinstance(a, ast.Assert) and isinstance(a.test, ast.Compare) and len(a.test.ops) == 1
            and isinstance(a.test.ops[0], ast.NotIn) and _const(a.test.left, "changed")
            and _attr_of(a.test.comparators[0], "utils", "__dict__")):
        _fail(a, "expected assert 'changed' not in utils.__dict__")
    t, v = _assign1(b[7])

    def noop_lambda(l, star):
        if not isinstance(l, ast.Lambda) or not _is_none(l.body):
            return False
        ar = l.args
        if star:
            return ar.vararg is not None and not ar.args and not ar.kwonlyargs and ar.kwarg is None
        return len(ar.args) == 1 and ar.vararg is None and not ar.kwonlyargs and ar.kwarg is None
    if not (_attr_of(t, "utils", "changed") and noop_lambda(v, False)):
        _fail(b[7], "expected utils.changed = lambda _: None")
    i = b[8]
    ok = isinstance(i, ast.If) and _name(i.test, "rebuild") and len(i.body) == 2 and len(i.orelse) == 1
    if ok:
        (t1, v1), (t2, v2) = _assign1(i.body[0]), _assign1(i.body[1])
        ok = (_name(t1, "register") and _attr_of(v1, "utils", "register")
              and _name(t2, "subscribe") and _attr_of(v2, "utils", "subscribe"))
        e = i.orelse[0]
        ok = ok and (isinstance(e, ast.Assign) and len(e.targets) == 2 and _name(e.targets[0], "register")
                     and _name(e.targets[1], "subscribe") and noop_lambda(e.value, True))
    if not ok:
        _fail(i, "expected the rebuild / no-op binding of register and subscribe")
    tr = b[9]
    if not (isinstance(tr, ast.Try) and not tr.handlers and not tr.orelse and len(tr.body) == 1
            and isinstance(tr.body[0], ast.For) and not tr.body[0].orelse and len(tr.finalbody) == 2):
        _fail(tr, "expected try: for ...: finally: ...")
    loop = tr.body[0]
    it = loop.iter
    if not (isinstance(it, ast.Call) and not it.args and not it.keywords and isinstance(it.func, ast.Attribute)
            and it.func.attr == "items" and _name(it.func.value, "regs")):
        _fail(it, "expected regs.items()")
    tg = loop.target
    ok = (isinstance(tg, ast.Tuple) and len(tg.elts) == 2 and isinstance(tg.elts[0], ast.Tuple)
          and isinstance(tg.elts[1], ast.Tuple) and len(tg.elts[0].elts) == 2 and len(tg.elts[1].elts) == 3
          and all(isinstance(e, ast.Name) for e in tg.elts[0].elts + tg.elts[1].elts))
    if not ok:
        _fail(tg, "expected (provided, name), (value, _info, _factory)")
    pv, nm = [e.id for e in tg.elts[0].elts]
    val, x1, x2 = [e.id for e in tg.elts[1].elts]
    if len({pv, nm, val, x1, x2} | set(COUNTERS) | {"utils", "register", "subscribe", "regs"}) != 13:
        _fail(tg, "loop variables clash")
    fin = tr.finalbody
    d = fin[0]
    if not (isinstance(d, ast.Delete) and len(d.targets) == 1 and _attr_of(d.targets[0], "utils", "changed")):
        _fail(d, "expected del utils.changed")
    f2 = fin[1]
    ok = (isinstance(f2, ast.If) and not f2.orelse and len(f2.body) == 1 and isinstance(f2.test, ast.BoolOp)
          and isinstance(f2.test.op, ast.And) and len(f2.test.values) == 2 and _name(f2.test.values[0], "rebuild")
          and isinstance(f2.test.values[1], ast.BoolOp) and isinstance(f2.test.values[1].op, ast.Or)
          and all(_name(x) and x.id in COUNTERS for x in f2.test.values[1].values))
    if ok:
        c_ = f2.body[0]
        ok = (isinstance(c_, ast.Expr) and isinstance(c_.value, ast.Call) and _attr_of(c_.value.func, "utils", "changed")
              and len(c_.value.args) == 1 and _name(c_.value.args[0], "utils") and not c_.value.keywords)
    if not ok:
        _fail(f2, "expected if rebuild and (<counter> or <counter>): utils.changed(utils)")
    final_cond = " || ".join("negb (Nat.eqb %s 0)" % x.id for x in f2.test.values[1].values)
    r = b[10]
    ok = (isinstance(r, ast.Return) and isinstance(r.value, ast.Dict) and len(r.value.keys) == 4
          and all(_const(k, c) and _name(v_, c) for k, v_, c in zip(r.value.keys, r.value.values, COUNTERS)))
    if not ok:
        _fail(r, "expected the dictionary of the four counters")

    # ---- the loop body: ifs over utils.registered / utils.subscribed, register / subscribe calls, counters
    state = "(utils, (%s))" % ", ".join(COUNTERS)

    def args_after_unit(call, n):
        if call.keywords or len(call.args) != n or not _empty_tuple(call.args[0]):
            _fail(call, "expected a call with () as first argument and %d arguments" % n)
        for a_ in call.args[1:]:
            if not (_name(a_) and a_.id in (pv, nm, val)):
                _fail(a_, "expected a loop variable")
        return [a_.id for a_ in call.args[1:]]

    def test(t_):
        if not (isinstance(t_, ast.Compare) and len(t_.ops) == 1 and isinstance(t_.left, ast.Call)):
            _fail(t_, "unsupported test in the repair loop")
        c_, op, rhs = t_.left, t_.ops[0], t_.comparators[0]
        if _attr_of(c_.func, "utils", "registered") and isinstance(op, ast.NotEq) and _name(rhs, val):
            a_ = args_after_unit(c_, 3)
            if a_ != [pv, nm]:
                _fail(c_, "expected utils.registered((), provided, name)")
            return ("match registered utils [] %s %s with Some v_ => negb (v_eq v_ %s) | None => true end" % (pv, nm, val))
        if _attr_of(c_.func, "utils", "subscribed") and isinstance(op, ast.Is) and _is_none(rhs):
            a_ = args_after_unit(c_, 3)
            if a_ != [pv, val]:
                _fail(c_, "expected utils.subscribed((), provided, value)")
            return "negb (subscribed utils [] (Some %s) %s)" % (pv, val)
        _fail(t_, "unsupported test in the repair loop")

    def stmts(ss):
        out = ""
        for s_ in ss:
            if isinstance(s_, ast.AugAssign) and isinstance(s_.op, ast.Add) and _const(s_.value, 1) \
                    and _name(s_.target) and s_.target.id in COUNTERS:
                out += "let %s := S %s in " % (s_.target.id, s_.target.id)
            elif isinstance(s_, ast.Expr) and isinstance(s_.value, ast.Call) and _name(s_.value.func, "register"):
                a_ = args_after_unit(s_.value, 4)
                if a_ != [pv, nm, val]:
                    _fail(s_, "expected register((), provided, name, value)")
                out += "let utils := if rebuild then register W utils [] %s %s (Some %s) else utils in " % (pv, nm, val)
            elif isinstance(s_, ast.Expr) and isinstance(s_.value, ast.Call) and _name(s_.value.func, "subscribe"):
                a_ = args_after_unit(s_.value, 3)
                if a_ != [pv, val]:
                    _fail(s_, "expected subscribe((), provided, value)")
                out += "let utils := if rebuild then subscribe W utils [] (Some %s) %s else utils in " % (pv, val)
            else:
                _fail(s_, "unsupported statement in the repair loop")
        return out + state
    body = ""
    for s_ in loop.body:
        if not isinstance(s_, ast.If):
            _fail(s_, "expected an if statement in the repair loop")
        body += "      let '%s :=\n        if %s\n        then %s\n        else %s in\n" % (
            state, test(s_.test), stmts(s_.body), stmts(s_.orelse))
    return [
        "Definition g_rebuildUtilityRegistry (rebuild : bool) (st : cstate) : cstate * (nat * nat * nat * nat) :=",
        "  let '%s :=" % state,
        "    fold_left (fun acc_ kv_ =>",
        "      let '%s := acc_ in" % state,
        "      let '((%s, %s), (%s, %s, %s)) := kv_ in" % (pv, nm, val, x1, x2),
        body + "      %s)" % state,
        "      (c_ureg st) (c_utils st, (0, 0, 0, 0)) in",
        "  let g0_ := generation (c_utils st) in",
        "  let utils := set_gen utils (if rebuild && (%s) then S g0_ else g0_) in" % final_cond,
        "  (with_utils st utils, (%s))." % ", ".join(COUNTERS), ""]


# =========================================================================== the query methods

def _ret_call(fn, registry, method, nargs):
    """return self.<registry>.<method>(args) -> args"""
    b = _docless(fn.body)
    if len(b) != 1:
        _fail(fn, "expected a single statement")
    s_ = b[0]
    v = s_.value if isinstance(s_, (ast.Return, ast.Expr)) else None
    if isinstance(v, ast.YieldFrom):
        v = v.value
    if not (isinstance(v, ast.Call) and not v.keywords and isinstance(v.func, ast.Attribute) and v.func.attr == method
            and _is_self_attr(v.func.value, registry) and len(v.args) == nargs):
        _fail(fn, "expected self.%s.%s(...) with %d arguments" % (registry, method, nargs))
    return s_, v.args


def _names(args, expected):
    for a_, e in zip(args, expected):
        if e == "()":
            if not _empty_tuple(a_):
                _fail(a_, "expected ()")
        elif e == "None":
            if not _is_none(a_):
                _fail(a_, "expected None")
        elif not _name(a_, e):
            _fail(a_, "expected the parameter %s" % e)


def translate_queries(methods):
    out = []

    def get(name, params, defaults):
        if name not in methods:
            raise TranslationError("method %s not found in Components" % name)
        fn = methods[name]
        a = fn.args
        if a.kwarg or a.kwonlyargs or getattr(a, "posonlyargs", None) or fn.decorator_list:
            _fail(fn, "unexpected parameter kinds")
        if [x.arg for x in a.args] != params or (a.vararg.arg if a.vararg else None) != (
                "objects" if name == "handle" else None):
            _fail(fn, "unexpected parameters of %s" % name)
        _check_defaults(fn, defaults)
        return fn
    fn = get("queryUtility", ["self", "provided", "name", "default"], {"name": "", "default": None})
    s_, a = _ret_call(fn, "utilities", "lookup", 4)
    if not isinstance(s_, ast.Return):
        _fail(fn, "expected return")
    _names(a, ["()", "provided", "name", "default"])
    out += ["(* a miss returns ``default`` (None here) *)",
            "Definition g_queryUtility (utilities : list reg) (provided : spec) (name : Adapter.name) : option value :=",
            "  uncached_lookup W utilities [] provided name.", ""]
    fn = get("getUtilitiesFor", ["self", "interface"], {})
    s_, a = _ret_call(fn, "utilities", "lookupAll", 2)
    if not (isinstance(s_, ast.Expr) and isinstance(s_.value, ast.YieldFrom)):
        _fail(fn, "expected yield from")
    _names(a, ["()", "interface"])
    out += ["Definition g_getUtilitiesFor (utilities : list reg) (interface : spec) : list (Adapter.name * value) :=",
            "  uncached_lookupAll W utilities [] interface.", ""]
    fn = get("getAllUtilitiesRegisteredFor", ["self", "interface"], {})
    s_, a = _ret_call(fn, "utilities", "subscriptions", 2)
    if not isinstance(s_, ast.Return):
        _fail(fn, "expected return")
    _names(a, ["()", "interface"])
    out += ["Definition g_getAllUtilitiesRegisteredFor (utilities : list reg) (interface : spec) : list value :=",
            "  uncached_subscriptions W utilities [] (Some interface).", ""]
    fn = get("queryAdapter", ["self", "object", "interface", "name", "default"], {"name": "", "default": None})
    s_, a = _ret_call(fn, "adapters", "queryAdapter", 4)
    if not isinstance(s_, ast.Return):
        _fail(fn, "expected return")
    _names(a, ["object", "interface", "name", "default"])
    out += ["Definition g_queryAdapter (adapters : list reg) (object : spec * nat) (interface : spec) (name : Adapter.name)",
            "  : option nat := reg_queryMultiAdapter W call adapters [object] interface name.", ""]
    fn = get("queryMultiAdapter", ["self", "objects", "interface", "name", "default"], {"name": "", "default": None})
    s_, a = _ret_call(fn, "adapters", "queryMultiAdapter", 4)
    if not isinstance(s_, ast.Return):
        _fail(fn, "expected return")
    _names(a, ["objects", "interface", "name", "default"])
    out += ["Definition g_queryMultiAdapter (adapters : list reg) (objects : list (spec * nat)) (interface : spec)",
            "    (name : Adapter.name) : option nat := reg_queryMultiAdapter W call adapters objects interface name.", ""]
    fn = get("subscribers", ["self", "objects", "provided"], {})
    s_, a = _ret_call(fn, "adapters", "subscribers", 2)
    if not isinstance(s_, ast.Return):
        _fail(fn, "expected return")
    _names(a, ["objects", "provided"])
    out += ["Definition g_subscribers (adapters : list reg) (objects : list (spec * nat)) (provided : spec)",
            "  : list nat * list value := reg_subscribers W call adapters objects (Some provided).", ""]
    fn = get("handle", ["self"], {})
    s_, a = _ret_call(fn, "adapters", "subscribers", 2)
    if not isinstance(s_, ast.Expr) or isinstance(s_.value, ast.YieldFrom):
        _fail(fn, "expected a bare call")
    _names(a, ["objects", "None"])
    out += ["(* the handlers called; nothing is returned *)",
            "Definition g_handle (adapters : list reg) (objects : list (spec * nat)) : list value :=",
            "  snd (reg_subscribers W call adapters objects None).", ""]
    # getAdapters: for name, factory in self.adapters.lookupAll(list(map(providedBy, objects)), provided):
    #                  adapter = factory(*objects); if adapter is not None: yield name, adapter
    fn = get("getAdapters", ["self", "objects", "provided"], {})
    b = _docless(fn.body)
    ok = len(b) == 1 and isinstance(b[0], ast.For) and not b[0].orelse and _pair(b[0].target, "name", "factory")
    if ok:
        it = b[0].iter
        ok = (isinstance(it, ast.Call) and not it.keywords and isinstance(it.func, ast.Attribute)
              and it.func.attr == "lookupAll" and _is_self_attr(it.func.value, "adapters") and len(it.args) == 2
              and _name(it.args[1], "provided"))
        if ok:
            l_ = it.args[0]
            ok = (isinstance(l_, ast.Call) and _name(l_.func, "list") and len(l_.args) == 1
                  and isinstance(l_.args[0], ast.Call) and _name(l_.args[0].func, "map") and len(l_.args[0].args) == 2
                  and _name(l_.args[0].args[0], "providedBy") and _name(l_.args[0].args[1], "objects"))
    if ok:
        lb = b[0].body
        ok = len(lb) == 2
        if ok:
            t, v = _assign1(lb[0])
            ok = (_name(t, "adapter") and isinstance(v, ast.Call) and _name(v.func, "factory") and len(v.args) == 1
                  and isinstance(v.args[0], ast.Starred) and _name(v.args[0].value, "objects") and not v.keywords)
            i2 = lb[1]
            ok = ok and (isinstance(i2, ast.If) and not i2.orelse and len(i2.body) == 1
                         and isinstance(i2.test, ast.Compare) and len(i2.test.ops) == 1
                         and isinstance(i2.test.ops[0], ast.IsNot) and _name(i2.test.left, "adapter")
                         and _is_none(i2.test.comparators[0]) and isinstance(i2.body[0], ast.Expr)
                         and isinstance(i2.body[0].value, ast.Yield) and _pair(i2.body[0].value.value, "name", "adapter"))
    if not ok:
        _fail(fn, "unexpected shape of getAdapters")
    out += ["Definition g_getAdapters (adapters : list reg) (objects : list (spec * nat)) (provided : spec)",
            "  : list (Adapter.name * nat) :=",
            "  flat_map (fun nf_ => let '(name, factory) := nf_ in",
            "                       match call factory (map snd objects) with",
            "                       | Some adapter => [(name, adapter)]",
            "                       | None => []",
            "                       end)",
            "           (uncached_lookupAll W adapters (map fst objects) provided).", ""]
    return out



def _classes(module):
    return {n.name: n for n in module.body if isinstance(n, ast.ClassDef)}


HEADER = """(* GENERATED by harness/translate/components.py from %s -- do not edit.
   Regenerated on every run; Proofs/ComponentsKernel.v and Properties/C16.v
   (C16_generated_*_eq_model) are re-checked against it. *)
From Coq Require Import List Arith Bool.
Import ListNotations.
From ZI Require Import Model.Ro Model.Adapter Model.Components.

(* ---- class _UnhashableComponentCounter (self._data : list (component * count)) *)
"""

SECTION = """Section Kernel.
  Variable W : world.
  Variable hashable : value -> bool.
  (* inference helpers of registry.py that are not translated: oracles; None = TypeError *)
  Variable getUtilityProvided : value -> option spec.
  Variable getName : value -> name.
  Variable getAdapterProvided : value -> option spec.
  Variable getAdapterRequired : option value -> option (list (option spec)) -> option (list spec).
  (* what a factory / subscriber returns when called on objects (None = None) *)
  Variable call : value -> list nat -> option nat.

"""


def translate_source(text, origin="registry.py"):
    module = ast.parse(text)
    cl = _classes(module)
    for c in ("_UnhashableComponentCounter", "_UtilityRegistrations", "Components"):
        if c not in cl:
            raise TranslationError("class %s not found" % c)
        if sum(1 for n in ast.walk(module) if isinstance(n, ast.ClassDef) and n.name == c) != 1:
            raise TranslationError("class %s defined more than once" % c)
    for c in cl.values():
        seen = set()
        for n in c.body:
            if isinstance(n, ast.FunctionDef):
                if n.name in seen:
                    _fail(n, "method defined twice")
                seen.add(n.name)
    # nobody may rebind the names the translation relies on
    for n in ast.walk(module):
        if isinstance(n, ast.Name) and not isinstance(n.ctx, ast.Load) and n.id in (
                "_UnhashableComponentCounter", "_UtilityRegistrations", "Registered", "Unregistered",
                "_getName", "_getUtilityProvided", "_getAdapterProvided", "_getAdapterRequired") + tuple(CTORS):
            _fail(n, "%s is rebound" % n.id)
    lines = [HEADER % origin]
    lines += translate_counter(cl["_UnhashableComponentCounter"])
    lines.append(SECTION)
    lines.append("  (* ---- class _UtilityRegistrations (self._utilities, self._utility_registrations, self._cache) *)")
    lines += ["  " + l if l else l for l in translate_utility_registrations(cl["_UtilityRegistrations"])]
    lines.append("  (* ---- class Components *)")
    lines += ["  " + l if l else l for l in translate_components(cl["Components"])]
    cm = {n.name: n for n in cl["Components"].body if isinstance(n, ast.FunctionDef)}
    if "rebuildUtilityRegistryFromLocalCache" not in cm:
        raise TranslationError("method rebuildUtilityRegistryFromLocalCache not found")
    lines.append("  (* ---- Components.rebuildUtilityRegistryFromLocalCache *)")
    lines += ["  " + l if l else l for l in translate_rebuild(cm["rebuildUtilityRegistryFromLocalCache"])]
    lines.append("  (* ---- the query methods, over the registries of the object's base chain; objects are")
    lines.append("     (provided-by specification, object number) *)")
    lines += ["  " + l if l else l for l in translate_queries(cm)]
    lines.append("End Kernel.")
    lines.append("")
    return "\n".join(lines)


def translate_file(path):
    with open(path) as fh:
        return translate_source(fh.read(), origin=path)


def pinned():
    with open(PINNED) as fh:
        return translate_source(fh.read(), origin="<pinned copy harness/translate/components_pinned_registry.txt>")


if __name__ == "__main__":
    import sys
    print(translate_file(sys.argv[1]))
