"""Fail-closed translator: the attribute / tagged-value / invariant accessors of
src/zope/interface/interface.py  ->  coq/Gen/AttrsKernel.v   (property C15).

Translated (class.method):
  Specification.get                      memo handling + walk over an order with ``direct``
  Specification.changed                  only what it does to the memo and that every dependent is told
  InterfaceClass.__compute_attrs (shape check: the direct table is a new dict, assigned once by __init__)
  InterfaceClass.direct / names / __iter__ / namesAndDescriptions / getDescriptionFor (= __getitem__) /
                 __contains__ / queryDescriptionFor / validateInvariants / queryTaggedValue /
                 getTaggedValue / getTaggedValueTags
  Element.queryTaggedValue / getTaggedValue / getTaggedValueTags / setTaggedValue and the three
                 ``...Direct...`` aliases (shape check only: they ARE the vocabulary
                 query_direct_tag / direct_tags / set_tag of Model/Attrs.v)

How: every method is parsed with ``ast``; its signature is checked; its body (docstring dropped)
is normalised with ``ast.unparse`` and must match, as a whole, one statement template.  A template
is the literal normalised source with a few named holes (loop variable names; WHICH order is
walked: ``__iro__`` or ``__bases__``, reversed or not; the sentinel used by queryTaggedValue; the
initial key set; a recursive or non-recursive listing) -- the holes are what the emitted Gallina
depends on.  Anything that does not match raises TranslationError: comments and layout are free,
everything else (an extra statement, a renamed helper, an if/else instead of a conditional
expression ...) is refused.

Gallina vocabulary (Model/Attrs.v): world, state, st_iro, st_graph, st_memo, set_memo, w_attrs, bases,
dget, dset, dupdate, dict_of, dkeys, kupdate, direct_tags, query_direct_tag, invs_of, run_invs, tval.
"""
import ast
import re


class TranslationError(Exception):
    pass


IDENT = r"[A-Za-z_][A-Za-z_0-9]*"


def _template(text):
    """literal normalised source with holes  <<name>> (an identifier, later uses must repeat it),
    <<name:regex>> (captured by the given regex)  ->  compiled regex for re.fullmatch"""
    out = []
    seen = set()
    pos = 0
    for m in re.finditer(r"<<(\w+)(?::(.*?))?>>", text):
        out.append(re.escape(text[pos:m.start()]))
        name, rx = m.group(1), m.group(2)
        if name in seen:
            out.append("(?P=%s)" % name)
        else:
            seen.add(name)
            out.append("(?P<%s>%s)" % (name, rx if rx is not None else IDENT))
        pos = m.end()
    out.append(re.escape(text[pos:]))
    return re.compile("".join(out), re.S)


def _body_text(fn):
    body = list(fn.body)
    if body and isinstance(body[0], ast.Expr) and isinstance(body[0].value, ast.Constant) \
            and isinstance(body[0].value.value, str):
        body = body[1:]
    if not body:
        raise TranslationError("%s has an empty body" % fn.name)
    return "\n".join(ast.unparse(s) for s in body)


def _find_class(tree, name):
    found = [n for n in tree.body if isinstance(n, ast.ClassDef) and n.name == name]
    if len(found) != 1:
        raise TranslationError("class %s: found %d definitions" % (name, len(found)))
    return found[0]


def _find_method(cls, name, signature):
    found = [n for n in cls.body if isinstance(n, (ast.FunctionDef, ast.AsyncFunctionDef)) and n.name == name]
    if len(found) != 1 or not isinstance(found[0], ast.FunctionDef):
        raise TranslationError("%s.%s: found %d definitions" % (cls.name, name, len(found)))
    fn = found[0]
    if fn.decorator_list:
        raise TranslationError("%s.%s is decorated" % (cls.name, name))
    if ast.unparse(fn.args) != signature:
        raise TranslationError("%s.%s has signature (%s), expected (%s)" % (cls.name, name, ast.unparse(fn.args), signature))
    return fn


def _find_method_any(cls, name):
    found = [n for n in cls.body if isinstance(n, ast.FunctionDef) and n.name == name]
    if len(found) != 1:
        raise TranslationError("%s.%s: found %d definitions" % (cls.name, name, len(found)))
    return found[0]


def _match(cls, name, signature, template):
    fn = _find_method(cls, name, signature)
    text = _body_text(fn)
    m = _template(template).fullmatch(text)
    if m is None:
        raise TranslationError("%s.%s (line %d) no longer has the translatable shape; normalised body:\n%s"
                               % (cls.name, name, fn.lineno, text))
    return m.groupdict()


def _alias(cls, target, value):
    found = [n for n in cls.body if isinstance(n, ast.Assign) and len(n.targets) == 1
             and isinstance(n.targets[0], ast.Name) and n.targets[0].id == target]
    if len(found) != 1 or ast.unparse(found[0].value) != value:
        raise TranslationError("%s: expected the class-level alias %s = %s" % (cls.name, target, value))
    # and nobody else defines it
    if any(isinstance(n, ast.FunctionDef) and n.name == target for n in cls.body):
        raise TranslationError("%s.%s is also defined as a method" % (cls.name, target))


ORDER = r"self\.__(?:iro|bases)__(?:\[::-1\])?"


def _order(expr, graph="st_graph s"):
    """self.__iro__ / self.__bases__ [ [::-1] ]  ->  Gallina list of nodes"""
    m = re.fullmatch(r"self\.__(iro|bases)__(\[::-1\])?", expr)
    if m is None:
        raise TranslationError("unknown order expression %r" % expr)
    base = "st_iro s x" if m.group(1) == "iro" else "bases (%s) x" % graph
    return "rev (%s)" % base if m.group(2) else base


# ----------------------------------------------------------------------------- templates
T_GET = """\
<<attrs>> = self._v_attrs
if <<attrs>> is None:
    <<attrs>> = self._v_attrs = {}
<<attr>> = <<attrs>>.get(name)
if <<attr>> is None:
    for <<iface>> in <<order:%s>>:
        <<attr>> = <<iface>>.direct(name)
        if <<attr>> is not None:
            <<attrs>>[name] = <<attr>>
            break
return default if <<attr>> is None else <<attr>>""" % ORDER

T_CHANGED = """\
self._v_attrs = None
implied = self._implied
implied.clear()
ancestors = self._calculate_sro()
self.__sro__ = tuple(ancestors)
self.__iro__ = tuple([<<a>> for <<a>> in ancestors if isinstance(<<a>>, InterfaceClass)])
for <<b>> in ancestors:
    implied[<<b>>] = ()
for <<d>> in tuple(self._dependents.keys() if self._dependents else ()):
    <<d>>.changed(originally_changed)
self._v_attrs = None"""

T_DIRECT = "return self.__attrs.get(name)"

T_NAMES = """\
if not all:
    return self.__attrs.keys()
<<r>> = self.__attrs.copy()
for <<base>> in <<order:self\\.__bases__(?:\\[::-1\\])?>>:
    <<r>>.update(dict.fromkeys(<<base>>.names(all)))
return <<r>>.keys()"""

T_ITER = "return iter(self.names(all=True))"

T_NAD = """\
if not all:
    return self.__attrs.items()
<<r>> = {}
for <<iface>> in <<order:%s>>:
    <<r>>.update(dict(<<iface>>.namesAndDescriptions(<<rec:(?:all)?>>)))<<own:(?:\\n%s\\.update\\(self\\.__attrs\\))?>>
return <<r>>.items()""" % (ORDER, IDENT)

T_GETDESC = """\
<<r>> = self.get(name)
if <<r>> is not None:
    return <<r>>
raise KeyError(name)"""

T_CONTAINS = "return self.get(name) is not None"

T_QUERYDESC = "return self.get(name, default)"

T_VALIDATE = """\
for <<iface>> in <<order:%s>>:
    for <<inv>> in <<iface>>.queryDirectTaggedValue('invariants', ()):
        try:
            <<inv>>(obj)
        except Invalid as <<e>>:
            if errors is not None:
                errors.append(<<e>>)
            else:
                raise
if errors:
    raise Invalid(errors)""" % ORDER

T_QUERYTAG = """\
for <<iface>> in <<order:%s>>:
    <<value>> = <<iface>>.queryDirectTaggedValue(tag<<dflt:(?:, _marker)?>>)
    if <<value>> is not <<test:_marker|None>>:
        return <<value>>
return default""" % ORDER

T_GETTAG = """\
<<value>> = self.queryTaggedValue(tag, default=_marker)
if <<value>> is _marker:
    raise KeyError(tag)
return <<value>>"""

T_TAGS = """\
<<keys>> = set(<<init:(?:self\\.getDirectTaggedValueTags\\(\\))?>>)
for <<base>> in <<order:%s>>:
    <<keys>>.update(<<base>>.getDirectTaggedValueTags())
return <<keys>>""" % ORDER

# the direct table is a NEW dict built once at creation (not the caller's dict), holding only
# descriptions; the ignored keys may change with the Python version
T_COMPUTE = """\
def update_value(aname, aval):
    if isinstance(aval, Attribute):
        aval.interface = self
        if not aval.__name__:
            aval.__name__ = aname
    elif isinstance(aval, FunctionType):
        aval = fromFunction(aval, self, name=aname)
    else:
        raise InvalidInterface('Concrete attribute, ' + aname)
    return aval
return {aname: update_value(aname, aval) for aname, aval in attrs.items() if aname not in (<<skip:[^()]*>>) and aval is not _decorator_non_return}"""

E_QUERY = "return self.__tagged_values.get(tag, default) if self.__tagged_values else default"
E_GET = """\
if not self.__tagged_values:
    raise KeyError(tag)
return self.__tagged_values[tag]"""
E_TAGS = "return self.__tagged_values.keys() if self.__tagged_values else ()"
E_SET = """\
if self.__tagged_values is None:
    self.__tagged_values = {}
self.__tagged_values[tag] = value"""


HEADER = """\
(* GENERATED on every run by harness/translate/attrs.py from
   src/zope/interface/interface.py -- do not edit.
   Vocabulary: Model/Attrs.v.  [x] is self, [s] the state, [w] the immutable direct tables. *)
From Coq Require Import List Arith Bool.
Import ListNotations.
From ZI Require Import Model.Ro Model.Attrs.

(* for v in order: r = f(v); if r is <found>: (return / break with) r *)
Fixpoint loop_first {A B} (f : A -> option B) (l : list A) : option B :=
  match l with
  | [] => None
  | a :: r => match f a with Some b => Some b | None => loop_first f r end
  end.

(* a lookup whose default is None, tested with `is not None`: the value None counts as absent *)
Definition default_none (o : option tval) : option tval :=
  match o with Some TNone => None | _ => o end.
"""


def translate_tree(tree):
    spec = _find_class(tree, "Specification")
    icls = _find_class(tree, "InterfaceClass")
    elem = _find_class(tree, "Element")
    out = [HEADER]

    # ---- Element: shape check only
    _match(elem, "queryTaggedValue", "self, tag, default=None", E_QUERY)
    _match(elem, "getTaggedValue", "self, tag", E_GET)
    _match(elem, "getTaggedValueTags", "self", E_TAGS)
    _match(elem, "setTaggedValue", "self, tag, value", E_SET)
    _alias(elem, "queryDirectTaggedValue", "queryTaggedValue")
    _alias(elem, "getDirectTaggedValue", "getTaggedValue")
    _alias(elem, "getDirectTaggedValueTags", "getTaggedValueTags")
    for nm in ("queryDirectTaggedValue", "getDirectTaggedValueTags", "getDirectTaggedValue", "direct", "get"):
        # InterfaceClass must not override what the walks call on each interface
        if nm != "direct" and any(isinstance(n, ast.FunctionDef) and n.name == nm for n in icls.body):
            raise TranslationError("InterfaceClass overrides %s" % nm)
        if any(isinstance(n, ast.Assign) and any(isinstance(t, ast.Name) and t.id == nm for t in n.targets)
               for n in icls.body):
            raise TranslationError("InterfaceClass rebinds %s" % nm)

    # ---- the direct table: written once, by __init__, with a fresh dict of descriptions
    _match(icls, "__compute_attrs", "self, attrs", T_COMPUTE)
    stores = [n for n in ast.walk(icls) if isinstance(n, ast.Attribute)
              and n.attr in ("__attrs", "_InterfaceClass__attrs") and isinstance(n.ctx, (ast.Store, ast.Del))]
    init = _find_method(icls, "__init__", ast.unparse(_find_method_any(icls, "__init__").args))
    own = [st for st in init.body if isinstance(st, ast.Assign)
           and ast.unparse(st) == "self.__attrs = self.__compute_attrs(attrs)"]
    if len(stores) != 1 or len(own) != 1:
        raise TranslationError("InterfaceClass.__attrs must be assigned exactly once, at the top level of __init__, "
                               "as self.__attrs = self.__compute_attrs(attrs) (found %d stores)" % len(stores))
    for n in ast.walk(icls):
        # nobody hands the table out or mutates it in place
        if isinstance(n, ast.Call) and isinstance(n.func, ast.Attribute) and isinstance(n.func.value, ast.Attribute) \
                and n.func.value.attr == "__attrs" and n.func.attr not in ("get", "keys", "items", "copy"):
            raise TranslationError("self.__attrs.%s(...) at line %d" % (n.func.attr, n.lineno))
        if isinstance(n, ast.Subscript) and isinstance(n.value, ast.Attribute) and n.value.attr == "__attrs" \
                and isinstance(n.ctx, (ast.Store, ast.Del)):
            raise TranslationError("self.__attrs[...] is written at line %d" % n.lineno)

    # ---- InterfaceClass.direct
    _match(icls, "direct", "self, name", T_DIRECT)
    out.append("Definition gen_direct (w : world) (x : node) (n : name) : option desc := dget (w_attrs w x) n.\n")

    # ---- Specification.get
    g = _match(spec, "get", "self, name, default=None", T_GET)
    out.append(
        "Definition gen_get (w : world) (s : state) (x : node) (n : name) : option desc * state :=\n"
        "  let attrs := match st_memo s x with None => [] | Some m => m end in\n"
        "  match dget attrs n with\n"
        "  | Some d => (Some d, set_memo s x (Some attrs))\n"
        "  | None =>\n"
        "      match loop_first (fun iface => gen_direct w iface n) (%s) with\n"
        "      | Some d => (Some d, set_memo s x (Some (dset attrs n d)))\n"
        "      | None => (None, set_memo s x (Some attrs))\n"
        "      end\n"
        "  end.\n" % _order(g["order"]))

    # ---- Specification.changed: per visited node, (new order, memo) ; every dependent is visited
    _match(spec, "changed", "self, originally_changed", T_CHANGED)
    out.append(
        "(* changed(): the node gets the freshly computed order and _v_attrs = None (first and last\n"
        "   statement), unconditionally, and calls changed() on every dependent *)\n"
        "Definition gen_changed_node (fresh : list node) (old : list node * option (list (name * desc)))\n"
        "  : list node * option (list (name * desc)) := (fresh, None).\n")

    # ---- names / __iter__
    g = _match(icls, "names", "self, all=False", T_NAMES)
    out.append(
        "Definition gen_names_direct (w : world) (x : node) : list name := dkeys (w_attrs w x).\n\n"
        "Fixpoint gen_names_all (w : world) (fuel : nat) (g : graph) (x : node) : list name :=\n"
        "  match fuel with\n"
        "  | 0 => gen_names_direct w x\n"
        "  | S f => fold_left (fun r base => kupdate r (gen_names_all w f g base)) (%s) (gen_names_direct w x)\n"
        "  end.\n" % _order(g["order"], "g").replace("bases (g) x", "bases g x"))
    _match(icls, "__iter__", "self", T_ITER)
    out.append("Definition gen_iter (w : world) (s : state) (x : node) : list name :=\n"
               "  gen_names_all w (w_fuel w) (st_graph s) x.\n")

    # ---- namesAndDescriptions
    g = _match(icls, "namesAndDescriptions", "self, all=False", T_NAD)
    own = bool(g["own"])
    if own and not g["own"].strip().startswith(g["r"] + ".update"):
        raise TranslationError("namesAndDescriptions updates another dict with self.__attrs")
    if g["rec"] == "":
        # every interface of the order contributes its DIRECT items
        body = "fold_left (fun r iface => dupdate r (dict_of (w_attrs w iface))) (%s) []" % _order(g["order"])
        if own:
            body = "dupdate (%s) (w_attrs w x)" % body
        out.append("Definition gen_nad_all (w : world) (s : state) (x : node) : list (name * desc) :=\n  %s.\n" % body)
    else:
        # recursive listing of every element of the order
        if "iro" in g["order"]:
            raise TranslationError("namesAndDescriptions recurses over __iro__")
        inner = "fold_left (fun r base => dupdate r (dict_of (gen_nad_rec w f g base))) (%s) []" % \
            _order(g["order"], "g").replace("bases (g) x", "bases g x")
        if own:
            inner = "dupdate (%s) (w_attrs w x)" % inner
        out.append(
            "Fixpoint gen_nad_rec (w : world) (fuel : nat) (g : graph) (x : node) : list (name * desc) :=\n"
            "  match fuel with\n  | 0 => w_attrs w x\n  | S f => %s\n  end.\n\n"
            "Definition gen_nad_all (w : world) (s : state) (x : node) : list (name * desc) :=\n"
            "  gen_nad_rec w (w_fuel w) (st_graph s) x.\n" % inner)

    # ---- getDescriptionFor / __getitem__ / __contains__ / queryDescriptionFor
    _match(icls, "getDescriptionFor", "self, name", T_GETDESC)
    _alias(icls, "__getitem__", "getDescriptionFor")
    out.append("(* None stands for KeyError *)\n"
               "Definition gen_getitem (w : world) (s : state) (x : node) (n : name) : option desc * state :=\n"
               "  gen_get w s x n.\n")
    _match(icls, "__contains__", "self, name", T_CONTAINS)
    out.append("Definition gen_contains (w : world) (s : state) (x : node) (n : name) : bool * state :=\n"
               "  let '(r, s') := gen_get w s x n in (match r with Some _ => true | None => false end, s').\n")
    _match(icls, "queryDescriptionFor", "self, name, default=None", T_QUERYDESC)
    out.append("Definition gen_query_description_for (w : world) (s : state) (x : node) (n : name)\n"
               "  : option desc * state := gen_get w s x n.\n")

    # ---- validateInvariants
    g = _match(icls, "validateInvariants", "self, obj, errors=None", T_VALIDATE)
    out.append(
        "Definition gen_validate (fails : nat -> bool) (s : state) (x : node) (errors : option (list nat)) : vres :=\n"
        "  let '(ran, errs, raised) := run_invs fails (flat_map (fun iface => invs_of s iface) (%s)) errors in\n"
        "  match raised with\n"
        "  | Some i => mkVres ran errs (VRaisedInv i)\n"
        "  | None => match errs with\n"
        "            | Some (e :: es) => mkVres ran errs (VRaisedErrors (e :: es))\n"
        "            | _ => mkVres ran errs VNoExc\n"
        "            end\n"
        "  end.\n" % _order(g["order"]))

    # ---- queryTaggedValue / getTaggedValue
    g = _match(icls, "queryTaggedValue", "self, tag, default=None", T_QUERYTAG)
    sentinel = "_marker" if g["dflt"] else "None"
    if g["test"] != sentinel:
        raise TranslationError("queryTaggedValue asks with default %s but tests against %s" % (sentinel, g["test"]))
    lookup = "query_direct_tag s iface t" if sentinel == "_marker" else "default_none (query_direct_tag s iface t)"
    out.append("(* None stands for `default` *)\n"
               "Definition gen_query_tagged (s : state) (x : node) (t : tag) : option tval :=\n"
               "  loop_first (fun iface => %s) (%s).\n" % (lookup, _order(g["order"])))
    _match(icls, "getTaggedValue", "self, tag", T_GETTAG)
    out.append("(* None stands for KeyError *)\n"
               "Definition gen_get_tagged (s : state) (x : node) (t : tag) : option tval := gen_query_tagged s x t.\n")

    # ---- getTaggedValueTags
    g = _match(icls, "getTaggedValueTags", "self", T_TAGS)
    init = "kupdate [] (direct_tags s x)" if g["init"] else "[]"
    out.append("Definition gen_tagged_tags (s : state) (x : node) : list tag :=\n"
               "  fold_left (fun keys base => kupdate keys (direct_tags s base)) (%s) (%s).\n" % (_order(g["order"]), init))
    return "\n".join(out)


def translate(source_path):
    try:
        tree = ast.parse(open(source_path).read())
    except (OSError, SyntaxError) as e:
        raise TranslationError("cannot parse %s: %r" % (source_path, e))
    return translate_tree(tree)


def stub(reason):
    """no kernel: Proofs/AttrsKernel.v cannot be checked"""
    return ("(* GENERATED by harness/translate/attrs.py: the translation ABORTED, there is no kernel.\n   %s *)\n"
            % reason.replace("*)", "* )").replace("(*", "( *")[:1500])
