"""Fail-closed extractor: the ``super`` parts of the C twins in
``_zope_interface_coptimizations.c``  ->  ``coq/Gen/SuperC.v`` (a DATA-level kernel).

    implementedBy           the PySuper_Type branch  (+ implementedByFallback: which Python function)
    providedBy              the PySuper_Type branch
    _adapter_hook           the whole function: name check, providedBy, _lookup1, the unwrapping of a
                            proxy (which attribute of which object, tested how, what is passed on)

The tokeniser, comment stripper, function finder and ``#if`` resolver are those of
harness/translate/cskeleton.py (C11).  Reference counting statements (Py_INCREF / Py_DECREF / Py_XDECREF /
Py_CLEAR) are dropped: ownership is C11's subject.  What remains of each function is matched, token by
token, against a template with named holes; the holes become the fields of the records of
coq/Model/SuperCPrims.v, whose interpreters are proved equal to Model/Super.v's c_implementedBy /
c_providedBy and Model/Lookup.v's adapter_hook (Proofs/SuperC.v).  A text that does not match a template
raises ``Abort``: the caller reports a broken obligation and writes the pinned kernel.
"""
import os
import re

from .cskeleton import Abort, find_function, strip_comments, tokenize

SOURCE = os.path.join("src", "zope", "interface", "_zope_interface_coptimizations.c")
DECL = os.path.join("src", "zope", "interface", "declarations.py")
REFCOUNT = {"Py_INCREF", "Py_XINCREF", "Py_DECREF", "Py_XDECREF", "Py_CLEAR"}

ID = r"[A-Za-z_]\w*"


def _tokens(body):
    toks = [t[1] for t in tokenize(body)]
    out, i = [], 0
    while i < len(toks):                      # drop ``Py_DECREF ( x ) ;``
        if toks[i] in REFCOUNT and toks[i + 1] == "(":
            j = i + 2
            depth = 1
            while depth:
                depth += {"(": 1, ")": -1}.get(toks[j], 0)
                j += 1
            if toks[j] != ";":
                raise Abort("reference counting call used as an expression")
            i = j + 1
            continue
        out.append(toks[i])
        i += 1
    return " ".join(out)


def _rx(template):
    """template: tokens separated by blanks, holes written <name>; -> compiled regex"""
    parts = []
    for tok in template.split():
        m = re.match(r"^<(\w+)>$", tok)
        if m:
            parts.append("(?P<%s>%s)" % (m.group(1), ID))
        elif tok == "<<attr>>":
            # PyObject_GetAttr ( o , str__x__ )   or   PyObject_GetAttrString ( o , "__x__" )
            parts.append(r"(?:PyObject_GetAttr \( (?P<attr_of>%s) , str(?P<attr1>\w+) \)"
                         r"|PyObject_GetAttrString \( (?P<attr_of2>%s) , \"(?P<attr2>\w+)\" \))" % (ID, ID))
        else:
            parts.append(re.escape(tok))
    return " ".join(parts)


HOOK = _rx("""
{ PyObject * required ; PyObject * factory ; PyObject * result ; PyObject * module ; PyObject * owned_self = NULL ;
module = _get_module ( Py_TYPE ( self ) ) ;
if ( name && ! PyUnicode_Check ( name ) ) { PyErr_SetString ( PyExc_ValueError , "name is not a string" ) ; return NULL ; }
required = <prov_fn> ( module , <prov_arg> ) ; if ( required == NULL ) return NULL ;
factory = <lookup_fn> ( self , required , provided , name , Py_None ) ; if ( factory == NULL ) return NULL ;
if ( factory != Py_None ) {
if ( PyObject_TypeCheck ( <test_arg> , & <test_type> ) ) {
owned_self = <<attr>> ; if ( owned_self == NULL ) { return NULL ; } <assigned> = owned_self ; }
result = PyObject_CallFunctionObjArgs ( factory , <call_arg> , NULL ) ;
if ( result == NULL || result != Py_None ) return result ; }
else result = factory ;
if ( default_ == NULL || default_ == result ) return result ;
return default_ ; }
""")

IMPL_BRANCH = _rx("if ( PyObject_TypeCheck ( <test_arg> , & <test_type> ) ) "
                  "{ return <callee> ( module , <pass_arg> ) ; }")

PROV_BRANCH = _rx("is_instance = PyObject_IsInstance ( <test_arg> , ( PyObject * ) & <test_type> ) ; "
                  "if ( is_instance < 0 ) { if ( ! PyErr_ExceptionMatches ( PyExc_AttributeError ) ) "
                  "{ return NULL ; } PyErr_Clear ( ) ; } "
                  "if ( is_instance ) { return <callee> ( module , <pass_arg> ) ; }")

FALLBACK_TAIL = _rx("return PyObject_CallFunctionObjArgs ( <fn> , <pass_arg> , NULL ) ; }")


def _prefix_ok(prefix, param, fname):
    """before the super branch: the argument is not touched and the only exits are error exits"""
    toks = prefix.split()
    if param in toks:
        raise Abort("%s: the argument %s is used before the super branch" % (fname, param))
    for i, t in enumerate(toks):
        if t == "return" and toks[i + 1:i + 3] != ["NULL", ";"]:
            raise Abort("%s: a non-error return precedes the super branch" % fname)
        if t in ("goto", "while", "for", "do", "switch"):
            raise Abort("%s: control flow before the super branch" % fname)


def _cstr(s):
    if not re.match(r"^[\w.]*$", s):
        raise Abort("unexpected characters in %r" % s)
    return '"%s"' % s


def extract_text(ctext, decl_text, origin="<source>"):
    text = strip_comments(ctext)

    # ---- implementedBy
    _rt, params, body, _l = find_function(text, "implementedBy")
    if [p[0] for p in params] != ["module", "cls"]:
        raise Abort("implementedBy: unexpected parameters")
    s = _tokens(body)
    m = re.search(IMPL_BRANCH, s)
    if not m:
        raise Abort("implementedBy: no `if (PyObject_TypeCheck(x, &T)) { return f(module, y); }` branch")
    _prefix_ok(s[:m.start()], "cls", "implementedBy")
    impl = m.groupdict()

    # ---- implementedByFallback: calls one object with the class; which object is it?
    _rt, params, body, _l = find_function(text, "implementedByFallback")
    if [p[0] for p in params] != ["module", "cls"]:
        raise Abort("implementedByFallback: unexpected parameters")
    s = _tokens(body)
    m = re.search(FALLBACK_TAIL + "$", s)
    if not m:
        raise Abort("implementedByFallback: does not end in `return PyObject_CallFunctionObjArgs(f, x, NULL);`")
    _prefix_ok(s[:m.start()], "cls", "implementedByFallback")
    fb = m.groupdict()
    if fb["fn"] != "fallback":
        raise Abort("implementedByFallback: calls %s, not `fallback`" % fb["fn"])
    # `fallback` is loaded from the declarations module: under which name(s)?
    names = set(re.findall(r'fallback\s*=\s*PyObject_GetAttrString\(\s*declarations\s*,\s*"(\w+)"\s*\)', text))
    if len(names) != 1:
        raise Abort("the `fallback` object is loaded under %d different names" % len(names))
    fallback_name = names.pop()
    other = [ln for ln in re.findall(r"[^\n]*\bfallback\b\s*=[^=][^\n]*", text)
             if "PyObject_GetAttrString" not in ln and "rec->fallback" not in ln and "rec -> fallback" not in ln]
    if other:
        raise Abort("`fallback` is assigned elsewhere: %s" % other[0].strip())
    # ... and that name is the Python implementation of implementedBy (_use_c_impl publishes <name>Fallback)
    if not re.search(r"^@_use_c_impl\s*\ndef implementedBy\(", decl_text, re.M):
        raise Abort("declarations.py: `@_use_c_impl def implementedBy` not found")

    # ---- providedBy
    _rt, params, body, _l = find_function(text, "providedBy")
    if [p[0] for p in params] != ["module", "ob"]:
        raise Abort("providedBy: unexpected parameters")
    s = _tokens(body)
    m = re.search(PROV_BRANCH, s)
    if not m:
        raise Abort("providedBy: no PyObject_IsInstance(x, &T) ... `if (is_instance) { return f(module, y); }` prefix")
    _prefix_ok(s[:m.start()], "ob", "providedBy")
    prov = m.groupdict()

    # ---- _adapter_hook
    _rt, params, body, _l = find_function(text, "_adapter_hook")
    if [p[0] for p in params] != ["self", "provided", "object", "name", "default_"]:
        raise Abort("_adapter_hook: unexpected parameters")
    s = _tokens(body)
    m = re.fullmatch(HOOK, s)
    if not m:
        raise Abort("_adapter_hook: the body does not have the known shape")
    hook = m.groupdict()
    attr = hook["attr1"] if hook["attr1"] is not None else hook["attr2"]
    attr_of = hook["attr_of"] if hook["attr_of"] is not None else hook["attr_of2"]
    if hook["attr1"] is not None and not re.search(r"DEFINE_STATIC_STRING\(\s*%s\s*\)" % re.escape(attr), text):
        raise Abort("_adapter_hook: str%s is not defined by DEFINE_STATIC_STRING" % attr)

    out = [
        "(* GENERATED by harness/translate/super_c.py from %s" % origin,
        "   (implementedBy / implementedByFallback / providedBy / _adapter_hook of the C extension).",
        "   Do not edit; regenerated on every run.  Proofs/SuperC.v proves the interpretation of these records",
        "   (Model/SuperCPrims.v) equal to Model/Super.v's c_implementedBy / c_providedBy and Model/Lookup.v's",
        "   adapter_hook. *)",
        "From Coq Require Import String.",
        "From ZI Require Import Model.SuperCPrims.",
        "Local Open Scope string_scope.",
        "",
        "(* implementedBy: if (PyObject_TypeCheck(%s, &%s)) return %s(module, %s); *)" % (
            impl["test_arg"], impl["test_type"], impl["callee"], impl["pass_arg"]),
        "Definition gen_c_implementedBy_branch : c_branch :=",
        "  mkCB %s %s %s %s." % tuple(_cstr(impl[k]) for k in ("test_arg", "test_type", "callee", "pass_arg")),
        "",
        "(* implementedByFallback: return PyObject_CallFunctionObjArgs(fallback, %s, NULL); fallback is" % fb["pass_arg"],
        "   declarations.%s *)" % fallback_name,
        "Definition gen_c_fallback : c_fallback := mkCF %s %s." % (_cstr(fallback_name), _cstr(fb["pass_arg"])),
        "",
        "(* providedBy: is_instance = PyObject_IsInstance(%s, &%s); ... if (is_instance) return %s(module, %s); *)" % (
            prov["test_arg"], prov["test_type"], prov["callee"], prov["pass_arg"]),
        "Definition gen_c_providedBy_branch : c_branch :=",
        "  mkCB %s %s %s %s." % tuple(_cstr(prov[k]) for k in ("test_arg", "test_type", "callee", "pass_arg")),
        "",
        "(* _adapter_hook: required = %s(module, %s); factory = %s(...); if (PyObject_TypeCheck(%s, &%s))" % (
            hook["prov_fn"], hook["prov_arg"], hook["lookup_fn"], hook["test_arg"], hook["test_type"]),
        "   { owned_self = getattr(%s, %s); %s = owned_self; } result = factory(%s) *)" % (
            attr_of, attr, hook["assigned"], hook["call_arg"]),
        "Definition gen_c_adapter_hook : c_hook :=",
        "  mkCH %s %s %s %s %s %s %s %s %s." % tuple(_cstr(x) for x in (
            hook["prov_fn"], hook["prov_arg"], hook["lookup_fn"], hook["test_arg"], hook["test_type"],
            attr_of, attr, hook["assigned"], hook["call_arg"])),
        "",
    ]
    return "\n".join(out)


def extract(repo):
    with open(os.path.join(repo, SOURCE)) as fh:
        ctext = fh.read()
    with open(os.path.join(repo, DECL)) as fh:
        dtext = fh.read()
    return extract_text(ctext, dtext, origin=os.path.join(repo, SOURCE))


# the kernel this framework was developed against; written when the current text is refused
PINNED = '''(* PINNED copy (harness/translate/super_c.py): the current C text was refused by the extractor. *)
From Coq Require Import String.
From ZI Require Import Model.SuperCPrims.
Local Open Scope string_scope.

Definition gen_c_implementedBy_branch : c_branch :=
  mkCB "cls" "PySuper_Type" "implementedByFallback" "cls".

Definition gen_c_fallback : c_fallback := mkCF "implementedByFallback" "cls".

Definition gen_c_providedBy_branch : c_branch :=
  mkCB "ob" "PySuper_Type" "implementedBy" "ob".

Definition gen_c_adapter_hook : c_hook :=
  mkCH "providedBy" "object" "_lookup1" "object" "PySuper_Type" "object" "__self__" "object" "object".
'''


if __name__ == "__main__":  # manual use: python -m harness.translate.super_c /repo
    import sys
    print(extract(sys.argv[1]))
