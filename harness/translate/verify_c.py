"""Fail-closed extractor: the DATA semantics of the generation-checking C functions of
``_zope_interface_coptimizations.c`` -> ``coq/Gen/VerifyC.v`` (vocabulary coq/Model/VerifyCPrims.v):

  LB_clear, VB_clear     which slots are released
  _generations_tuple     a tuple of the same length, item i = getattr(item i of the argument, '_generation')
  verify_changed         (= VerifyingBase.changed in C) the snapshot is tuple(self._registry.ro)[1:len], the
                         generations are read over exactly that tuple, both slots are replaced
  _verify                the stored tuple is compared element-wise (tuple !=) with the generations read over the
                         stored _verify_ro; self.changed(None) is called on a mismatch or when a slot is NULL

Tokeniser / parser: harness/translate/cskeleton.py (as harness/translate/lookup_c.py).  Every statement must be
one of the forms below; anything else raises Abort.  NOT translated: reference counting (INCREF/DECREF/
XDECREF are skipped) and the failure branches ``if (x == NULL) {decref*; return NULL|-1}`` directly after a
call whose result x is (C11 covers ownership; these only fire on foreign exceptions / memory exhaustion),
and the ``changed == -1`` error result of PyObject_RichCompareBool.
"""
import os

from .. import common as C
from .cskeleton import Abort, Parser, find_function, find_macros, strip_comments, tokenize

SOURCE = os.path.join("src", "zope", "interface", "_zope_interface_coptimizations.c")
OUT = os.path.join(C.COQ, "Gen", "VerifyC.v")
REFCOUNT = {"Py_INCREF", "Py_XINCREF", "Py_DECREF", "Py_XDECREF"}


def _is(e, kind, *rest):
    return isinstance(e, tuple) and e and e[0] == kind and all(e[i + 1] == r for i, r in enumerate(rest) if r is not None)


def _id(e, name=None):
    return _is(e, "id") and (name is None or e[1] == name)


def _self_field(e):
    return e[2] if _is(e, "field") and _id(e[1], "self") else None


def _call(e, name=None):
    return _is(e, "call") and (name is None or e[1] == name)


def _is_object_self(e):
    return _call(e, "OBJECT") and len(e[2]) == 1 and _id(e[2][0], "self")


def _neg1(e):
    return _is(e, "un", "-") and e[2] == ("num", 1)


def _stmts(node):
    return node[1] if _is(node, "block") else [node]


def _is_null_guard(st, var):
    """if (var == NULL) { refcount*; return NULL | -1 }"""
    if not (_is(st, "if") and st[3] is None and _is(st[1], "bin", "==") and _id(st[1][2], var) and _id(st[1][3], "NULL")):
        return False
    body = _stmts(st[2])
    for b in body[:-1]:
        if not (_is(b, "expr") and _call(b[1]) and b[1][1] in REFCOUNT):
            return False
    last = body[-1]
    return _is(last, "return") and (_id(last[1], "NULL") or _neg1(last[1]))


def _drop_guard(tail, var):
    """remove the NULL guard of [var] that follows its assignment, possibly after reference-count statements"""
    i = 0
    while i < len(tail) and _is(tail[i], "expr") and _call(tail[i][1]) and tail[i][1][1] in REFCOUNT:
        i += 1
    if i < len(tail) and _is_null_guard(tail[i], var):
        return tail[:i] + tail[i + 1:]
    return tail


class Fn:
    """symbolic execution of one function body into a Gallina term over ``st : cst``"""
    counter = 0

    def __init__(self, name, has_changed_param=False):
        self.name = name
        self.env = {}          # C local -> (kind, gallina expression)
        self.nonnull = False   # inside ``if (self->_verify_ro != NULL && self->_verify_generations != NULL)``

    def fail(self, node, why):
        line = node[-1] if isinstance(node, tuple) and isinstance(node[-1], int) else "?"
        raise Abort("%s: line %s: %s: %r" % (self.name, line, why, node if len(repr(node)) < 300 else repr(node)[:300]))

    def val(self, e):
        if _id(e) and e[1] in self.env:
            return self.env[e[1]]
        f = _self_field(e)
        if f in ("_verify_ro", "_verify_generations"):
            if not self.nonnull:
                self.fail(e, "slot read outside the non-NULL test")
            return ("tuple", "pc_slot_ro st r") if f == "_verify_ro" else ("gens", "pc_slot_gens st r")
        self.fail(e, "unknown value")

    def rhs(self, e):
        if not _call(e):
            return self.val(e)
        fn, args = e[1], e[2]
        if fn == "PyObject_GetAttr" and len(args) == 2:
            if _is_object_self(args[0]) and _id(args[1], "str_registry"):
                return ("registry", None)
            if _id(args[1], "strro") and self.val(args[0])[0] == "registry":
                return ("seq", "pc_registry_ro st r")
        if fn == "PyObject_CallFunctionObjArgs" and len(args) == 3 and _call(args[0], "OBJECT") \
                and args[0][2] == [("un", "&", ("id", "PyTuple_Type", args[0][2][0][2][2]))] and _id(args[2], "NULL"):
            k, x = self.val(args[1])
            if k == "seq":
                return ("tuple", x)            # tuple(ro): the same elements
        if fn == "PyTuple_GetSlice" and len(args) == 3:
            k, x = self.val(args[0])
            if k == "tuple" and _is(args[1], "num"):
                if _call(args[2], "PyTuple_GET_SIZE") and args[2][2][0][:2] == args[0][:2]:
                    hi = "(length (%s))" % x
                elif _is(args[2], "num"):
                    hi = str(args[2][1])
                else:
                    self.fail(e, "slice bound")
                return ("tuple", "p_slice (%s) %d %s" % (x, args[1][1], hi))
        if fn == "_generations_tuple" and len(args) == 1:
            k, x = self.val(args[0])
            if k == "tuple":
                return ("gens", "gen_c_generations_tuple st (%s)" % x)
        if fn == "PyObject_RichCompareBool" and len(args) == 3 and _id(args[2], "Py_NE"):
            (ka, a), (kb, b) = self.val(args[0]), self.val(args[1])
            if ka == kb == "gens":
                return ("int", "p_gens_neqb (%s) (%s)" % (a, b))
        self.fail(e, "unknown call / argument kinds")

    def run(self, stmts, rest):
        """Gallina term: execute stmts, then [rest] (None = falling off the end is an error)"""
        if not stmts:
            if rest is None:
                raise Abort("%s: control reaches the end of the function" % self.name)
            return rest()
        st, tail = stmts[0], stmts[1:]
        go = lambda: self.run(tail, rest)   # noqa
        if _is(st, "decl"):
            for d in st[1]:
                if d[1] is not None:
                    self.fail(st, "initialised declaration")
            return go()
        if _is(st, "block"):
            return self.run(list(st[1]) + tail, rest)
        if _is(st, "expr"):
            e = st[1]
            if _call(e) and e[1] in REFCOUNT:
                return go()
            if _call(e, "Py_CLEAR") and len(e[2]) == 1:
                f = _self_field(e[2][0])
                m = {"_verify_generations": "pc_clear_slot_gens st", "_verify_ro": "pc_clear_slot_ro st",
                     "_cache": "pc_lift (fun s => p_clear_cache s r) st", "_mcache": "pc_lift (fun s => p_clear_mcache s r) st",
                     "_scache": "pc_lift (fun s => p_clear_scache s r) st"}
                if f in m:
                    return "let st := %s in\n%s" % (m[f], go())
            if _call(e, "VB_clear") and len(e[2]) == 1 and _id(e[2][0], "self"):
                return "let st := gen_c_VB_clear st r in\n%s" % go()
            if _call(e, "Py_XSETREF") and len(e[2]) == 2:
                f = _self_field(e[2][0])
                k, x = self.val(e[2][1])
                if f == "_verify_generations" and k == "gens":
                    return "let st := pc_store_gens st r (%s) in\n%s" % (x, go())
                if f == "_verify_ro" and k == "tuple":
                    return "let st := pc_store_ro st r (%s) in\n%s" % (x, go())
            if _is(e, "assign") and _id(e[1]):
                var, r = e[1][1], e[2]
                if _call(r, "PyObject_CallMethodObjArgs") and len(r[2]) == 4 and _is_object_self(r[2][0]) \
                        and _id(r[2][1], "strchanged") and _id(r[2][2], "Py_None") and _id(r[2][3], "NULL"):
                    tail = _drop_guard(tail, var)
                    self.env[var] = ("none", None)
                    return "let st := changed st r in   (* self.changed(None) *)\n%s" % self.run(tail, rest)
                k, x = self.rhs(r)
                tail = _drop_guard(tail, var)
                if k == "int":
                    # the error result -1 of the comparison is not translated
                    if tail and _is(tail[0], "if") and tail[0][3] is None and _is(tail[0][1], "bin", "==") \
                            and _id(tail[0][1][2], var) and _neg1(tail[0][1][3]) \
                            and len(_stmts(tail[0][2])) == 1 and _is(_stmts(tail[0][2])[0], "return"):
                        tail = tail[1:]
                    self.env[var] = (k, "i_" + var)
                    return "let i_%s := %s in\n%s" % (var, x, self.run(tail, rest))
                if k in ("tuple", "gens", "seq"):
                    # bind the value once: later statements see the value computed HERE
                    Fn.counter += 1
                    name = "v_%s_%d" % (var, Fn.counter)
                    self.env[var] = (k, name)
                    return "let %s := %s in\n%s" % (name, x, self.run(tail, rest))
                self.env[var] = (k, x)
                return self.run(tail, rest)
            self.fail(st, "unknown statement")
        if _is(st, "return"):
            e = st[1]
            if _id(e, "Py_None") or (_is(e, "num") and e[1] == 0):
                return "st"
            if _call(e, "LB_clear") and len(e[2]) == 1 and _is(e[2][0], "cast", "LB") and _id(e[2][0][2], "self"):
                return "gen_c_LB_clear st r"
            k, x = self.val(e) if not _call(e) else (None, None)
            if k in ("gens", "tuple"):
                return x
            self.fail(st, "unknown return value")
        if _is(st, "if"):
            c, a, b = st[1], st[2], st[3]
            if b is None and _is(c, "bin", "&&") and all(
                    _is(x, "bin", "!=") and _id(x[3], "NULL") for x in (c[2], c[3])) \
                    and {_self_field(c[2][2]), _self_field(c[3][2])} == {"_verify_ro", "_verify_generations"}:
                Fn.counter += 1
                cont = "k_%d" % Fn.counter
                inner = Fn(self.name)
                inner.env, inner.nonnull = dict(self.env), True
                body = inner.run(_stmts(a), lambda: cont + " st")
                return ("let %s := fun st : cst =>\n%s in\nif negb (c_null_ro st) && negb (c_null_gens st) then\n%s\nelse %s st"
                        % (cont, go(), body, cont))
            if b is None and _is(c, "bin", "==") and _id(c[2]) and self.env.get(c[2][1], (None,))[0] == "int" \
                    and _neg1(c[3]) and len(_stmts(a)) == 1 and _is(_stmts(a)[0], "return") and _neg1(_stmts(a)[0][1]):
                return go()     # the error result of the comparison: not translated
            if b is None and _is(c, "bin", "==") and _id(c[2]) and self.env.get(c[2][1], (None,))[0] == "int" \
                    and c[3] == ("num", 0):
                body = self.run(_stmts(a), None)
                return "if negb %s then\n%s\nelse\n%s" % (self.env[c[2][1]][1], body, go())
            self.fail(st, "unknown condition")
        self.fail(st, "unknown statement kind")


def _generations_tuple(text, macros):
    """must be: l = GET_SIZE(ro); g = PyTuple_New(l); for i in 0..l: x = getattr(GET_ITEM(ro, i), '_generation');
    SET_ITEM(g, i, x); return g"""
    rt, params, body, line0 = find_function(text, "_generations_tuple")
    if rt != "PyObject*" or len(params) != 1:
        raise Abort("_generations_tuple: unexpected signature")
    ro = params[0][0]
    ss = [s for s in Parser(tokenize(body, line0), macros).block()[1] if not _is(s, "decl")]

    def bad(why):
        raise Abort("_generations_tuple: " + why)
    if len(ss) != 5:
        bad("expected size; new; guard; loop; return (%d statements)" % len(ss))
    s0, s1, s2, s3, s4 = ss
    if not (_is(s0, "expr") and _is(s0[1], "assign") and _id(s0[1][1]) and _call(s0[1][2], "PyTuple_GET_SIZE")
            and _id(s0[1][2][2][0], ro)):
        bad("l = PyTuple_GET_SIZE(ro)")
    l = s0[1][1][1]
    if not (_is(s1, "expr") and _is(s1[1], "assign") and _id(s1[1][1]) and _call(s1[1][2], "PyTuple_New")
            and _id(s1[1][2][2][0], l)):
        bad("generations = PyTuple_New(l)")
    g = s1[1][1][1]
    if not _is_null_guard(s2, g):
        bad("NULL guard of PyTuple_New")
    if not (_is(s3, "for") and _is(s3[1], "assign") and _id(s3[1][1]) and s3[1][2] == ("num", 0)):
        bad("for (i = 0; ...)")
    i = s3[1][1][1]
    if not (_is(s3[2], "bin", "<") and _id(s3[2][2], i) and _id(s3[2][3], l) and _is(s3[3], "postinc") and _id(s3[3][1], i)):
        bad("for (...; i < l; i++)")
    lb = [s for s in _stmts(s3[4]) if not _is(s, "decl")]
    if len(lb) != 3:
        bad("loop body")
    a = lb[0]
    if not (_is(a, "expr") and _is(a[1], "assign") and _id(a[1][1]) and _call(a[1][2], "PyObject_GetAttr")
            and _call(a[1][2][2][0], "PyTuple_GET_ITEM") and _id(a[1][2][2][0][2][0], ro) and _id(a[1][2][2][0][2][1], i)
            and _id(a[1][2][2][1], "str_generation")):
        bad("generation = PyObject_GetAttr(PyTuple_GET_ITEM(ro, i), str_generation)")
    x = a[1][1][1]
    if not _is_null_guard(lb[1], x):
        bad("NULL guard of the attribute read")
    c = lb[2]
    if not (_is(c, "expr") and _call(c[1], "PyTuple_SET_ITEM") and _id(c[1][2][0], g) and _id(c[1][2][1], i) and _id(c[1][2][2], x)):
        bad("PyTuple_SET_ITEM(generations, i, generation)")
    if not (_is(s4, "return") and _id(s4[1], g)):
        bad("return generations")
    return ("Definition gen_c_generations_tuple (st : cst) (ro : list nat) : list nat :=\n"
            "  p_tuple_map (fun x => pc_generation st x) ro.\n")


def _fn(text, macros, name, rt_want, nparams):
    rt, params, body, line0 = find_function(text, name)
    if rt != rt_want or len(params) != nparams or params[0][0] != "self":
        raise Abort("%s: unexpected signature %s %r" % (name, rt, params))
    return Parser(tokenize(body, line0), macros).block()[1]


def extract(repo=None):
    path = os.path.join(repo or C.REPO, SOURCE)
    text = strip_comments(open(path).read())
    macros = find_macros(text)
    Fn.counter = 0
    out = ["(* GENERATED by harness/translate/verify_c.py from %s -- do not edit." % path,
           "   Regenerated on every run; Proofs/VerifyC.v re-proves it equal to the model. *)",
           "From Coq Require Import List Arith Bool.", "Import ListNotations.",
           "From ZI Require Import Model.Ro Model.Adapter Model.Lookup Model.RegSys Model.RegPrim Model.VerifyCPrims.", "",
           "Definition c_translation_ok : bool := true.", ""]
    out.append("(* LB_clear *)\nDefinition gen_c_LB_clear (st : cst) (r : nat) : cst :=\n%s.\n"
               % Fn("LB_clear").run(_fn(text, macros, "LB_clear", "int", 1), None))
    out.append("(* VB_clear *)\nDefinition gen_c_VB_clear (st : cst) (r : nat) : cst :=\n%s.\n"
               % Fn("VB_clear").run(_fn(text, macros, "VB_clear", "int", 1), None))
    out.append("(* _generations_tuple *)\n" + _generations_tuple(text, macros))
    # the method table must route ``changed`` to verify_changed
    if '{ "changed", (PyCFunction)verify_changed, METH_O' not in " ".join(text.split()):
        raise Abort("VB method table: changed is not verify_changed (METH_O)")
    out.append("(* verify_changed = VerifyingBase.changed *)\nDefinition gen_c_verify_changed (st : cst) (r : nat) : cst :=\n%s.\n"
               % Fn("verify_changed").run(_fn(text, macros, "verify_changed", "PyObject*", 2), None))
    out.append("(* _verify ; [changed] = self.changed(None), resolved on the Python class of the lookup object *)\n"
               "Definition gen_c_verify (changed : cst -> nat -> cst) (st : cst) (r : nat) : cst :=\n%s.\n"
               % Fn("_verify").run(_fn(text, macros, "_verify", "int", 1), None))
    return "\n".join(out)


def stub(origin, why):
    return ("(* GENERATED by harness/translate/verify_c.py: extraction from %s ABORTED:\n   %s\n"
            "   No kernel is available; Proofs/VerifyC.v does not build. *)\n"
            "Definition c_translation_ok : bool := false.\n"
            % (origin, why.replace("*)", "* )").replace("(*", "( *")))


if __name__ == "__main__":
    import sys
    print(extract(sys.argv[1] if len(sys.argv) > 1 else None))
