"""Pinned copies (the tree this framework was developed against) of the source text
harness/translate/declalg.py translates.  Used ONLY when the translation of the current source is
refused, so that the Coq development still has a kernel to compile against; the refusal itself is
always reported as a broken tie."""

DECLARATIONS = r'''
class Declaration(Specification):
    def __init__(self, *bases):
        Specification.__init__(self, _normalizeargs(bases))

    def __contains__(self, interface):
        """Test whether an interface is in the specification
        """

        return self.extends(interface) and interface in self.interfaces()

    def __iter__(self):
        """Return an iterator for the interfaces in the specification
        """
        return self.interfaces()

    def flattened(self):
        """Return an iterator of all included and extended interfaces
        """
        return iter(self.__iro__)

    def __sub__(self, other):
        """Remove interfaces from a specification
        """
        return Declaration(*[
            i for i in self.interfaces()
            if not [
                j
                for j in other.interfaces()
                if i.extends(j, 0)  # non-strict extends
            ]
        ])

    def __add__(self, other):
        """
        Add two specifications or a specification and an interface
        and produce a new declaration.

        .. versionchanged:: 5.4.0
           Now tries to preserve a consistent resolution order. Interfaces
           being added to this object are added to the front of the resulting
           resolution order if they already extend an interface in this
           object. Previously, they were always added to the end of the order,
           which easily resulted in invalid orders.
        """
        before = []
        result = list(self.interfaces())
        seen = set(result)
        for i in other.interfaces():
            if i in seen:
                continue
            seen.add(i)
            if any(i.extends(x) for x in result):
                # It already extends us, e.g., is a subclass,
                # so it needs to go at the front of the RO.
                before.append(i)
            else:
                result.append(i)
        return Declaration(*(before + result))

    __radd__ = __add__

    @staticmethod
    def _add_interfaces_to_cls(interfaces, cls):
        # Strip redundant interfaces already provided
        # by the cls so we don't produce invalid
        # resolution orders.
        implemented_by_cls = implementedBy(cls)
        interfaces = tuple([
            iface
            for iface in interfaces
            if not implemented_by_cls.isOrExtends(iface)
        ])
        return interfaces + (implemented_by_cls,)

def alsoProvides(object, *interfaces):  # pylint:disable=redefined-builtin
    """Declare interfaces declared directly for an object

    The arguments after the object are one or more interfaces or interface
    specifications (`~zope.interface.interfaces.IDeclaration` objects).

    The interfaces given (including the interfaces in the specifications) are
    added to the interfaces previously declared for the object.
    """
    directlyProvides(object, directlyProvidedBy(object), *interfaces)

def noLongerProvides(object, interface):  # pylint:disable=redefined-builtin
    """ Removes a directly provided interface from an object.
    """
    directlyProvides(object, directlyProvidedBy(object) - interface)
    if interface.providedBy(object):
        raise ValueError("Can only remove directly provided interfaces.")

def directlyProvidedBy(object):  # pylint:disable=redefined-builtin
    """Return the interfaces directly provided by the given object

    The value returned is an `~zope.interface.interfaces.IDeclaration`.
    """
    provides = getattr(object, "__provides__", None)
    if (
            provides is None  # no spec
            # We might have gotten the implements spec, as an
            # optimization. If so, it's like having only one base, that we
            # lop off to exclude class-supplied declarations:
            or isinstance(provides, Implements)  # noqa W503
    ):
        return _empty

    # Strip off the class part of the spec:
    return Declaration(provides.__bases__[:-1])

def _normalizeargs(sequence, output=None):
    """Normalize declaration arguments

    Normalization arguments might contain Declarions, tuples, or single
    interfaces.

    Anything but individual interfaces or implements specs will be expanded.
    """
    if output is None:
        output = []

    cls = sequence.__class__
    if InterfaceClass in cls.__mro__ or Implements in cls.__mro__:
        output.append(sequence)
    else:
        for v in sequence:
            _normalizeargs(v, output)

    return output

_empty = _ImmutableDeclaration()
'''

INTERFACE = r'''
class SpecificationBase:
    def isOrExtends(self, interface):
        """Is the interface the same as or extend the given interface
        """
        return interface in self._implied  # pylint:disable=no-member

class Specification(SpecificationBase):
    def interfaces(self):
        """Return an iterator for the interfaces in the specification.
        """
        seen = {}
        for base in self.__bases__:
            for interface in base.interfaces():
                if interface not in seen:
                    seen[interface] = 1
                    yield interface

    def extends(self, interface, strict=True):
        """Does the specification extend the given interface?

        Test whether an interface in the specification extends the
        given interface
        """
        return (
            (interface in self._implied) and (
                (not strict) or (self != interface)
            )
        )

class InterfaceClass(_InterfaceClassBase):
    def interfaces(self):
        """Return an iterator for the interfaces in the specification.
        """
        yield self
'''
