"""Fail-closed translator: the pickling kernel of zope.interface  ->  coq/Gen/ReduceKernel.v.

Sources read (Python ``ast`` only, nothing is executed):

  interface.py     InterfaceClass.__reduce__            -> gen_iface_reduce
  declarations.py  _ImmutableDeclaration.__reduce__     -> gen_empty_reduce
                   Implements.__reduce__                -> gen_impl_reduce  (inherit / _implements_cls)
                   Provides.__init__ (self.__args = ..) + Provides.__reduce__       -> gen_prov_args, gen_prov_reduce
                   ClassProvides.__init__ (self.__args = ..) + ClassProvides.__reduce__ -> gen_cprov_args, gen_cprov_reduce
                   implementedBy: the branch that creates a spec for a class, and WHERE the line
                   ``spec._implements_cls = cls`` stands relative to the ``try:`` that stores
                   ``cls.__implemented__``                  -> gen_default_impl
                   def Provides(*interfaces) (the factory over InstanceDeclarations)  -> gen_provides_factory
                   Provides.changed                     -> gen_prov_changed
                   directlyProvides (is the argument list normalised before it reaches the
                   ClassProvides / Provides constructors?)  -> gen_dp_class_args, gen_dp_instance_args

Vocabulary of the output: Model/Pickle.v (``reduced``, ``impl_rec`` fields, ``class_ref``,
``iface_refs``, ``type_ref``, ``cache_get``, ``cache_set``, ``new_provides``, ``opt_is_none``,
``is_builtin``).  Abstractions made here (part of the trusted base of the tie):

  * ``return <str>`` from __reduce__ is pickle-by-global-name: the interface's own name, resp. the
    literal name in the module that defines the class;
  * ``self.inherit`` -> ``im_inherit self``, ``self._implements_cls`` -> ``im_cls self``;
  * the parameters of ``__init__`` named in ``self.__args = (..) + interfaces`` map to the record
    fields of the model; a ``metacls`` parameter is the metaclass of ``cls`` (``meta_ref``: ``type``
    unless the world names another one);
  * ``self.__class__`` in ClassProvides.__reduce__ is the class ClassProvides itself;
  * an assignment inside the ``try:`` after ``cls.__implemented__ = spec`` is executed only when
    that store succeeds, i.e. not for built-in types.

Only the statement shapes spelled out below are accepted; anything else raises TranslationError
(reported by the caller as a broken tie; the pinned kernel is then written so that the rest of the
pipeline still runs).
"""
import ast
import os


class TranslationError(Exception):
    pass


def _fail(node, why):
    raise TranslationError("%s at line %s: %s" % (
        why, getattr(node, "lineno", "?"), ast.dump(node)[:160] if isinstance(node, ast.AST) else node))


# --------------------------------------------------------------------------- helpers

def _is_name(n, name=None):
    return isinstance(n, ast.Name) and (name is None or n.id == name)


def _self_attr(n, attr=None):
    """self.<attr> (Load)"""
    return (isinstance(n, ast.Attribute) and _is_name(n.value, "self")
            and (attr is None or n.attr == attr))


def _strip_doc(body):
    if body and isinstance(body[0], ast.Expr) and isinstance(body[0].value, ast.Constant) \
            and isinstance(body[0].value.value, str):
        return body[1:]
    return body


def _top_classes(module, name):
    return [n for n in module.body if isinstance(n, ast.ClassDef) and n.name == name]


def _the_class(module, name):
    cs = _top_classes(module, name)
    all_named = [n for n in ast.walk(module) if isinstance(n, ast.ClassDef) and n.name == name]
    if len(cs) != 1 or len(all_named) != 1:
        raise TranslationError("expected exactly one module-level class %s, found %d/%d" % (name, len(cs), len(all_named)))
    return cs[0]


def _the_method(cls, name, params=None):
    ms = [n for n in cls.body if isinstance(n, (ast.FunctionDef, ast.AsyncFunctionDef)) and n.name == name]
    rebound = [n for n in cls.body if isinstance(n, ast.Assign)
               and any(_is_name(t, name) for t in n.targets)]
    if len(ms) != 1 or rebound or not isinstance(ms[0], ast.FunctionDef):
        raise TranslationError("expected exactly one plain method %s.%s (found %d, rebound %d)"
                               % (cls.name, name, len(ms), len(rebound)))
    m = ms[0]
    if m.decorator_list:
        _fail(m, "%s.%s is decorated" % (cls.name, name))
    a = m.args
    if a.kwonlyargs or a.kwarg or a.defaults or a.kw_defaults or getattr(a, "posonlyargs", None):
        _fail(m, "unexpected parameter list of %s.%s" % (cls.name, name))
    got = [x.arg for x in a.args] + (["*" + a.vararg.arg] if a.vararg else [])
    if params is not None and got != params:
        _fail(m, "parameters of %s.%s are %r, expected %r" % (cls.name, name, got, params))
    return m


def _class_sets_module(cls):
    return any(isinstance(n, ast.Assign) and any(_is_name(t, "__module__") for t in n.targets) for n in cls.body)


def _mangled(cls_name, attr):
    """the attribute name ``self.__x`` really has inside class ``cls_name``"""
    if attr.startswith("__") and not attr.endswith("__"):
        return "_%s%s" % (cls_name.lstrip("_"), attr)
    return attr


# --------------------------------------------------------------------------- the pieces

def tr_iface_reduce(module):
    m = _the_method(_the_class(module, "InterfaceClass"), "__reduce__", ["self"])
    body = _strip_doc(m.body)
    if len(body) != 1 or not isinstance(body[0], ast.Return) or not _self_attr(body[0].value, "__name__"):
        _fail(m, "InterfaceClass.__reduce__ is not `return self.__name__`")
    return ("(* interface.py:InterfaceClass.__reduce__ -- `return self.__name__`: pickled by global name *)\n"
            "Definition gen_iface_reduce (w : world) (self : nat) : reduced := ByName (iname w self).\n")


def tr_empty_reduce(module, modname):
    cls = _the_class(module, "_ImmutableDeclaration")
    if _class_sets_module(cls):
        _fail(cls, "_ImmutableDeclaration overrides __module__")
    m = _the_method(cls, "__reduce__", ["self"])
    body = _strip_doc(m.body)
    if len(body) != 1 or not isinstance(body[0], ast.Return) or not isinstance(body[0].value, ast.Constant) \
            or not isinstance(body[0].value.value, str):
        _fail(m, "_ImmutableDeclaration.__reduce__ is not `return <string literal>`")
    name = body[0].value.value
    if not name.isidentifier():
        _fail(m, "global name is not an identifier")
    # the name must be bound at module level to an instance of the class: NAME = _ImmutableDeclaration()
    bound = [n for n in module.body if isinstance(n, ast.Assign) and any(_is_name(t, name) for t in n.targets)]
    if len(bound) != 1 or not (isinstance(bound[0].value, ast.Call) and _is_name(bound[0].value.func, "_ImmutableDeclaration")
                               and not bound[0].value.args and not bound[0].value.keywords):
        raise TranslationError("module-level `%s = _ImmutableDeclaration()` not found exactly once" % name)
    return ("(* declarations.py:_ImmutableDeclaration.__reduce__ -- `return %r`: the module-level singleton, by name *)\n"
            "Definition gen_empty_reduce : reduced :=\n"
            "  ByName (str_of_string \"%s\", str_of_string \"%s\").\n" % (name, modname, name))


IMPL_ATTR = {"inherit": "im_inherit", "_implements_cls": "im_cls"}


def tr_impl_reduce(module):
    cls = _the_class(module, "Implements")
    m = _the_method(cls, "__reduce__", ["self"])
    body = _strip_doc(m.body)
    lines = []
    local = set()

    def attr(n):
        if _self_attr(n) and n.attr in IMPL_ATTR:
            return "(%s self)" % IMPL_ATTR[n.attr]
        _fail(n, "only self.inherit / self._implements_cls may be read")

    def value(n):
        if _is_name(n) and n.id in local:
            return "v_" + n.id
        return attr(n)

    for i, st in enumerate(body):
        last = i == len(body) - 1
        if isinstance(st, ast.Assign) and len(st.targets) == 1 and _is_name(st.targets[0]) and not last:
            lines.append("  let v_%s := %s in" % (st.targets[0].id, value(st.value)))
            local.add(st.targets[0].id)
        elif isinstance(st, ast.If) and not last:
            t = st.test
            if not (isinstance(t, ast.Compare) and len(t.ops) == 1 and isinstance(t.ops[0], ast.Is)
                    and _is_name(t.left) and t.left.id in local
                    and isinstance(t.comparators[0], ast.Constant) and t.comparators[0].value is None):
                _fail(t, "expected `<local> is None`")
            if st.orelse or len(st.body) != 1 or not (
                    isinstance(st.body[0], ast.Assign) and len(st.body[0].targets) == 1
                    and _is_name(st.body[0].targets[0], t.left.id)):
                _fail(st, "expected `if x is None: x = <value>` without else")
            lines.append("  let v_%s := if opt_is_none v_%s then %s else v_%s in"
                         % (t.left.id, t.left.id, value(st.body[0].value), t.left.id))
        elif isinstance(st, ast.Return) and last:
            v = st.value
            if not (isinstance(v, ast.Tuple) and len(v.elts) == 2 and _is_name(v.elts[0], "implementedBy")
                    and isinstance(v.elts[1], ast.Tuple) and len(v.elts[1].elts) == 1):
                _fail(st, "expected `return implementedBy, (<class>, )`")
            lines.append("  Call FImplementedBy [class_arg w %s]." % value(v.elts[1].elts[0]))
        else:
            _fail(st, "unsupported statement in Implements.__reduce__")
    if not lines or not lines[-1].startswith("  Call"):
        _fail(m, "Implements.__reduce__ does not end in a return")
    _check_global_function(module, "implementedBy")
    return ("(* declarations.py:Implements.__reduce__ *)\n"
            "Definition gen_impl_reduce (w : world) (self : impl_rec) : reduced :=\n" + "\n".join(lines) + "\n")


def _check_global_function(module, name):
    """the LAST module-level binding of ``name`` is a ``def`` (what the name means when called later)"""
    last = None
    for n in module.body:
        if isinstance(n, (ast.FunctionDef, ast.ClassDef)) and n.name == name:
            last = n
        elif isinstance(n, ast.Assign) and any(_is_name(t, name) for t in n.targets):
            last = n
    if not isinstance(last, ast.FunctionDef):
        raise TranslationError("module-level name %s is not finally bound to a function" % name)
    return last


def _args_assignment(cls, init_params, field_of):
    """``self.__args = (<params...>, ) + <vararg>`` in __init__ -> Coq list of references"""
    init = _the_method(cls, "__init__", init_params)
    hits = [st for st in ast.walk(init) if isinstance(st, ast.Assign)
            and any(_self_attr(t, "__args") for t in st.targets)]
    if len(hits) != 1 or hits[0] not in init.body or len(hits[0].targets) != 1:
        _fail(init, "expected exactly one top-level `self.__args = ...` in %s.__init__" % cls.name)
    # nobody else in the class writes it
    for n in ast.walk(cls):
        if isinstance(n, ast.Attribute) and n.attr == "__args" and not isinstance(n.ctx, ast.Load) and n is not hits[0].targets[0]:
            _fail(n, "%s.__args is written elsewhere" % cls.name)
    # the parameters are not rebound before the assignment
    for st in init.body[:init.body.index(hits[0])]:
        for n in ast.walk(st):
            if isinstance(n, ast.Name) and not isinstance(n.ctx, ast.Load) and ("*" + n.id in init_params or n.id in init_params):
                _fail(n, "parameter rebound before self.__args is set")
    v = hits[0].value
    vararg = init_params[-1][1:]
    if not (isinstance(v, ast.BinOp) and isinstance(v.op, ast.Add) and isinstance(v.left, ast.Tuple)
            and _is_name(v.right, vararg)):
        _fail(v, "expected `(<params>, ) + %s`" % vararg)
    refs = []
    for e in v.left.elts:
        if not _is_name(e) or e.id not in field_of:
            _fail(e, "unexpected element of the argument tuple")
        refs.append(field_of[e.id])
    if [e.id for e in v.left.elts] != init_params[1:-1]:
        _fail(v, "argument tuple does not list the parameters in order")
    return "[" + "; ".join(refs) + "] ++ " + field_of["*" + vararg]


def _reduce_returns(cls, fn_ok):
    m = _the_method(cls, "__reduce__", ["self"])
    body = _strip_doc(m.body)
    if len(body) != 1 or not isinstance(body[0], ast.Return):
        _fail(m, "%s.__reduce__ is not a single return" % cls.name)
    v = body[0].value
    if not (isinstance(v, ast.Tuple) and len(v.elts) == 2 and fn_ok(v.elts[0]) and _self_attr(v.elts[1], "__args")):
        _fail(m, "%s.__reduce__ is not `return <constructor>, self.__args`" % cls.name)


def tr_prov_reduce(module):
    cls = _the_class(module, "Provides")
    args = _args_assignment(cls, ["self", "cls", "*interfaces"],
                            {"cls": "class_ref w (pv_cls self)", "*interfaces": "iface_refs w (pv_ifaces self)"})
    _reduce_returns(cls, lambda n: _is_name(n, "Provides"))
    # `Provides` at call time is the factory function: class first, then ProvidesClass = Provides, then def
    _check_global_function(module, "Provides")
    return ("(* declarations.py:Provides.__init__ `self.__args = (cls, ) + interfaces`; __reduce__ `return Provides, self.__args`\n"
            "   (the module-level name Provides is, by then, the factory function) *)\n"
            "Definition gen_prov_args (w : world) (self : prov_rec) : list reduced := %s.\n"
            "Definition gen_prov_reduce (w : world) (self : prov_rec) : reduced := Call FProvides (gen_prov_args w self).\n" % args)


def tr_cprov_reduce(module):
    cls = _the_class(module, "ClassProvides")
    args = _args_assignment(cls, ["self", "cls", "metacls", "*interfaces"],
                            {"cls": "class_ref w (cp_cls self)", "metacls": "meta_ref w (cp_cls self)",
                             "*interfaces": "iface_refs w (cp_ifaces self)"})
    _reduce_returns(cls, lambda n: _self_attr(n, "__class__"))
    return ("(* declarations.py:ClassProvides.__init__ `self.__args = (cls, metacls, ) + interfaces`;\n"
            "   __reduce__ `return self.__class__, self.__args` *)\n"
            "Definition gen_cprov_args (w : world) (self : cprov_rec) : list reduced := %s.\n"
            "Definition gen_cprov_reduce (w : world) (self : cprov_rec) : reduced := Call FClassProvides (gen_cprov_args w self).\n" % args)


def tr_default_impl(module):
    """implementedBy: the `else:` branch creating a spec for a class + the position of
    `spec._implements_cls = cls`."""
    fn = _check_global_function(module, "implementedBy")
    if [a.arg for a in fn.args.args] != ["cls"] or fn.args.vararg or fn.args.kwarg:
        _fail(fn, "unexpected signature of implementedBy")
    body = _strip_doc(fn.body)
    # every write of _implements_cls in the function
    writes = [n for n in ast.walk(fn) if isinstance(n, ast.Assign)
              and any(isinstance(t, ast.Attribute) and t.attr == "_implements_cls" for t in n.targets)]
    if len(writes) != 1:
        _fail(fn, "expected exactly one assignment to _implements_cls in implementedBy (found %d)" % len(writes))
    wr = writes[0]
    if not (len(wr.targets) == 1 and isinstance(wr.targets[0].value, ast.Name) and wr.targets[0].value.id == "spec"
            and _is_name(wr.value, "cls")):
        _fail(wr, "expected `spec._implements_cls = cls`")
    # the try that stores the spec in the class
    tries = [st for st in body if isinstance(st, ast.Try) and st.body and _is_store_implemented(st.body[0])]
    if len(tries) != 1:
        _fail(fn, "expected exactly one top-level `try:` starting with `cls.__implemented__ = spec`")
    tr = tries[0]
    handlers_ok = len(tr.handlers) == 1 and _is_name(tr.handlers[0].type, "TypeError") and not tr.orelse and not tr.finalbody
    if not handlers_ok:
        _fail(tr, "the storing try: is not `except TypeError:` only")
    if not any(isinstance(n, ast.Assign) and any(isinstance(t, ast.Subscript) and _is_name(t.value, "BuiltinImplementationSpecifications")
                                                 for t in n.targets) for n in ast.walk(tr.handlers[0])):
        _fail(tr, "the TypeError handler does not file the spec under BuiltinImplementationSpecifications")
    # the if/else that creates the spec: directly before (the write and) the try
    creators = [st for st in body if isinstance(st, ast.If) and _is_spec_not_none(st.test)]
    if len(creators) != 1:
        _fail(fn, "expected exactly one top-level `if spec is not None: ... else: ...`")
    cr = creators[0]
    _check_else_branch(cr.orelse)
    _check_oldstyle_branch(cr.body)
    i_cr, i_try = body.index(cr), body.index(tr)
    if wr in body:
        i_wr = body.index(wr)
        if not (i_cr < i_wr < i_try) or i_try - i_cr != 2:
            _fail(wr, "`spec._implements_cls = cls` is at function level but not between the creation and the try")
        cls_field = "Some cls"
        where = "before the try: (always executed)"
    elif wr in tr.body:
        if i_try - i_cr != 1:
            _fail(tr, "unexpected statements between the creation of the spec and the try")
        if tr.body.index(wr) < 1:
            _fail(wr, "`spec._implements_cls = cls` precedes the store inside the try")
        for st in tr.body[1:tr.body.index(wr)]:
            if not isinstance(st, (ast.Assign, ast.If, ast.Expr)):
                _fail(st, "unsupported statement before the write inside the try")
        cls_field = "if is_builtin w cls then None else Some cls"
        where = "INSIDE the try: after `cls.__implemented__ = spec` (skipped when that store raises: built-in types)"
    else:
        _fail(wr, "`spec._implements_cls = cls` is nested somewhere else")
    # nothing between creation and try may return / rebind spec
    return ("(* declarations.py:implementedBy, the two branches that create the specification of a class:\n"
            "     old-style `__implemented__ = I` in the class body:\n"
            "       declared = tuple(_normalizeargs(spec)); spec = Implements.named(spec_name, *declared);\n"
            "       spec.inherit = None; spec.declared = declared\n"
            "     otherwise:\n"
            "       spec = Implements.named(spec_name, *[implementedBy(c) for c in bases]); spec.inherit = cls\n"
            "   and `spec._implements_cls = cls`, found %s *)\n"
            "Definition gen_default_impl (w : world) (cls : nat) : impl_rec :=\n"
            "  match assoc_nat cls (w_oldstyle w) with\n"
            "  | Some declared => mkImpl None (%s) declared (map RI declared)\n"
            "  | None => mkImpl (Some cls) (%s) [] (map RC (cbases w cls))\n"
            "  end.\n" % (where, cls_field, cls_field))


def _is_store_implemented(st):
    return (isinstance(st, ast.Assign) and len(st.targets) == 1 and isinstance(st.targets[0], ast.Attribute)
            and _is_name(st.targets[0].value, "cls") and st.targets[0].attr == "__implemented__"
            and _is_name(st.value, "spec"))


def _is_spec_not_none(t):
    return (isinstance(t, ast.Compare) and len(t.ops) == 1 and isinstance(t.ops[0], ast.IsNot)
            and _is_name(t.left, "spec") and isinstance(t.comparators[0], ast.Constant)
            and t.comparators[0].value is None)


def _check_oldstyle_branch(stmts):
    """spec = (spec, ); declared = tuple(_normalizeargs(spec)); spec = Implements.named(spec_name, *declared);
    spec.inherit = None; spec.declared = declared; del cls.__implemented__"""
    stmts = [s for s in stmts if not (isinstance(s, ast.Expr) and isinstance(s.value, ast.Constant))]
    if len(stmts) != 6:
        _fail(stmts[0] if stmts else "if", "old-style branch does not have the six expected statements")
    tup, decl, named, inh, dcl, dl = stmts
    ok = (isinstance(tup, ast.Assign) and _is_name(tup.targets[0], "spec") and isinstance(tup.value, ast.Tuple)
          and len(tup.value.elts) == 1 and _is_name(tup.value.elts[0], "spec"))
    ok = ok and (isinstance(decl, ast.Assign) and _is_name(decl.targets[0], "declared")
                 and isinstance(decl.value, ast.Call) and _is_name(decl.value.func, "tuple") and len(decl.value.args) == 1
                 and isinstance(decl.value.args[0], ast.Call) and _is_name(decl.value.args[0].func, "_normalizeargs")
                 and len(decl.value.args[0].args) == 1 and _is_name(decl.value.args[0].args[0], "spec"))
    ok = ok and (isinstance(named, ast.Assign) and _is_name(named.targets[0], "spec") and isinstance(named.value, ast.Call)
                 and isinstance(named.value.func, ast.Attribute) and _is_name(named.value.func.value, "Implements")
                 and named.value.func.attr == "named" and len(named.value.args) == 2
                 and _is_name(named.value.args[0], "spec_name") and isinstance(named.value.args[1], ast.Starred)
                 and _is_name(named.value.args[1].value, "declared"))
    ok = ok and (isinstance(inh, ast.Assign) and isinstance(inh.targets[0], ast.Attribute) and _is_name(inh.targets[0].value, "spec")
                 and inh.targets[0].attr == "inherit" and isinstance(inh.value, ast.Constant) and inh.value.value is None)
    ok = ok and (isinstance(dcl, ast.Assign) and isinstance(dcl.targets[0], ast.Attribute) and _is_name(dcl.targets[0].value, "spec")
                 and dcl.targets[0].attr == "declared" and _is_name(dcl.value, "declared"))
    ok = ok and (isinstance(dl, ast.Delete) and len(dl.targets) == 1 and isinstance(dl.targets[0], ast.Attribute)
                 and _is_name(dl.targets[0].value, "cls") and dl.targets[0].attr == "__implemented__")
    if not ok:
        _fail(stmts[0], "old-style branch of implementedBy has an unexpected shape")


def _check_else_branch(stmts):
    """... spec = Implements.named(spec_name, *[implementedBy(c) for c in bases]); spec.inherit = cls"""
    if len(stmts) < 2:
        _fail(stmts[0] if stmts else "else", "creation branch too short")
    named, inh = stmts[-2], stmts[-1]
    ok_named = (isinstance(named, ast.Assign) and len(named.targets) == 1 and _is_name(named.targets[0], "spec")
                and isinstance(named.value, ast.Call) and isinstance(named.value.func, ast.Attribute)
                and _is_name(named.value.func.value, "Implements") and named.value.func.attr == "named"
                and len(named.value.args) == 2 and _is_name(named.value.args[0], "spec_name")
                and isinstance(named.value.args[1], ast.Starred) and isinstance(named.value.args[1].value, ast.ListComp))
    if not ok_named:
        _fail(named, "expected `spec = Implements.named(spec_name, *[implementedBy(c) for c in bases])`")
    lc = named.value.args[1].value
    ok_lc = (isinstance(lc.elt, ast.Call) and _is_name(lc.elt.func, "implementedBy") and len(lc.elt.args) == 1
             and len(lc.generators) == 1 and not lc.generators[0].ifs and _is_name(lc.generators[0].iter, "bases")
             and _is_name(lc.generators[0].target) and _is_name(lc.elt.args[0], lc.generators[0].target.id))
    if not ok_lc:
        _fail(lc, "expected `[implementedBy(c) for c in bases]`")
    ok_inh = (isinstance(inh, ast.Assign) and len(inh.targets) == 1 and isinstance(inh.targets[0], ast.Attribute)
              and _is_name(inh.targets[0].value, "spec") and inh.targets[0].attr == "inherit" and _is_name(inh.value, "cls"))
    if not ok_inh:
        _fail(inh, "expected `spec.inherit = cls`")


def tr_factory(module):
    fn = _check_global_function(module, "Provides")
    a = fn.args
    if a.args or a.kwonlyargs or a.kwarg or not a.vararg or fn.decorator_list:
        _fail(fn, "the Provides factory is not `def Provides(*interfaces)`")
    key = a.vararg.arg
    # InstanceDeclarations = weakref.WeakValueDictionary(), once
    decl = [n for n in module.body if isinstance(n, ast.Assign) and any(_is_name(t, "InstanceDeclarations") for t in n.targets)]
    if len(decl) != 1 or not (isinstance(decl[0].value, ast.Call) and isinstance(decl[0].value.func, ast.Attribute)
                              and decl[0].value.func.attr == "WeakValueDictionary"):
        raise TranslationError("InstanceDeclarations is not a single module-level WeakValueDictionary()")
    # ProvidesClass = Provides must follow the class and precede the def
    cls = _the_class(module, "Provides")
    alias = [n for n in module.body if isinstance(n, ast.Assign) and any(_is_name(t, "ProvidesClass") for t in n.targets)]
    if len(alias) != 1 or not _is_name(alias[0].value, "Provides") or not (
            module.body.index(cls) < module.body.index(alias[0]) < module.body.index(fn)):
        raise TranslationError("`ProvidesClass = Provides` is not placed between the class and the factory")
    body = _strip_doc(fn.body)
    if len(body) != 3:
        _fail(fn, "the factory is not get / if-None-create-store / return")
    get, cond, ret = body
    ok_get = (isinstance(get, ast.Assign) and len(get.targets) == 1 and _is_name(get.targets[0], "spec")
              and isinstance(get.value, ast.Call) and isinstance(get.value.func, ast.Attribute)
              and _is_name(get.value.func.value, "InstanceDeclarations") and get.value.func.attr == "get"
              and len(get.value.args) == 1 and _is_name(get.value.args[0], key) and not get.value.keywords)
    if not ok_get:
        _fail(get, "expected `spec = InstanceDeclarations.get(%s)`" % key)
    t = cond.test if isinstance(cond, ast.If) else None
    ok_test = (t is not None and isinstance(t, ast.Compare) and len(t.ops) == 1 and isinstance(t.ops[0], ast.Is)
               and _is_name(t.left, "spec") and isinstance(t.comparators[0], ast.Constant) and t.comparators[0].value is None
               and not cond.orelse and len(cond.body) == 2)
    if not ok_test:
        _fail(cond, "expected `if spec is None:` with two statements and no else")
    new, store = cond.body
    ok_new = (isinstance(new, ast.Assign) and len(new.targets) == 1 and _is_name(new.targets[0], "spec")
              and isinstance(new.value, ast.Call) and _is_name(new.value.func, "ProvidesClass")
              and len(new.value.args) == 1 and isinstance(new.value.args[0], ast.Starred)
              and _is_name(new.value.args[0].value, key) and not new.value.keywords)
    if not ok_new:
        _fail(new, "expected `spec = ProvidesClass(*%s)`" % key)
    ok_store = (isinstance(store, ast.Assign) and len(store.targets) == 1 and isinstance(store.targets[0], ast.Subscript)
                and _is_name(store.targets[0].value, "InstanceDeclarations") and _is_name(store.targets[0].slice, key)
                and _is_name(store.value, "spec"))
    if not ok_store:
        _fail(store, "expected `InstanceDeclarations[%s] = spec`" % key)
    if not (isinstance(ret, ast.Return) and _is_name(ret.value, "spec")):
        _fail(ret, "expected `return spec`")
    return ("(* declarations.py:Provides (the factory): spec = InstanceDeclarations.get(interfaces);\n"
            "   if spec is None: spec = ProvidesClass( *interfaces ); InstanceDeclarations[interfaces] = spec; return spec.\n"
            "   The argument tuple (cls, *interfaces) is the pair (c, is). *)\n"
            "Definition gen_provides_factory (fuel : nat) (w : world) (st : state) (c : nat) (is : list nat) : state * nat :=\n"
            "  let key := (c, is) in\n"
            "  match cache_get st key with\n"
            "  | Some spec => (st, spec)\n"
            "  | None =>\n"
            "      let '(st, spec) := new_provides fuel w st c is in\n"
            "      let st := cache_set st key spec in\n"
            "      (st, spec)\n"
            "  end.\n")


def tr_changed(module):
    cls = _the_class(module, "Provides")
    m = _the_method(cls, "changed", ["self", "originally_changed"])
    body = _strip_doc(m.body)
    if len(body) != 2:
        _fail(m, "Provides.changed is not guard + super().changed(...)")
    guard, sup = body
    t = guard.test if isinstance(guard, ast.If) else None
    ok_outer = (t is not None and isinstance(t, ast.Compare) and len(t.ops) == 1 and isinstance(t.ops[0], ast.IsNot)
                and _is_name(t.left, "originally_changed") and _is_name(t.comparators[0], "self")
                and not guard.orelse)
    if not ok_outer:
        _fail(guard, "expected `if originally_changed is not self:` without else")
    inner = [s for s in guard.body if not (isinstance(s, ast.Expr) and isinstance(s.value, ast.Constant))]
    if len(inner) != 1 or not isinstance(inner[0], ast.If) or inner[0].orelse or len(inner[0].body) != 1:
        _fail(guard, "expected one nested `if ...: del ...`")
    t2 = inner[0].test
    ok_inner = (isinstance(t2, ast.Compare) and len(t2.ops) == 1 and isinstance(t2.ops[0], ast.Is)
                and isinstance(t2.left, ast.Call) and isinstance(t2.left.func, ast.Attribute)
                and _is_name(t2.left.func.value, "InstanceDeclarations") and t2.left.func.attr == "get"
                and len(t2.left.args) == 1 and _self_attr(t2.left.args[0], "__args") and not t2.left.keywords
                and _is_name(t2.comparators[0], "self"))
    if not ok_inner:
        _fail(t2, "expected `InstanceDeclarations.get(self.__args) is self`")
    d = inner[0].body[0]
    ok_del = (isinstance(d, ast.Delete) and len(d.targets) == 1 and isinstance(d.targets[0], ast.Subscript)
              and _is_name(d.targets[0].value, "InstanceDeclarations") and _self_attr(d.targets[0].slice, "__args"))
    if not ok_del:
        _fail(d, "expected `del InstanceDeclarations[self.__args]`")
    ok_sup = (isinstance(sup, ast.Expr) and isinstance(sup.value, ast.Call) and isinstance(sup.value.func, ast.Attribute)
              and sup.value.func.attr == "changed" and isinstance(sup.value.func.value, ast.Call)
              and _is_name(sup.value.func.value.func, "super") and not sup.value.func.value.args
              and len(sup.value.args) == 1 and _is_name(sup.value.args[0], "originally_changed"))
    if not ok_sup:
        _fail(sup, "expected `super().changed(originally_changed)` as the last statement")
    return ("(* declarations.py:Provides.changed: does this notification delete the declaration's cache entry?\n"
            "     if originally_changed is not self:                       (external)\n"
            "         if InstanceDeclarations.get(self.__args) is self:    (cached_is_self)\n"
            "             del InstanceDeclarations[self.__args]\n"
            "     super().changed(originally_changed)                      (propagation continues) *)\n"
            "Definition gen_prov_changed (external cached_is_self : bool) : bool :=\n"
            "  if external then (if cached_is_self then true else false) else false.\n")


def tr_directly_provides(module):
    """directlyProvides: is the argument list normalised (flattened to interfaces) before it reaches
    the ClassProvides / Provides constructors (whose __args is what gets pickled)?"""
    fn = _check_global_function(module, "directlyProvides")
    a = fn.args
    if [x.arg for x in a.args] != ["object"] or not a.vararg or a.vararg.arg != "interfaces" or a.kwarg or a.kwonlyargs:
        _fail(fn, "directlyProvides is not `def directlyProvides(object, *interfaces)`")

    def is_norm(st):
        return (isinstance(st, ast.Assign) and len(st.targets) == 1 and _is_name(st.targets[0], "interfaces")
                and isinstance(st.value, ast.Call) and _is_name(st.value.func, "_normalizeargs")
                and len(st.value.args) == 1 and _is_name(st.value.args[0], "interfaces") and not st.value.keywords)

    def writes_interfaces(st):
        return any(isinstance(n, ast.Name) and n.id == "interfaces" and not isinstance(n.ctx, ast.Load)
                   for n in ast.walk(st))

    def ctor_call(stmts, ctor, nargs, normalised):
        """-> does `ctor(..., *interfaces)` in this branch see normalised arguments"""
        found = None
        for st in stmts:
            if is_norm(st):
                if found is not None:
                    _fail(st, "normalisation after the constructor call")
                normalised = True
                continue
            if writes_interfaces(st):
                _fail(st, "`interfaces` is rebound in an unknown way")
            calls = [n for n in ast.walk(st) if isinstance(n, ast.Call) and _is_name(n.func, ctor)]
            for c in calls:
                ok = (len(c.args) == nargs + 1 and isinstance(c.args[-1], ast.Starred)
                      and _is_name(c.args[-1].value, "interfaces") and not c.keywords
                      and all(_is_name(x) for x in c.args[:-1]))
                if not ok or found is not None:
                    _fail(c, "unexpected call of %s" % ctor)
                found = normalised
        if found is None:
            _fail(stmts[0], "no call of %s(..., *interfaces) in this branch" % ctor)
        return found

    body = _strip_doc(fn.body)
    normalised = False
    out = None
    for st in body:
        if is_norm(st):
            normalised = True
        elif isinstance(st, ast.If) and isinstance(st.test, ast.Call) and _is_name(st.test.func, "issubclass") \
                and len(st.test.args) == 2 and _is_name(st.test.args[0], "cls") and _is_name(st.test.args[1], "type"):
            if out is not None or not st.orelse:
                _fail(st, "expected one `if issubclass(cls, type): ... else: ...`")
            out = (ctor_call(st.body, "ClassProvides", 2, normalised), ctor_call(st.orelse, "Provides", 1, normalised))
        elif writes_interfaces(st):
            _fail(st, "`interfaces` is rebound in an unknown way")
        elif out is not None:
            _fail(st, "statement after the class/instance branch")
    if out is None:
        _fail(fn, "class/instance branch not found in directlyProvides")
    pick = lambda b: "inr (normalizeargs raw)" if b else "inl raw"   # noqa: E731
    return ("(* declarations.py:directlyProvides: what the constructors receive as their interface arguments --\n"
            "   inr: the list flattened by _normalizeargs, inl: the raw argument tuple (may hold Declaration objects) *)\n"
            "Definition gen_dp_class_args {A : Type} (normalizeargs : A -> list nat) (raw : A) : A + list nat := %s.\n"
            "Definition gen_dp_instance_args {A : Type} (normalizeargs : A -> list nat) (raw : A) : A + list nat := %s.\n"
            % (pick(out[0]), pick(out[1])))


HEADER = """(* GENERATED by harness/translate/reduce.py from
     %s
     %s
   -- do not edit.  Regenerated on every run; Proofs/PickleGen.v and Properties/C13.v
   (C13_generated_*_eq_model) are re-checked against it. *)
From Coq Require Import List NArith ZArith Bool Arith String.
Import ListNotations.
From ZI Require Import Lib.Str Lib.Util Model.Pickle.

"""


def translate_sources(interface_text, declarations_text, origins=("interface.py", "declarations.py"),
                      modname="zope.interface.declarations"):
    mi = ast.parse(interface_text)
    md = ast.parse(declarations_text)
    parts = [tr_iface_reduce(mi), tr_empty_reduce(md, modname), tr_impl_reduce(md), tr_prov_reduce(md),
             tr_cprov_reduce(md), tr_default_impl(md), tr_factory(md), tr_changed(md), tr_directly_provides(md)]
    return HEADER % origins + "\n".join(parts)


def translate(src_dir):
    """src_dir = <repo>/src/zope/interface"""
    pi, pd = os.path.join(src_dir, "interface.py"), os.path.join(src_dir, "declarations.py")
    with open(pi) as fh:
        ti = fh.read()
    with open(pd) as fh:
        td = fh.read()
    return translate_sources(ti, td, origins=(pi, pd))


# The kernel this framework was developed against; written only when the translation of the current
# source is refused, so that Properties/C13.v still compiles and the correspondence + Spec oracle
# can look for a concrete failing input.  The refusal itself is always reported as an error.
PINNED = HEADER % ("<pinned copy in harness/translate/reduce.py>", "(the current source was REFUSED by the translator)") + """\
Definition gen_iface_reduce (w : world) (self : nat) : reduced := ByName (iname w self).
Definition gen_empty_reduce : reduced :=
  ByName (str_of_string "zope.interface.declarations", str_of_string "_empty").
Definition gen_impl_reduce (w : world) (self : impl_rec) : reduced :=
  let v_cls := (im_inherit self) in
  let v_cls := if opt_is_none v_cls then (im_cls self) else v_cls in
  Call FImplementedBy [class_arg w v_cls].
Definition gen_prov_args (w : world) (self : prov_rec) : list reduced := [class_ref w (pv_cls self)] ++ iface_refs w (pv_ifaces self).
Definition gen_prov_reduce (w : world) (self : prov_rec) : reduced := Call FProvides (gen_prov_args w self).
Definition gen_cprov_args (w : world) (self : cprov_rec) : list reduced := [class_ref w (cp_cls self); meta_ref w (cp_cls self)] ++ iface_refs w (cp_ifaces self).
Definition gen_cprov_reduce (w : world) (self : cprov_rec) : reduced := Call FClassProvides (gen_cprov_args w self).
Definition gen_default_impl (w : world) (cls : nat) : impl_rec :=
  match assoc_nat cls (w_oldstyle w) with
  | Some declared => mkImpl None (Some cls) declared (map RI declared)
  | None => mkImpl (Some cls) (Some cls) [] (map RC (cbases w cls))
  end.
Definition gen_provides_factory (fuel : nat) (w : world) (st : state) (c : nat) (is : list nat) : state * nat :=
  let key := (c, is) in
  match cache_get st key with
  | Some spec => (st, spec)
  | None =>
      let '(st, spec) := new_provides fuel w st c is in
      let st := cache_set st key spec in
      (st, spec)
  end.
Definition gen_prov_changed (external cached_is_self : bool) : bool :=
  if external then (if cached_is_self then true else false) else false.
Definition gen_dp_class_args {A : Type} (normalizeargs : A -> list nat) (raw : A) : A + list nat := inr (normalizeargs raw).
Definition gen_dp_instance_args {A : Type} (normalizeargs : A -> list nat) (raw : A) : A + list nat := inr (normalizeargs raw).
"""


if __name__ == "__main__":  # manual use: python -m harness.translate.reduce /repo/src/zope/interface
    import sys
    print(translate(sys.argv[1]))
