"""Fail-closed translator: interface.py NameAndModuleComparisonMixin._compare and the
comparison methods built on it  ->  coq/Gen/Compare.v.

Only the exact statement shapes listed below are accepted; anything else raises
TranslationError (the caller turns that into a broken proof obligation).

Gallina vocabulary (from Model/Order.v): operand, same_obj, okind_of, has_key, okey, key_cmp,
cmp_res (CNotImpl | CVal c), mres (MNotImpl | MBool b).
"""
import ast


class TranslationError(Exception):
    pass


def _fail(node, why):
    raise TranslationError("%s at line %s: %s" % (why, getattr(node, "lineno", "?"), ast.dump(node)[:200]))


def _is_name(n, name):
    return isinstance(n, ast.Name) and n.id == name


def _attr_tuple(n, obj):
    """(obj.__name__, obj.__module__) -> ['__name__', '__module__']"""
    if not (isinstance(n, ast.Tuple) and len(n.elts) == 2):
        _fail(n, "expected a 2-tuple of attributes")
    out = []
    for e in n.elts:
        if not (isinstance(e, ast.Attribute) and _is_name(e.value, obj) and e.attr in ("__name__", "__module__")):
            _fail(e, "expected %s.__name__/__module__" % obj)
        out.append(e.attr)
    if sorted(out) != ["__module__", "__name__"]:
        _fail(n, "expected both __name__ and __module__")
    return out


def _key_expr(attrs, obj):
    comp = {"__name__": "oname %s" % obj, "__module__": "omodule %s" % obj}
    return "(%s, %s)" % (comp[attrs[0]], comp[attrs[1]])


def _const_cmp(n):
    """0 -> Eq, -1 -> Lt, 1 -> Gt"""
    if isinstance(n, ast.Constant) and n.value in (0, 1):
        return {0: "Eq", 1: "Gt"}[n.value]
    if isinstance(n, ast.UnaryOp) and isinstance(n.op, ast.USub) and isinstance(n.operand, ast.Constant) and n.operand.value == 1:
        return "Lt"
    _fail(n, "expected the constant 0, 1 or -1")


def translate_compare(fn):
    body = [s for s in fn.body if not (isinstance(s, ast.Expr) and isinstance(s.value, ast.Constant))]  # docstring
    if [a.arg for a in fn.args.args] != ["self", "other"]:
        _fail(fn, "unexpected signature")
    parts = []      # list of (prefix_text) to be closed later
    k1 = k2 = None
    i = 0
    closing = ""
    out = ""
    while i < len(body):
        s = body[i]
        if isinstance(s, ast.If) and not s.orelse and len(s.body) == 1 and isinstance(s.body[0], ast.Return):
            t = s.test
            if not (isinstance(t, ast.Compare) and len(t.ops) == 1 and isinstance(t.ops[0], ast.Is)):
                _fail(t, "expected an `is` test")
            l, r = t.left, t.comparators[0]
            ret = "CVal %s" % _const_cmp(s.body[0].value)
            if (_is_name(l, "other") and _is_name(r, "self")) or (_is_name(l, "self") and _is_name(r, "other")):
                a, b = (l.id, r.id)
                out += "if same_obj %s %s then %s else " % (a, b, ret)
            elif _is_name(l, "other") and isinstance(r, ast.Constant) and r.value is None:
                out += "match okind_of other with KNone => %s | _ => " % ret
                closing = " end" + closing
            else:
                _fail(t, "unknown identity test")
        elif isinstance(s, ast.Assign) and len(s.targets) == 1 and _is_name(s.targets[0], "n1"):
            k1 = _key_expr(_attr_tuple(s.value, "self"), "self")
        elif isinstance(s, ast.Try):
            if not (len(s.body) == 1 and isinstance(s.body[0], ast.Assign) and _is_name(s.body[0].targets[0], "n2")
                    and len(s.handlers) == 1 and isinstance(s.handlers[0].type, ast.Name)
                    and s.handlers[0].type.id == "AttributeError" and not s.orelse and not s.finalbody):
                _fail(s, "unexpected try statement")
            h = s.handlers[0].body
            if not (len(h) == 1 and isinstance(h[0], ast.Return) and _is_name(h[0].value, "NotImplemented")):
                _fail(s, "handler must return NotImplemented")
            k2 = _key_expr(_attr_tuple(s.body[0].value, "other"), "other")
            out += "if has_key other then "
            closing = " else CNotImpl" + closing
        elif isinstance(s, ast.Return):
            if k1 is None or k2 is None:
                _fail(s, "return before both keys are built")
            v = s.value
            if not (isinstance(v, ast.BinOp) and isinstance(v.op, ast.Sub)):
                _fail(v, "expected (n1 > n2) - (n1 < n2)")

            def side(c):
                if not (isinstance(c, ast.Compare) and len(c.ops) == 1 and _is_name(c.left, "n1")
                        and _is_name(c.comparators[0], "n2")):
                    _fail(c, "expected n1 <op> n2")
                return type(c.ops[0]).__name__
            l, r = side(v.left), side(v.right)
            if (l, r) == ("Gt", "Lt"):
                out += "CVal (key_cmp %s %s)" % (k1, k2)
            elif (l, r) == ("Lt", "Gt"):
                out += "CVal (CompOpp (key_cmp %s %s))" % (k1, k2)
            else:
                _fail(v, "unsupported comparison combination")
            if i != len(body) - 1:
                _fail(body[i + 1], "statements after the final return")
        else:
            _fail(s, "unsupported statement")
        i += 1
    return out + closing


CMP_PRED = {  # c <op> 0  as a predicate on `comparison`
    "Lt": "match c with Lt => true | _ => false end",
    "LtE": "match c with Gt => false | _ => true end",
    "Gt": "match c with Gt => true | _ => false end",
    "GtE": "match c with Lt => false | _ => true end",
    "Eq": "match c with Eq => true | _ => false end",
    "NotEq": "match c with Eq => false | _ => true end",
}


def translate_method(fn):
    """c = self._compare(other); if c is NotImplemented: return c; return c <op> 0
    (optionally preceded by `if other is self: return False`)"""
    body = [s for s in fn.body if not (isinstance(s, ast.Expr) and isinstance(s.value, ast.Constant))]
    pre = ""
    if len(body) == 4:
        s = body[0]
        ok = (isinstance(s, ast.If) and not s.orelse and isinstance(s.test, ast.Compare)
              and isinstance(s.test.ops[0], ast.Is) and _is_name(s.test.left, "other")
              and _is_name(s.test.comparators[0], "self") and len(s.body) == 1
              and isinstance(s.body[0], ast.Return) and isinstance(s.body[0].value, ast.Constant)
              and s.body[0].value.value in (True, False))
        if not ok:
            _fail(s, "unexpected leading statement")
        pre = "if same_obj other self then MBool %s else " % ("true" if s.body[0].value.value else "false")
        body = body[1:]
    if len(body) != 3:
        _fail(fn, "unexpected method body")
    a, b, c = body
    if not (isinstance(a, ast.Assign) and _is_name(a.targets[0], "c") and isinstance(a.value, ast.Call)
            and isinstance(a.value.func, ast.Attribute) and a.value.func.attr == "_compare"
            and _is_name(a.value.func.value, "self") and len(a.value.args) == 1 and _is_name(a.value.args[0], "other")):
        _fail(a, "expected c = self._compare(other)")
    if not (isinstance(b, ast.If) and isinstance(b.test, ast.Compare) and isinstance(b.test.ops[0], ast.Is)
            and _is_name(b.test.left, "c") and _is_name(b.test.comparators[0], "NotImplemented")
            and len(b.body) == 1 and isinstance(b.body[0], ast.Return) and _is_name(b.body[0].value, "c") and not b.orelse):
        _fail(b, "expected `if c is NotImplemented: return c`")
    if not (isinstance(c, ast.Return) and isinstance(c.value, ast.Compare) and _is_name(c.value.left, "c")
            and isinstance(c.value.comparators[0], ast.Constant) and c.value.comparators[0].value == 0):
        _fail(c, "expected `return c <op> 0`")
    op = type(c.value.ops[0]).__name__
    if op not in CMP_PRED:
        _fail(c, "unsupported operator")
    return (pre + "match compare_gen self other with CNotImpl => MNotImpl | CVal c => MBool (%s) end" % CMP_PRED[op])


def find_class(tree, name):
    for n in tree.body:
        if isinstance(n, ast.ClassDef) and n.name == name:
            return n
    raise TranslationError("class %s not found" % name)


def find_method(cls, name):
    for n in cls.body:
        if isinstance(n, ast.FunctionDef) and n.name == name:
            return n
    raise TranslationError("method %s.%s not found" % (cls.name, name))


def translate(source_path):
    tree = ast.parse(open(source_path).read())
    mixin = find_class(tree, "NameAndModuleComparisonMixin")
    ib = find_class(tree, "InterfaceBase")
    out = ["(* GENERATED on every run by harness/translate/compare.py from",
           "   src/zope/interface/interface.py — do not edit. *)",
           "From Coq Require Import List NArith Bool.",
           "From ZI Require Import Lib.Str Model.Order.",
           "",
           "Definition compare_gen (self other : operand) : cmp_res :=",
           "  " + translate_compare(find_method(mixin, "_compare")) + ".",
           ""]
    for cls, meths in ((mixin, ("__lt__", "__le__", "__gt__", "__ge__")), (ib, ("__eq__", "__ne__"))):
        for m in meths:
            out.append("Definition gen%s (self other : operand) : mres :=" % m.rstrip("_"))
            out.append("  " + translate_method(find_method(cls, m)) + ".")
            out.append("")
    return "\n".join(out)
