"""Fail-closed translator: the adaptation kernels of ``zope/interface/interface.py`` ->
``coq/Gen/AdaptPy.v``.

Translated (Python ``ast``), as *data* of the statement language of ``coq/Model/PyKernel.v``
(whose interpreter gives them meaning over the vocabulary of ``coq/Model/Adapt.v``):

    InterfaceBase.__call__          -> call_body
    InterfaceBase.__adapt__         -> adapt_body          (provided-check + hook loop)
    InterfaceClass._call_conform    -> call_conform_body   (``sys.exc_info()[2].tb_next`` becomes the
                                                            abstract "more than one traceback entry" test)

and, as Coq boolean functions over named atoms, the flag logic

    InterfaceClass.__new__            the condition guarding ``needs_custom_class['_CALL_CUSTOM_ADAPT'] = 1``
    InterfaceClass.__init_subclass__  the conditions guarding ``cls._CALL_CUSTOM_ADAPT = 1`` and
                                      ``cls._CALL_CUSTOM_PROVIDEDBY = 1``

Only the AST shapes listed in this file are accepted; anything else raises ``TranslationError``
(the caller reports a broken tie and falls back to the pinned text so that the rest of the
pipeline -- correspondence and Spec oracle -- still runs; it never guesses).
"""
import ast

FLAG_ADAPT = "_CALL_CUSTOM_ADAPT"
FLAG_PROV = "_CALL_CUSTOM_PROVIDEDBY"
SELF_METHODS = {"_call_conform": "MCallConform", "__adapt__": "MAdapt", "providedBy": "MProvidedBy"}
XCLASSES = {"AttributeError": "XAttributeError", "TypeError": "XTypeError"}


class TranslationError(Exception):
    pass


def _fail(node, why):
    raise TranslationError("interface.py:%s: %s: %s" % (
        getattr(node, "lineno", "?"), why, ast.dump(node)[:160] if isinstance(node, ast.AST) else node))


def _cstr(s):
    if not isinstance(s, str) or not s.isidentifier():
        _fail(s, "not an identifier")
    return '"%s"' % s


def _clist(items):
    return "[" + "; ".join(items) + "]"


def _strip_doc(stmts):
    stmts = list(stmts)
    if stmts and isinstance(stmts[0], ast.Expr) and isinstance(stmts[0].value, ast.Constant) \
            and isinstance(stmts[0].value.value, str):
        stmts = stmts[1:]
    return stmts


class _Fn:
    """Translator of one function body into the PyKernel statement language."""

    def __init__(self, fn, nparams, globals_):
        self.fn = fn
        a = fn.args
        if a.vararg or a.kwarg or a.kwonlyargs or a.kw_defaults or getattr(a, "posonlyargs", None):
            _fail(fn, "unexpected parameter kinds")
        if fn.decorator_list:
            _fail(fn, "decorated kernel function")
        if len(a.args) != nparams:
            _fail(fn, "expected %d parameters" % nparams)
        self.params = [x.arg for x in a.args]
        if len(set(self.params)) != nparams:
            _fail(fn, "duplicate parameters")
        self.marker, self.hooks = globals_      # names of the module-level sentinel and hook list
        self.locals = set()

    # ---- expressions
    def expr(self, n):
        if isinstance(n, ast.Constant):
            if n.value is None:
                return "ENone"
            _fail(n, "unsupported constant")
        if isinstance(n, ast.Name):
            if not isinstance(n.ctx, ast.Load):
                _fail(n, "name in store context inside an expression")
            if n.id in self.params:
                return "(EParam %d)" % self.params.index(n.id)
            if n.id in self.locals:
                return "(EVar %s)" % _cstr(n.id)
            if n.id == self.marker:
                return "EMarker"
            if n.id == self.hooks:
                return "EHooks"
            _fail(n, "unknown name (not a parameter, an assigned local, the sentinel or the hook list)")
        if isinstance(n, ast.Attribute):
            if self._is_tb_next(n):
                return "ETbNext"
            if n.attr == "__conform__" and isinstance(n.ctx, ast.Load):
                return "(EConformAttr %s)" % self.expr(n.value)
            _fail(n, "unsupported attribute access")
        if isinstance(n, ast.Call):
            if n.keywords:
                _fail(n, "keyword arguments in a call")
            f = n.func
            if (isinstance(f, ast.Attribute) and isinstance(f.value, ast.Name)
                    and f.value.id == self.params[0] and f.attr in SELF_METHODS):
                if len(n.args) != 1:
                    _fail(n, "self-method call with other than one argument")
                return "(ESelfCall %s %s)" % (SELF_METHODS[f.attr], self.expr(n.args[0]))
            if not isinstance(f, ast.Name):
                _fail(n, "call of something that is not a plain name or a known self method")
            if any(isinstance(a, ast.Starred) for a in n.args):
                _fail(n, "starred argument")
            if len(n.args) == 1:
                return "(ECall1 %s %s)" % (self.expr(f), self.expr(n.args[0]))
            if len(n.args) == 2:
                return "(ECall2 %s %s %s)" % (self.expr(f), self.expr(n.args[0]), self.expr(n.args[1]))
            _fail(n, "call with unsupported arity")
        if isinstance(n, ast.Compare):
            if len(n.ops) != 1 or len(n.comparators) != 1:
                _fail(n, "chained comparison")
            op = {ast.Is: "EIs", ast.IsNot: "EIsNot"}.get(type(n.ops[0]))
            if op is None:
                _fail(n, "unsupported comparison operator")
            return "(%s %s %s)" % (op, self.expr(n.left), self.expr(n.comparators[0]))
        if isinstance(n, ast.UnaryOp) and isinstance(n.op, ast.Not):
            return "(ENot %s)" % self.expr(n.operand)
        if isinstance(n, ast.BoolOp):
            op = {ast.And: "EAnd", ast.Or: "EOr"}.get(type(n.op))
            if op is None:
                _fail(n, "unknown boolean operator")
            parts = [self.expr(v) for v in n.values]
            out = parts[-1]
            for p in reversed(parts[:-1]):
                out = "(%s %s %s)" % (op, p, out)
            return out
        _fail(n, "unsupported expression")

    @staticmethod
    def _is_tb_next(n):
        """sys.exc_info()[2].tb_next"""
        if not (isinstance(n, ast.Attribute) and n.attr == "tb_next" and isinstance(n.value, ast.Subscript)):
            return False
        sub = n.value
        sl = sub.slice
        if isinstance(sl, ast.Index):  # pragma: no cover (python < 3.9)
            sl = sl.value
        if not (isinstance(sl, ast.Constant) and sl.value == 2):
            return False
        c = sub.value
        return (isinstance(c, ast.Call) and not c.args and not c.keywords
                and isinstance(c.func, ast.Attribute) and c.func.attr == "exc_info"
                and isinstance(c.func.value, ast.Name) and c.func.value.id == "sys")

    # ---- statements
    def block(self, stmts):
        out = []
        for st in stmts:
            t = self.stmt(st)
            if t is not None:
                out.append(t)
        return _clist(out)

    def stmt(self, st):
        if isinstance(st, ast.Pass):
            return None
        if isinstance(st, ast.Assign):
            if len(st.targets) != 1 or not isinstance(st.targets[0], ast.Name):
                _fail(st, "assignment target is not a single name")
            x = st.targets[0].id
            if x in self.params or x in (self.marker, self.hooks):
                _fail(st, "assignment to a parameter or to a module-level name")
            e = self.expr(st.value)
            self.locals.add(x)
            return "SAssign %s %s" % (_cstr(x), e)
        if isinstance(st, ast.If):
            c = self.expr(st.test)
            # a local assigned in only one branch may be unbound afterwards: the interpreter reports
            # that as stuck, so the translation stays faithful
            return "SIf %s %s %s" % (c, self.block(st.body), self.block(st.orelse))
        if isinstance(st, ast.Return):
            return "SReturn %s" % ("ENone" if st.value is None else self.expr(st.value))
        if isinstance(st, ast.Raise):
            if st.cause is not None:
                _fail(st, "raise ... from")
            if st.exc is None:
                return "SReraise"
            e = st.exc
            if (isinstance(e, ast.Call) and isinstance(e.func, ast.Name) and e.func.id == "TypeError"
                    and not e.keywords and len(e.args) == 3
                    and isinstance(e.args[0], ast.Constant) and e.args[0].value == "Could not adapt"
                    and isinstance(e.args[1], ast.Name) and len(self.params) >= 2 and e.args[1].id == self.params[1]
                    and isinstance(e.args[2], ast.Name) and e.args[2].id == self.params[0]):
                return "SRaiseCouldNotAdapt"
            _fail(st, "raise of something other than TypeError('Could not adapt', obj, self)")
        if isinstance(st, ast.Try):
            if st.orelse or st.finalbody or len(st.handlers) != 1:
                _fail(st, "try with else/finally or several handlers")
            h = st.handlers[0]
            if h.name is not None or not isinstance(h.type, ast.Name) or h.type.id not in XCLASSES:
                _fail(st, "except clause is not `except AttributeError:` / `except TypeError:`")
            body = self.block(st.body)
            handler = self.block(h.body)
            return "STry %s %s %s" % (body, XCLASSES[h.type.id], handler)
        if isinstance(st, ast.For):
            if st.orelse or not isinstance(st.target, ast.Name):
                _fail(st, "for with else or a non-name target")
            x = st.target.id
            if x in self.params or x in (self.marker, self.hooks):
                _fail(st, "loop variable shadows a parameter or a module-level name")
            it = self.expr(st.iter)
            if it != "EHooks":
                _fail(st, "for loop over something other than the module-level hook list")
            self.locals.add(x)
            return "SFor %s %s %s" % (_cstr(x), it, self.block(st.body))
        _fail(st, "unsupported statement")

    def body(self):
        return self.block(_strip_doc(self.fn.body))


# --------------------------------------------------------------------------- module-level facts

def _classes(module):
    return {n.name: n for n in module.body if isinstance(n, ast.ClassDef)}


def _methods(cls, name):
    return [n for n in cls.body if isinstance(n, (ast.FunctionDef, ast.AsyncFunctionDef)) and n.name == name]


def _single_method(classes, cname, mname):
    if cname not in classes:
        raise TranslationError("class %s not found at module level" % cname)
    ms = _methods(classes[cname], mname)
    if len(ms) != 1 or not isinstance(ms[0], ast.FunctionDef):
        raise TranslationError("expected exactly one def %s.%s, found %d" % (cname, mname, len(ms)))
    # nobody assigns the name in the class body (e.g. ``__call__ = something``)
    for n in classes[cname].body:
        if isinstance(n, ast.Assign):
            for t in n.targets:
                for x in ast.walk(t):
                    if isinstance(x, ast.Name) and x.id == mname:
                        _fail(n, "%s is rebound in the body of %s" % (mname, cname))
    return ms[0]


def _module_assignments(module):
    count = {}
    for node in ast.walk(module):
        targets = []
        if isinstance(node, ast.Assign):
            targets = node.targets
        elif isinstance(node, (ast.AugAssign, ast.AnnAssign)):
            targets = [node.target]
        elif isinstance(node, (ast.Global, ast.Nonlocal)):
            for nm in node.names:
                count[nm] = count.get(nm, 0) + 2
        for t in targets:
            for n in ast.walk(t):
                if isinstance(n, ast.Name):
                    count[n.id] = count.get(n.id, 0) + 1
    return count


def _globals(module, call_fn):
    """(name of the `alternate` default sentinel, name of the hook list)"""
    counts = _module_assignments(module)
    d = call_fn.args.defaults
    if len(d) != 1 or not isinstance(d[0], ast.Name):
        _fail(call_fn, "__call__ must have exactly one default, a module-level sentinel name")
    marker = d[0].id
    ok = False
    for n in module.body:
        if (isinstance(n, ast.Assign) and len(n.targets) == 1 and isinstance(n.targets[0], ast.Name)
                and n.targets[0].id == marker and isinstance(n.value, ast.Call)
                and isinstance(n.value.func, ast.Name) and n.value.func.id == "object"
                and not n.value.args and not n.value.keywords):
            ok = True
    if not ok or counts.get(marker) != 1:
        raise TranslationError("the default of `alternate` (%s) is not a module-level `object()` assigned once" % marker)
    hooks = "adapter_hooks"
    ok = False
    for n in module.body:
        if (isinstance(n, ast.Assign) and len(n.targets) == 1 and isinstance(n.targets[0], ast.Name)
                and n.targets[0].id == hooks):
            v = n.value
            # adapter_hooks = _use_c_impl([], 'adapter_hooks')   or   adapter_hooks = []
            if isinstance(v, ast.List) and not v.elts:
                ok = True
            if (isinstance(v, ast.Call) and isinstance(v.func, ast.Name) and v.func.id == "_use_c_impl"
                    and len(v.args) == 2 and isinstance(v.args[0], ast.List) and not v.args[0].elts
                    and isinstance(v.args[1], ast.Constant) and v.args[1].value == hooks):
                ok = True
    if not ok or counts.get(hooks) != 1:
        raise TranslationError("adapter_hooks is not a module-level empty list assigned once")
    return marker, hooks


# --------------------------------------------------------------------------- flag logic

class _Flags:
    ATOMS = ("adapt_in_methods", "getattr_flag", "adapt_overridden", "prov_overridden")

    def __init__(self, cls_param, methods_var):
        self.cls = cls_param
        self.methods = methods_var

    def cond(self, n):
        if isinstance(n, ast.BoolOp):
            op = {ast.And: "andb", ast.Or: "orb"}.get(type(n.op))
            parts = [self.cond(v) for v in n.values]
            out = parts[-1]
            for p in reversed(parts[:-1]):
                out = "(%s %s %s)" % (op, p, out)
            return out
        if isinstance(n, ast.UnaryOp) and isinstance(n.op, ast.Not):
            return "(negb %s)" % self.cond(n.operand)
        if isinstance(n, ast.Compare) and len(n.ops) == 1 and len(n.comparators) == 1:
            l, r = n.left, n.comparators[0]
            if (isinstance(n.ops[0], ast.In) and isinstance(l, ast.Constant) and l.value == "__adapt__"
                    and isinstance(r, ast.Name) and self.methods is not None and r.id == self.methods):
                return "adapt_in_methods"
            if isinstance(n.ops[0], (ast.IsNot, ast.Is)):
                atom = None
                for mname, base, a in (("__adapt__", "InterfaceBase", "adapt_overridden"),
                                       ("providedBy", "Specification", "prov_overridden")):
                    if (isinstance(l, ast.Attribute) and l.attr == mname and isinstance(l.value, ast.Name)
                            and l.value.id == self.cls and isinstance(r, ast.Attribute) and r.attr == mname
                            and isinstance(r.value, ast.Name) and r.value.id == base):
                        atom = a
                if atom is not None:
                    return atom if isinstance(n.ops[0], ast.IsNot) else "(negb %s)" % atom
        if (isinstance(n, ast.Call) and isinstance(n.func, ast.Name) and n.func.id == "getattr"
                and not n.keywords and len(n.args) == 3 and isinstance(n.args[0], ast.Name)
                and n.args[0].id == self.cls and isinstance(n.args[1], ast.Constant)
                and n.args[1].value == FLAG_ADAPT and isinstance(n.args[2], ast.Constant)
                and n.args[2].value is False):
            return "getattr_flag"
        _fail(n, "unsupported flag condition")


def _mentions(node, flag):
    k = 0
    for n in ast.walk(node):
        if isinstance(n, ast.Constant) and n.value == flag:
            k += 1
        if isinstance(n, ast.Attribute) and n.attr == flag:
            k += 1
        if isinstance(n, ast.Name) and n.id == flag:
            k += 1
    return k


def _truthy_const(n):
    return isinstance(n, ast.Constant) and n.value in (1, True)


def _new_flag(new_fn):
    """InterfaceClass.__new__: the guard of ``needs_custom_class['_CALL_CUSTOM_ADAPT'] = 1``."""
    if not new_fn.args.args or new_fn.decorator_list:
        _fail(new_fn, "unexpected __new__ signature")
    cls = new_fn.args.args[0].arg
    if _mentions(new_fn, FLAG_PROV):
        _fail(new_fn, "__new__ mentions %s" % FLAG_PROV)
    stmts = _strip_doc(new_fn.body)
    # needs_custom_class = attrs.pop(INTERFACE_METHODS, None)
    var = None
    for st in stmts:
        if (isinstance(st, ast.Assign) and len(st.targets) == 1 and isinstance(st.targets[0], ast.Name)
                and isinstance(st.value, ast.Call) and isinstance(st.value.func, ast.Attribute)
                and st.value.func.attr == "pop" and len(st.value.args) == 2
                and isinstance(st.value.args[0], ast.Name) and st.value.args[0].id == "INTERFACE_METHODS"
                and isinstance(st.value.args[1], ast.Constant) and st.value.args[1].value is None):
            if var is not None:
                _fail(st, "INTERFACE_METHODS popped twice")
            var = st.targets[0].id
    if var is None:
        _fail(new_fn, "`x = attrs.pop(INTERFACE_METHODS, None)` not found at the top level of __new__")
    guards = [st for st in stmts if isinstance(st, ast.If) and isinstance(st.test, ast.Name) and st.test.id == var]
    if len(guards) != 1 or guards[0].orelse:
        _fail(new_fn, "expected exactly one top-level `if %s:` without else" % var)
    inner = guards[0].body
    found = []
    for st in inner:
        if _mentions(st, FLAG_ADAPT):
            found.append(st)
    if _mentions(new_fn, FLAG_ADAPT) != sum(_mentions(st, FLAG_ADAPT) for st in found):
        _fail(new_fn, "%s is mentioned outside the `if %s:` block" % (FLAG_ADAPT, var))
    if not found:
        return "false"
    if len(found) != 1 or not isinstance(found[0], ast.If) or found[0].orelse or len(found[0].body) != 1:
        _fail(found[0], "the flag is not set by a single `if <cond>: %s[...] = 1`" % var)
    setter = found[0].body[0]
    sl = setter.targets[0].slice if (isinstance(setter, ast.Assign) and len(setter.targets) == 1
                                     and isinstance(setter.targets[0], ast.Subscript)) else None
    if isinstance(sl, ast.Index):  # pragma: no cover
        sl = sl.value
    if not (sl is not None and isinstance(setter.targets[0].value, ast.Name) and setter.targets[0].value.id == var
            and isinstance(sl, ast.Constant) and sl.value == FLAG_ADAPT and _truthy_const(setter.value)):
        _fail(setter, "the guarded statement is not `%s['%s'] = 1`" % (var, FLAG_ADAPT))
    return _Flags(cls, var).cond(found[0].test)


WCM = "_InterfaceClassWithCustomMethods"


def _new_construction(new_fn, classes):
    """InterfaceClass.__new__: which class the new interface gets.
        needs_custom_class = attrs.pop(INTERFACE_METHODS, None)
        if needs_custom_class:
            ...
            if issubclass(cls, _InterfaceClassWithCustomMethods): cls_bases = (cls,)
            elif cls is InterfaceClass: cls_bases = (_InterfaceClassWithCustomMethods,)
            else: cls_bases = (cls, _InterfaceClassWithCustomMethods)
            cls = type(cls)(name + "<WithCustomMethods>", cls_bases, needs_custom_class)
        return _InterfaceClassBase.__new__(cls)
    -> Coq text of new_class_bases (cls_is_custom cls_is_interfaceclass : bool) : list cbase."""
    cls = new_fn.args.args[0].arg
    stmts = _strip_doc(new_fn.body)
    var = None
    for st in stmts:
        if (isinstance(st, ast.Assign) and len(st.targets) == 1 and isinstance(st.targets[0], ast.Name)
                and isinstance(st.value, ast.Call) and isinstance(st.value.func, ast.Attribute)
                and st.value.func.attr == "pop" and len(st.value.args) == 2
                and isinstance(st.value.args[0], ast.Name) and st.value.args[0].id == "INTERFACE_METHODS"):
            var = st.targets[0].id
    guard = [st for st in stmts if isinstance(st, ast.If) and isinstance(st.test, ast.Name) and st.test.id == var][0]
    # the last statement returns an instance of (the possibly replaced) cls
    last = stmts[-1]
    ok = (isinstance(last, ast.Return) and isinstance(last.value, ast.Call) and not last.value.keywords
          and isinstance(last.value.func, ast.Attribute) and last.value.func.attr == "__new__"
          and isinstance(last.value.func.value, ast.Name) and last.value.func.value.id == "_InterfaceClassBase"
          and len(last.value.args) == 1 and isinstance(last.value.args[0], ast.Name) and last.value.args[0].id == cls)
    if not ok:
        _fail(last, "__new__ does not end with `return _InterfaceClassBase.__new__(cls)`")
    # cls is assigned exactly once, inside the guard, and nowhere else
    assigns = [n for n in ast.walk(new_fn) if isinstance(n, ast.Assign)
               and any(isinstance(t, ast.Name) and t.id == cls for t in n.targets)]
    inner = [st for st in guard.body if st in assigns]
    if len(assigns) != 1 or len(inner) != 1:
        _fail(new_fn, "cls is not rebound exactly once, directly inside `if %s:`" % var)
    mk = inner[0].value
    ok = (isinstance(mk, ast.Call) and not mk.keywords and len(mk.args) == 3
          and isinstance(mk.func, ast.Call) and isinstance(mk.func.func, ast.Name) and mk.func.func.id == "type"
          and len(mk.func.args) == 1 and isinstance(mk.func.args[0], ast.Name) and mk.func.args[0].id == cls
          and isinstance(mk.args[1], ast.Name) and isinstance(mk.args[2], ast.Name) and mk.args[2].id == var)
    if not ok:
        _fail(inner[0], "the custom class is not created by `cls = type(cls)(<name>, <bases>, %s)`" % var)
    bases_var = mk.args[1].id
    # the if / elif / else that chooses the bases: directly inside the guard, before the creation
    choosers = [st for st in guard.body if isinstance(st, ast.If) and any(
        isinstance(n, ast.Name) and n.id == bases_var and isinstance(n.ctx, ast.Store) for n in ast.walk(st))]
    stores = [n for n in ast.walk(new_fn) if isinstance(n, ast.Name) and n.id == bases_var and isinstance(n.ctx, ast.Store)]
    if len(choosers) != 1 or guard.body.index(choosers[0]) > guard.body.index(inner[0]):
        _fail(new_fn, "expected one if/elif/else choosing %s before the class is created" % bases_var)

    def tup(n):
        if not isinstance(n, ast.Tuple) or not n.elts:
            _fail(n, "bases are not a non-empty tuple display")
        out = []
        for e in n.elts:
            if isinstance(e, ast.Name) and e.id == cls:
                out.append("CCls")
            elif isinstance(e, ast.Name) and e.id == WCM:
                out.append("CWcm")
            else:
                _fail(e, "unknown base of the custom class")
        return _clist(out)

    def cond(n):
        if (isinstance(n, ast.Call) and isinstance(n.func, ast.Name) and n.func.id == "issubclass" and not n.keywords
                and len(n.args) == 2 and isinstance(n.args[0], ast.Name) and n.args[0].id == cls
                and isinstance(n.args[1], ast.Name) and n.args[1].id == WCM):
            return "cls_is_custom"
        if (isinstance(n, ast.Compare) and len(n.ops) == 1 and isinstance(n.ops[0], ast.Is)
                and isinstance(n.left, ast.Name) and n.left.id == cls
                and isinstance(n.comparators[0], ast.Name) and n.comparators[0].id == "InterfaceClass"):
            return "cls_is_interfaceclass"
        _fail(n, "unsupported condition on cls")

    count = [0]

    def branch(body):
        if len(body) == 1 and isinstance(body[0], ast.If):
            return chain(body[0])
        if (len(body) == 1 and isinstance(body[0], ast.Assign) and len(body[0].targets) == 1
                and isinstance(body[0].targets[0], ast.Name) and body[0].targets[0].id == bases_var):
            count[0] += 1
            return tup(body[0].value)
        _fail(body[0] if body else new_fn, "branch does not just assign %s" % bases_var)

    def chain(st):
        if not st.orelse:
            _fail(st, "bases chooser without a final else")
        return "(if %s then %s else %s)" % (cond(st.test), branch(st.body), branch(st.orelse))

    text = chain(choosers[0])
    if count[0] != len(stores):
        _fail(new_fn, "%s is assigned outside the chooser" % bases_var)
    # _InterfaceClassWithCustomMethods(InterfaceClass) defines nothing
    if WCM not in classes:
        raise TranslationError("class %s not found" % WCM)
    w = classes[WCM]
    if [b.id for b in w.bases if isinstance(b, ast.Name)] != ["InterfaceClass"] or len(w.bases) != 1:
        raise TranslationError("%s is not a direct subclass of InterfaceClass only" % WCM)
    for st in _strip_doc(w.body):
        if not isinstance(st, ast.Pass):
            _fail(st, "%s has a non-empty body" % WCM)
    return text


def _isc_flags(isc_fn):
    """InterfaceClass.__init_subclass__ -> (cond for _CALL_CUSTOM_ADAPT, cond for _CALL_CUSTOM_PROVIDEDBY)."""
    if isc_fn is None:
        return "false", "false"
    a = isc_fn.args
    if len(a.args) != 1 or a.vararg or a.kwonlyargs or a.defaults or isc_fn.decorator_list:
        _fail(isc_fn, "unexpected __init_subclass__ signature")
    cls = a.args[0].arg
    stmts = _strip_doc(isc_fn.body)
    if not stmts:
        _fail(isc_fn, "empty __init_subclass__")
    first = stmts[0]
    ok = (isinstance(first, ast.Expr) and isinstance(first.value, ast.Call)
          and isinstance(first.value.func, ast.Attribute) and first.value.func.attr == "__init_subclass__"
          and isinstance(first.value.func.value, ast.Call) and isinstance(first.value.func.value.func, ast.Name)
          and first.value.func.value.func.id == "super" and not first.value.func.value.args)
    if not ok:
        _fail(first, "__init_subclass__ does not start with super().__init_subclass__(...)")
    conds = {}
    fl = _Flags(cls, None)
    for st in stmts[1:]:
        if not (isinstance(st, ast.If) and not st.orelse and len(st.body) == 1):
            _fail(st, "unsupported statement in __init_subclass__ (only `if <cond>: cls.<FLAG> = 1`)")
        setter = st.body[0]
        if not (isinstance(setter, ast.Assign) and len(setter.targets) == 1
                and isinstance(setter.targets[0], ast.Attribute) and isinstance(setter.targets[0].value, ast.Name)
                and setter.targets[0].value.id == cls and setter.targets[0].attr in (FLAG_ADAPT, FLAG_PROV)
                and _truthy_const(setter.value)):
            _fail(setter, "guarded statement is not `cls.<FLAG> = 1`")
        flag = setter.targets[0].attr
        if flag in conds:
            _fail(st, "%s set twice" % flag)
        conds[flag] = fl.cond(st.test)
    return conds.get(FLAG_ADAPT, "false"), conds.get(FLAG_PROV, "false")


# --------------------------------------------------------------------------- driver

HEADER = """(* GENERATED by harness/translate/adapt_py.py from %s -- do not edit.
   Regenerated on every run; Proofs/AdaptGen.v and Properties/C14.v are re-checked against it.
   call_body / adapt_body / call_conform_body: InterfaceBase.__call__, InterfaceBase.__adapt__ and
   InterfaceClass._call_conform as terms of the statement language of Model/PyKernel.v
   (EParam n = n-th parameter).  new_flag_adapt / isc_flag_*: when InterfaceClass.__new__ and
   InterfaceClass.__init_subclass__ set _CALL_CUSTOM_ADAPT / _CALL_CUSTOM_PROVIDEDBY. *)
From Coq Require Import List String Bool.
Import ListNotations.
From ZI Require Import Model.PyKernel.
Local Open Scope string_scope.
"""


def translate_source(text, origin="interface.py"):
    module = ast.parse(text)
    classes = _classes(module)
    call_fn = _single_method(classes, "InterfaceBase", "__call__")
    adapt_fn = _single_method(classes, "InterfaceBase", "__adapt__")
    conform_fn = _single_method(classes, "InterfaceClass", "_call_conform")
    new_fn = _single_method(classes, "InterfaceClass", "__new__")
    isc = _methods(classes["InterfaceClass"], "__init_subclass__")
    if len(isc) > 1:
        raise TranslationError("several InterfaceClass.__init_subclass__")
    # the kernels must not be overridden further down the class line
    for cname in ("InterfaceClass", "_InterfaceClassWithCustomMethods", "_InterfaceClassBase"):
        if cname in classes:
            for m in ("__call__", "__adapt__"):
                if _methods(classes[cname], m):
                    raise TranslationError("%s overrides %s" % (cname, m))
    if "_InterfaceClassWithCustomMethods" in classes and _methods(classes["_InterfaceClassWithCustomMethods"], "_call_conform"):
        raise TranslationError("_InterfaceClassWithCustomMethods overrides _call_conform")
    # the flags are only handled in __new__ / __init_subclass__
    for flag in (FLAG_ADAPT, FLAG_PROV):
        inside = _mentions(new_fn, flag) + sum(_mentions(f, flag) for f in isc)
        if _mentions(module, flag) != inside:
            raise TranslationError("%s is mentioned outside InterfaceClass.__new__/__init_subclass__" % flag)
    globals_ = _globals(module, call_fn)
    call_body = _Fn(call_fn, 3, globals_).body()
    adapt_body = _Fn(adapt_fn, 2, globals_).body()
    if conform_fn.args.defaults:
        _fail(conform_fn, "default in _call_conform")
    conform_body = _Fn(conform_fn, 2, globals_).body()
    if adapt_fn.args.defaults:
        _fail(adapt_fn, "default in __adapt__")
    new_flag = _new_flag(new_fn)
    new_bases = _new_construction(new_fn, classes)
    isc_adapt, isc_prov = _isc_flags(isc[0] if isc else None)
    lines = [HEADER % origin,
             "Definition call_body : list stmt :=\n  %s.\n" % call_body,
             "Definition adapt_body : list stmt :=\n  %s.\n" % adapt_body,
             "Definition call_conform_body : list stmt :=\n  %s.\n" % conform_body,
             "(* adapt_in_methods: '__adapt__' in the interfacemethods; getattr_flag: getattr(cls, FLAG, False) *)",
             "Definition new_flag_adapt (adapt_in_methods getattr_flag : bool) : bool :=\n  %s.\n" % new_flag,
             "(* the bases of the custom-methods class InterfaceClass.__new__ creates when the body has interfacemethods;\n"
             "   cls_is_custom: issubclass(cls, _InterfaceClassWithCustomMethods); cls_is_interfaceclass: cls is InterfaceClass *)",
             "Definition new_class_bases (cls_is_custom cls_is_interfaceclass : bool) : list cbase :=\n  %s.\n" % new_bases,
             "(* adapt_overridden: cls.__adapt__ is not InterfaceBase.__adapt__; prov_overridden likewise *)",
             "Definition isc_flag_adapt (adapt_overridden prov_overridden : bool) : bool :=\n  %s.\n" % isc_adapt,
             "Definition isc_flag_prov (adapt_overridden prov_overridden : bool) : bool :=\n  %s.\n" % isc_prov]
    return "\n".join(lines)


def translate_file(path):
    with open(path) as fh:
        return translate_source(fh.read(), origin=path)


# The text this framework was developed against (only the parts the translator reads).  Used only
# when the translation of the current source is refused, so that the Coq development still builds
# and the correspondence / Spec-oracle search still runs; the refusal itself is always an error.
PINNED_SOURCE = '''
import sys
_marker = object()
adapter_hooks = _use_c_impl([], 'adapter_hooks')


class InterfaceBase:

    def __call__(self, obj, alternate=_marker):
        try:
            conform = obj.__conform__
        except AttributeError:
            conform = None

        if conform is not None:
            adapter = self._call_conform(conform)
            if adapter is not None:
                return adapter

        adapter = self.__adapt__(obj)

        if adapter is not None:
            return adapter
        if alternate is not _marker:
            return alternate
        raise TypeError("Could not adapt", obj, self)

    def __adapt__(self, obj):
        if self.providedBy(obj):
            return obj

        for hook in adapter_hooks:
            adapter = hook(self, obj)
            if adapter is not None:
                return adapter

        return None


class InterfaceClass:

    def __init_subclass__(cls, **kwargs):
        super().__init_subclass__(**kwargs)
        if cls.__adapt__ is not InterfaceBase.__adapt__:
            cls._CALL_CUSTOM_ADAPT = 1
        if cls.providedBy is not Specification.providedBy:
            cls._CALL_CUSTOM_PROVIDEDBY = 1

    def __new__(cls, name=None, bases=(), attrs=None, __doc__=None, __module__=None):
        needs_custom_class = attrs.pop(INTERFACE_METHODS, None)
        if needs_custom_class:
            if (
                '__adapt__' in needs_custom_class or
                getattr(cls, '_CALL_CUSTOM_ADAPT', False)
            ):
                needs_custom_class['_CALL_CUSTOM_ADAPT'] = 1

            if issubclass(cls, _InterfaceClassWithCustomMethods):
                cls_bases = (cls,)
            elif cls is InterfaceClass:
                cls_bases = (_InterfaceClassWithCustomMethods,)
            else:
                cls_bases = (cls, _InterfaceClassWithCustomMethods)

            cls = type(cls)(name + "<WithCustomMethods>", cls_bases, needs_custom_class)

        return _InterfaceClassBase.__new__(cls)

    def _call_conform(self, conform):
        try:
            return conform(self)
        except TypeError:
            if sys.exc_info()[2].tb_next is not None:
                raise
        return None
'''


PINNED_SOURCE += '''

class _InterfaceClassWithCustomMethods(InterfaceClass):
    pass
'''


def pinned():
    return translate_source(PINNED_SOURCE, origin="<pinned copy in harness/translate/adapt_py.py>")


if __name__ == "__main__":  # python -m harness.translate.adapt_py /repo/src/zope/interface/interface.py
    import sys
    print(translate_file(sys.argv[1]))
