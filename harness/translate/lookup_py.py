"""Fail-closed translator: the cache layer of ``zope/interface/adapter.py`` -> ``coq/Gen/LookupPy.v``.

Translated (class, method -> Gallina name), over the vocabulary of Model/Lookup.v + Model/LookupPrims.v:

  LookupBase.changed -> py_lb_changed          LookupBase._getcache -> py_getcache
  LookupBase.lookup -> py_lookup               LookupBase.lookup1 -> py_lookup1
  LookupBase.adapter_hook -> py_adapter_hook   LookupBase.queryAdapter -> py_queryAdapter
  LookupBase.lookupAll -> py_lookupAll         LookupBase.subscriptions -> py_subscriptions
  AdapterLookupBase._subscribe -> py_subscribe AdapterLookupBase.changed -> py_changed
  AdapterLookupBase.queryMultiAdapter / names / subscribers -> py_queryMultiAdapter / py_names / py_subscribers

How: a small abstract interpreter over the statement shapes listed in ``_Tr`` (assignments, ``if`` on a
fixed set of tests, ``return``, ``raise ValueError``), with typed symbolic values; control flow
becomes ``match`` / ``if`` with the rest of the body copied into each branch.  Anything else raises
``TranslationError``: the caller reports a broken tie and falls back to the pinned kernel.

The abstraction (see Model/LookupPrims.v): nested cache dictionaries are handles into the flat maps of
the ``caches`` record; ``d.get(k)`` + ``if x is None: x = {}; d[k] = x`` is the handle constructor.
``self._uncached_lookup/_uncached_lookupAll/_uncached_subscriptions(...)`` are the parameters u_lookup /
u_lookupAll / u_subscriptions followed by the effect of ``self._subscribe(*required)`` - the translator
checks that each of these methods runs exactly that statement once, unconditionally, before its only
``return``.  ``providedBy(o)``, ``isinstance(o, super)``, ``o.__self__`` and calling a registered value are
o_provides / o_super_of / the oracle ``call``.  ``default`` is a token: "return default" is RDefault.

Ignored on purpose (single-threaded data semantics only): in AdapterLookupBase.changed the weak
reference dereference, ``r.unsubscribe(self)`` (the specification's dependents are not part of the
``caches`` record) and the try/except guards against concurrent callers - only "every recorded
subscription is taken out of _required" is kept; in _subscribe ``r.weakref()`` / ``r.subscribe(self)``.
These two methods are accepted only if their text equals the pinned text below.  VerifyingBase (the Python
twin of the C VB_* wrappers) is checked, not translated: _getcache / lookupAll / subscriptions must be
"self._verify(); return LookupBaseFallback.<same>(self, ...)" and no other entry point may be overridden, so that
every path into the caches verifies first (Model/RegSys.with_lookup).
"""
import ast
import os

from .. import common as C

SOURCE = os.path.join("src", "zope", "interface", "adapter.py")
OUT = os.path.join(C.COQ, "Gen", "LookupPy.v")
PINNED = os.path.join(os.path.dirname(__file__), "lookup_py.pinned.v")


class TranslationError(Exception):
    pass


def _fail(node, why):
    raise TranslationError("adapter.py:%s: %s: %s" % (
        getattr(node, "lineno", "?"), why, ast.dump(node)[:160] if isinstance(node, ast.AST) else node))


# methods accepted only verbatim (modulo comments / docstrings)
PINNED_SUBSCRIBE = '''
def _subscribe(self, *required):
    _refs = self._required
    for r in required:
        ref = r.weakref()
        if ref not in _refs:
            r.subscribe(self)
            _refs[ref] = 1
'''
PINNED_CHANGED = '''
def changed(self, ignored=None):
    super().changed(None)
    required = self._required
    while required:
        try:
            r, _ = required.popitem()
        except KeyError:
            break
        r = r()
        if r is not None:
            try:
                r.unsubscribe(self)
            except KeyError:
                pass
'''

PINNED_VERIFYING = '''
def _getcache(self, provided, name):
    self._verify()
    return LookupBaseFallback._getcache(self, provided, name)

def lookupAll(self, required, provided):
    self._verify()
    return LookupBaseFallback.lookupAll(self, required, provided)

def subscriptions(self, required, provided):
    self._verify()
    return LookupBaseFallback.subscriptions(self, required, provided)
'''

# (class, method, Gallina name, parameter kinds, result kind)
METHODS = [
    ("LookupBase", "changed", "py_lb_changed", ["ignored"], "state"),
    ("LookupBase", "_getcache", "py_getcache", ["spec", "str"], "handle"),
    ("AdapterLookupBase", "_subscribe", "py_subscribe", None, "state"),
    ("LookupBase", "lookup", "py_lookup", ["speclist", "spec", "namearg", "default"], "res_value"),
    ("LookupBase", "lookup1", "py_lookup1", ["spec", "spec", "namearg", "default"], "res_value"),
    ("LookupBase", "adapter_hook", "py_adapter_hook", ["spec", "obj", "namearg", "default"], "res_nat"),
    ("LookupBase", "queryAdapter", "py_queryAdapter", ["obj", "spec", "namearg", "default"], "res_nat"),
    ("LookupBase", "lookupAll", "py_lookupAll", ["speclist", "spec"], "pairs"),
    ("LookupBase", "subscriptions", "py_subscriptions", ["speclist", "ospec"], "values"),
    ("AdapterLookupBase", "queryMultiAdapter", "py_queryMultiAdapter", ["objlist", "spec", "namearg", "default"], "res_nat"),
    ("AdapterLookupBase", "names", "py_names", ["speclist", "spec"], "names"),
    ("AdapterLookupBase", "subscribers", "py_subscribers", ["objlist", "ospec"], "subscribers"),
    ("AdapterLookupBase", "changed", "py_changed", None, "state"),
]
BY_NAME = {}
for _c, _m, _g, _p, _r in METHODS:
    BY_NAME.setdefault(_m, (_g, _p, _r))      # LookupBase.changed is reached as super().changed
COQ_TYPE = {"spec": "spec", "str": "Adapter.name", "speclist": "list spec", "namearg": "name_arg", "obj": "obj",
            "objlist": "list obj", "ospec": "option spec"}
RET_TYPE = {"state": "caches", "handle": "handle", "res_value": "caches * res value", "res_nat": "caches * res nat",
            "pairs": "caches * list (Adapter.name * value)", "values": "caches * list value",
            "names": "caches * list Adapter.name", "subscribers": "caches * (list nat * list value)"}
UNCACHED = {"_uncached_lookup": ("u_lookup", ["speclist", "spec", "str"], ("opt", "value")),
            "_uncached_lookupAll": ("u_lookupAll", ["speclist", "spec"], ("pairs",)),
            "_uncached_subscriptions": ("u_subscriptions", ["speclist", "ospec"], ("values",))}
TOPS = {"_cache": "top", "_mcache": "mtop", "_scache": "stop"}


class V:
    """symbolic value: kind + Gallina expression (+ extras)"""

    def __init__(self, kind, e=None, **kw):
        self.kind, self.e = kind, e
        self.__dict__.update(kw)

    def __repr__(self):
        return "V(%s, %s)" % (self.kind, self.e)


class St:
    def __init__(self, env, c, called=None, supers=None):
        self.env, self.c, self.called, self.supers = dict(env), c, called, dict(supers or {})

    def copy(self):
        return St(self.env, self.c, self.called, self.supers)


def _is_none(n):
    return isinstance(n, ast.Constant) and n.value is None


def _self_attr(n, attr=None):
    return (isinstance(n, ast.Attribute) and isinstance(n.value, ast.Name) and n.value.id == "self"
            and (attr is None or n.attr == attr))


class _Tr:
    def __init__(self, gname, ret):
        self.gname, self.ret = gname, ret
        self.n = 0

    def fresh(self, base):
        self.n += 1
        return "%s%d" % (base, self.n)

    # ------------------------------------------------------------------ expressions (pure)
    def expr(self, n, st):
        if isinstance(n, ast.Name):
            if n.id == "_not_in_mapping":
                return V("sentinel")
            if n.id not in st.env:
                _fail(n, "unknown name")
            return st.env[n.id]
        if _is_none(n):
            return V("none")
        if isinstance(n, ast.Dict) and not n.keys:
            return V("emptydict")
        if isinstance(n, ast.Tuple) and not n.elts:
            return V("emptyseq")
        if isinstance(n, ast.List) and not n.elts:
            return V("emptyseq", mutable=True)
        if isinstance(n, ast.Tuple) and len(n.elts) == 1:
            x = self.expr(n.elts[0], st)
            if x.kind != "spec":
                _fail(n, "1-tuple of something that is not a specification")
            return V("speclist", "[%s]" % x.e)
        if isinstance(n, ast.Attribute):
            if _self_attr(n) and n.attr in TOPS:
                return V(TOPS[n.attr])
            if n.attr == "__self__":
                o = self.expr(n.value, st)
                if o.kind == "obj" and o.e in st.supers:
                    return V("objid", st.supers[o.e])
                _fail(n, "__self__ of something not known to be a super proxy")
            _fail(n, "unsupported attribute")
        if isinstance(n, ast.Subscript):
            x = self.expr(n.value, st)
            if x.kind == "speclist" and isinstance(n.slice, ast.Constant) and n.slice.value == 0:
                return V("spec", "(nth 0 %s 0)" % x.e)
            _fail(n, "unsupported subscript")
        if isinstance(n, ast.ListComp):
            return self.listcomp(n, st)
        if isinstance(n, ast.Call):
            return self.call(n, st)
        _fail(n, "unsupported expression")

    def listcomp(self, n, st):
        if len(n.generators) != 1 or n.generators[0].ifs or n.generators[0].is_async \
                or not isinstance(n.generators[0].target, ast.Name):
            _fail(n, "unsupported comprehension")
        g = n.generators[0]
        it = self.expr(g.iter, st)
        var = g.target.id
        if it.kind != "objlist":
            _fail(n, "comprehension over something that is not the object list")
        e = n.elt
        # [providedBy(o) for o in objects]
        if (isinstance(e, ast.Call) and isinstance(e.func, ast.Name) and e.func.id == "providedBy" and not e.keywords
                and len(e.args) == 1 and isinstance(e.args[0], ast.Name) and e.args[0].id == var):
            return V("speclist", "(map o_provides %s)" % it.e)
        # [o.__self__ if isinstance(o, super) else o for o in objects]
        if isinstance(e, ast.IfExp):
            t, a, b = e.test, e.body, e.orelse
            if (isinstance(t, ast.Call) and isinstance(t.func, ast.Name) and t.func.id == "isinstance" and len(t.args) == 2
                    and isinstance(t.args[0], ast.Name) and t.args[0].id == var
                    and isinstance(t.args[1], ast.Name) and t.args[1].id == "super"
                    and isinstance(a, ast.Attribute) and a.attr == "__self__" and isinstance(a.value, ast.Name)
                    and a.value.id == var and isinstance(b, ast.Name) and b.id == var):
                return V("idlist", "(map (fun o => match o_super_of o with Some u => u | None => o_id o end) %s)" % it.e)
        _fail(n, "unsupported comprehension element")

    def call(self, n, st):
        f = n.func
        if n.keywords:
            _fail(n, "keyword arguments")
        if isinstance(f, ast.Name):
            if f.id == "tuple" and len(n.args) == 1:
                x = self.expr(n.args[0], st)
                if x.kind != "speclist":
                    _fail(n, "tuple() of something that is not the required sequence")
                return x
            if f.id == "providedBy" and len(n.args) == 1:
                x = self.expr(n.args[0], st)
                if x.kind != "obj":
                    _fail(n, "providedBy of something that is not the object")
                return V("spec", "(o_provides %s)" % x.e)
            if f.id in st.env and st.env[f.id].kind == "val":       # calling a registered value
                return V("opt", "(call %s %s)" % (st.env[f.id].e, self.call_args(n, st)), of="nat")
            _fail(n, "unsupported call")
        if isinstance(f, ast.Attribute) and _self_attr(f, "_getcache") and len(n.args) == 2:
            p, nm = self.expr(n.args[0], st), self.expr(n.args[1], st)
            if p.kind != "spec" or nm.kind != "str":
                _fail(n, "_getcache(provided, name) with a name not known to be a string")
            return V("handle", "(py_getcache %s %s)" % (p.e, nm.e))
        if isinstance(f, ast.Attribute) and f.attr == "get":
            d = self.expr(f.value, st)
            if len(n.args) == 1:
                k = self.expr(n.args[0], st)
                if d.kind in ("top", "mtop", "stop", "sub"):
                    return V("maybe_child", parent=d, key=k, dnode=f.value, knode=n.args[0])
                _fail(n, "d.get(k) on something that is not a container of sub-dictionaries")
            if len(n.args) == 2 and self.expr(n.args[1], st).kind == "sentinel":
                k = self.expr(n.args[0], st)
                return self.leaf_get(n, d, k, st)
        _fail(n, "unsupported call")

    def call_args(self, n, st):
        """arguments a registered value is called with -> Gallina list of object ids"""
        if len(n.args) != 1:
            _fail(n, "registered values are called with one argument or *sequence")
        a = n.args[0]
        if isinstance(a, ast.Starred):
            x = self.expr(a.value, st)
            if x.kind == "idlist":
                return x.e
            if x.kind == "objlist":
                return "(map o_id %s)" % x.e
            _fail(n, "unsupported *arguments")
        x = self.expr(a, st)
        if x.kind == "obj":
            return "[o_id %s]" % x.e
        if x.kind == "objid":
            return "[%s]" % x.e
        _fail(n, "unsupported argument")

    def key(self, n, k):
        if k.kind == "spec":
            return "(CSingle %s)" % k.e
        if k.kind == "speclist":
            return "(CMulti %s)" % k.e
        _fail(n, "cache key is neither a specification nor the required tuple")

    def leaf_get(self, n, d, k, st):
        if d.kind in ("handle", "sub", "named"):
            return V("tri", "(h_get %s %s %s)" % (st.c, self.handle(n, d), self.key(n, k)), inner=("opt", "value"))
        if d.kind == "msub" and k.kind == "speclist":
            return V("tri", "(m_get %s %s %s)" % (st.c, d.e, k.e), inner=("pairs",))
        if d.kind == "ssub" and k.kind == "speclist":
            return V("tri", "(s_get %s %s %s)" % (st.c, d.e, k.e), inner=("values",))
        _fail(n, "d.get(k, _not_in_mapping) on an unsupported dictionary")

    def handle(self, n, d):
        if d.kind == "handle":
            return d.e
        if d.kind == "sub":
            return "(h_top %s)" % d.e
        if d.kind == "named":
            return "(h_named (h_top %s) %s)" % (d.e, d.n)
        _fail(n, "not a dictionary of cache entries")

    def child(self, n, parent, key):
        if parent.kind == "top" and key.kind == "spec":
            return V("sub", key.e)
        if parent.kind == "sub" and key.kind == "str":
            return V("named", parent.e, n=key.e)
        if parent.kind == "mtop" and key.kind == "spec":
            return V("msub", key.e)
        if parent.kind == "stop" and key.kind == "ospec":
            return V("ssub", key.e)
        _fail(n, "unsupported sub-dictionary")

    # ------------------------------------------------------------------ statements
    def tr(self, stmts, st, ind):
        if not stmts:
            if self.ret == "state":
                return "  " * ind + st.c
            raise TranslationError("%s: control can fall off the end of the method" % self.gname)
        s, rest = stmts[0], stmts[1:]
        if isinstance(s, ast.Expr) and isinstance(s.value, ast.Constant) and isinstance(s.value.value, str):
            return self.tr(rest, st, ind)
        if isinstance(s, ast.Return):
            return self.return_(s, st, ind)
        if isinstance(s, ast.Raise):
            return self.raise_(s, st, ind)
        if isinstance(s, ast.If):
            return self.if_(s, rest, st, ind)
        if isinstance(s, ast.Assign):
            return self.assign(s, rest, st, ind)
        if isinstance(s, ast.Expr):
            return self.exprstmt(s, rest, st, ind)
        if isinstance(s, ast.For):
            return self.for_(s, rest, st, ind)
        _fail(s, "unsupported statement")

    def raise_(self, s, st, ind):
        e = s.exc
        if not (s.cause is None and isinstance(e, ast.Call) and isinstance(e.func, ast.Name) and e.func.id == "ValueError"):
            _fail(s, "only 'raise ValueError(...)' is supported")
        if self.ret not in ("res_value", "res_nat"):
            _fail(s, "ValueError in a method whose result type has no error")
        return "  " * ind + "(%s, RValueError)" % st.c

    def return_(self, s, st, ind):
        pad = "  " * ind
        r = self.ret
        if s.value is None:
            if r == "state":
                return pad + st.c
            _fail(s, "bare return")
        # tail call / call-returning forms first
        if isinstance(s.value, ast.Call) and isinstance(s.value.func, ast.Attribute) and _self_attr(s.value.func) \
                and s.value.func.attr in BY_NAME and s.value.func.attr != "_getcache":
            term, cret, has_default = self.method_call(s.value, st)
            if cret != r or not has_default:
                _fail(s, "returning the result of a method of another result type / without passing default on")
            return pad + term
        if r == "names" and isinstance(s.value, ast.ListComp):
            lc = s.value
            g = lc.generators[0] if len(lc.generators) == 1 else None
            if (g is not None and not g.ifs and isinstance(g.target, ast.Name) and isinstance(lc.elt, ast.Subscript)
                    and isinstance(lc.elt.value, ast.Name) and lc.elt.value.id == g.target.id
                    and isinstance(lc.elt.slice, ast.Constant) and lc.elt.slice.value == 0
                    and isinstance(g.iter, ast.Call) and isinstance(g.iter.func, ast.Attribute) and _self_attr(g.iter.func, "lookupAll")):
                term, cret, _d = self.method_call(g.iter, st)
                c1, x = self.fresh("c"), self.fresh("v_all")
                return pad + "let '(%s, %s) := %s in (%s, map fst %s)" % (c1, x, term, c1, x)
            _fail(s, "unsupported comprehension in return")
        v = self.expr(s.value, st)
        if r == "handle":
            return pad + self.handle(s, v)
        if r in ("res_value", "res_nat"):
            if v.kind == "default":
                return pad + "(%s, RDefault)" % st.c
            if (r == "res_value" and v.kind == "val") or (r == "res_nat" and v.kind == "nat"):
                return pad + "(%s, RVal %s)" % (st.c, v.e)
            _fail(s, "returning a value that may be None / is not a result (kind %s)" % v.kind)
        if (r == "pairs" and v.kind == "pairs") or (r == "values" and v.kind == "values"):
            return pad + "(%s, %s)" % (st.c, v.e)
        if r == "subscribers":
            if st.called is None:
                _fail(s, "subscribers returns without having called the subscriptions")
            if v.kind == "emptyseq":
                return pad + "(%s, ([], %s))" % (st.c, st.called)
            if v.kind == "nats":
                return pad + "(%s, (%s, %s))" % (st.c, v.e, st.called)
        _fail(s, "unsupported return value (kind %s) for result type %s" % (v.kind, r))

    def method_call(self, n, st):
        """self.<generated method>(args) -> (Gallina application, result kind, default passed on?)"""
        gname, kinds, rkind = BY_NAME[n.func.attr]
        if n.keywords or any(isinstance(a, ast.Starred) for a in n.args):
            _fail(n, "keyword / star arguments in a method call")
        args = [self.expr(a, st) for a in n.args]
        has_default = False
        out = []
        for i, k in enumerate(kinds):
            if i >= len(args):
                if k == "default":
                    continue
                if k == "namearg":
                    out.append("(NStr 0)")       # name='' omitted
                    continue
                _fail(n, "missing argument %d" % i)
            a = args[i]
            if k == "default":
                if a.kind != "default":
                    _fail(n, "the default argument is not the caller's default")
                has_default = True
            elif k == "namearg":
                out.append(a.e if a.kind == "namearg" else "(NStr %s)" % a.e if a.kind == "str" else _fail(n, "name argument"))
            elif a.kind == k:
                out.append(a.e)
            else:
                _fail(n, "argument %d has kind %s, expected %s" % (i, a.kind, k))
        if len(args) > len(kinds):
            _fail(n, "too many arguments")
        return "%s %s %s" % (gname, st.c, " ".join(out)), rkind, has_default

    def assign(self, s, rest, st, ind):
        pad = "  " * ind
        if len(s.targets) != 1:
            _fail(s, "multiple assignment targets")
        t, v = s.targets[0], s.value
        if isinstance(t, ast.Subscript):
            d, k, x = self.expr(t.value, st), self.expr(t.slice, st), self.expr(v, st)
            c1 = self.fresh("c")
            if d.kind in ("handle", "sub", "named") and x.kind == "opt" and x.of == "value":
                line = "let %s := h_set %s %s %s %s in" % (c1, st.c, self.handle(s, d), self.key(s, k), x.e)
            elif d.kind == "msub" and k.kind == "speclist" and x.kind == "pairs":
                line = "let %s := m_set %s %s %s %s in" % (c1, st.c, d.e, k.e, x.e)
            elif d.kind == "ssub" and k.kind == "speclist" and x.kind == "values":
                line = "let %s := s_set %s %s %s %s in" % (c1, st.c, d.e, k.e, x.e)
            else:
                _fail(s, "unsupported store %s[%s] = %s" % (d.kind, k.kind, x.kind))
            st = st.copy()
            st.c = c1
            return pad + line + "\n" + self.tr(rest, st, ind)
        if not isinstance(t, ast.Name):
            _fail(s, "unsupported assignment target")
        x = t.id
        # self._uncached_*(...)
        if isinstance(v, ast.Call) and isinstance(v.func, ast.Attribute) and _self_attr(v.func) and v.func.attr in UNCACHED:
            fn, kinds, rk = UNCACHED[v.func.attr]
            if v.keywords or len(v.args) != len(kinds):
                _fail(v, "unexpected arguments of %s" % v.func.attr)
            args = [self.expr(a, st) for a in v.args]
            for a, k in zip(args, kinds):
                if a.kind != k:
                    _fail(v, "argument of kind %s, expected %s" % (a.kind, k))
            var, c1 = self.fresh("v_" + x), self.fresh("c")
            st = st.copy()
            st.env[x] = V(rk[0], var, of=rk[1]) if rk[0] == "opt" else V(rk[0], var)
            lines = "%slet %s := %s %s in\n%slet %s := py_subscribe %s %s in\n" % (
                pad, var, fn, " ".join(a.e for a in args), pad, c1, st.c, args[0].e)
            st.c = c1
            return lines + self.tr(rest, st, ind)
        # self.<method>(...)
        if isinstance(v, ast.Call) and isinstance(v.func, ast.Attribute) and _self_attr(v.func) \
                and v.func.attr in BY_NAME and v.func.attr != "_getcache":
            term, rk, has_default = self.method_call(v, st)
            c1 = self.fresh("c")
            if rk in ("pairs", "values"):
                var = self.fresh("v_" + x)
                st = st.copy()
                st.env[x] = V(rk, var)
                st.c = c1
                return "%slet '(%s, %s) := %s in\n" % (pad, c1, var, term) + self.tr(rest, st, ind)
            if rk == "res_value" and not has_default:
                # the call returns the value or None (default=None); a ValueError propagates
                var, r = self.fresh("v_" + x), self.fresh("r")
                s_v, s_n = st.copy(), st.copy()
                s_v.c = s_n.c = c1
                s_v.env[x] = V("val", var)
                s_n.env[x] = V("none")
                return ("%slet '(%s, %s) := %s in\n%smatch %s with\n%s| RVal %s =>\n%s\n%s| RDefault =>\n%s\n%s| RValueError => (%s, RValueError)\n%send"
                        % (pad, c1, r, term, pad, r, pad, var, self.tr(rest, s_v, ind + 1), pad, self.tr(rest, s_n, ind + 1),
                           pad, c1, pad))
            _fail(s, "result of this method call cannot be bound to a variable")
        val = self.expr(v, st)
        if val.kind == "maybe_child":
            # x = d.get(k) ; if x is None: x = {} ; d[k] = x      ==> the sub-dictionary handle
            nxt = rest[0] if rest else None
            ok = (isinstance(nxt, ast.If) and not nxt.orelse and isinstance(nxt.test, ast.Compare)
                  and len(nxt.test.ops) == 1 and isinstance(nxt.test.ops[0], ast.Is)
                  and isinstance(nxt.test.left, ast.Name) and nxt.test.left.id == x and _is_none(nxt.test.comparators[0])
                  and len(nxt.body) == 2
                  and isinstance(nxt.body[0], ast.Assign) and len(nxt.body[0].targets) == 1
                  and isinstance(nxt.body[0].targets[0], ast.Name) and nxt.body[0].targets[0].id == x
                  and isinstance(nxt.body[0].value, ast.Dict) and not nxt.body[0].value.keys
                  and isinstance(nxt.body[1], ast.Assign) and len(nxt.body[1].targets) == 1
                  and isinstance(nxt.body[1].targets[0], ast.Subscript)
                  and ast.dump(nxt.body[1].targets[0].value) == ast.dump(val.dnode)
                  and ast.dump(nxt.body[1].targets[0].slice) == ast.dump(val.knode)
                  and isinstance(nxt.body[1].value, ast.Name) and nxt.body[1].value.id == x)
            if not ok:
                _fail(s, "d.get(k) not followed by 'if x is None: x = {}; d[k] = x'")
            st = st.copy()
            st.env[x] = self.child(s, val.parent, val.key)
            return self.tr(rest[1:], st, ind)
        st = st.copy()
        if val.kind == "opt" and val.of == "nat":            # keep calls of the oracle shared
            var = self.fresh("v_" + x)
            st.env[x] = V("opt", var, of="nat")
            return "%slet %s := %s in\n" % (pad, var, val.e) + self.tr(rest, st, ind)
        st.env[x] = val
        return self.tr(rest, st, ind)

    def exprstmt(self, s, rest, st, ind):
        v = s.value
        if isinstance(v, ast.Call) and isinstance(v.func, ast.Attribute) and v.func.attr == "clear" and not v.args \
                and _self_attr(v.func.value) and v.func.value.attr in TOPS:
            st = st.copy()
            st.env["#cleared"] = V("set", sorted(set(getattr(st.env.get("#cleared"), "e", [])) | {v.func.value.attr}))
            if st.env["#cleared"].e == sorted(TOPS):
                c1 = self.fresh("c")
                line = "  " * ind + "let %s := clear_caches %s in\n" % (c1, st.c)
                st.c = c1
                del st.env["#cleared"]
                return line + self.tr(rest, st, ind)
            if not rest:
                _fail(s, "only some of the three caches are cleared")
            return self.tr(rest, st, ind)
        _fail(s, "unsupported expression statement")

    def for_(self, s, rest, st, ind):
        """the two loops of subscribers()"""
        if s.orelse or not isinstance(s.target, ast.Name) or self.ret != "subscribers":
            _fail(s, "unsupported loop")
        it = self.expr(s.iter, st)
        if it.kind != "values" or st.called is not None:
            _fail(s, "loop over something that is not the subscriptions")
        sub = s.target.id

        def is_call(n):
            return (isinstance(n, ast.Call) and isinstance(n.func, ast.Name) and n.func.id == sub and not n.keywords
                    and len(n.args) == 1 and isinstance(n.args[0], ast.Starred)
                    and self.expr(n.args[0].value, st).kind == "objlist")

        st = st.copy()
        st.called = it.e
        b = s.body
        if len(b) == 1 and isinstance(b[0], ast.Expr) and is_call(b[0].value):
            return self.tr(rest, st, ind)
        if (len(b) == 2 and isinstance(b[0], ast.Assign) and len(b[0].targets) == 1 and isinstance(b[0].targets[0], ast.Name)
                and is_call(b[0].value) and isinstance(b[1], ast.If) and not b[1].orelse and len(b[1].body) == 1):
            x = b[0].targets[0].id
            t, a = b[1].test, b[1].body[0]
            if (isinstance(t, ast.Compare) and len(t.ops) == 1 and isinstance(t.ops[0], ast.IsNot)
                    and isinstance(t.left, ast.Name) and t.left.id == x and _is_none(t.comparators[0])
                    and isinstance(a, ast.Expr) and isinstance(a.value, ast.Call) and isinstance(a.value.func, ast.Attribute)
                    and a.value.func.attr == "append" and isinstance(a.value.func.value, ast.Name)
                    and len(a.value.args) == 1 and isinstance(a.value.args[0], ast.Name) and a.value.args[0].id == x):
                acc = a.value.func.value.id
                cur = st.env.get(acc)
                if cur is None or cur.kind != "emptyseq" or not getattr(cur, "mutable", False):
                    _fail(s, "results are appended to something that is not a fresh list")
                objs = self.expr(b[0].value.args[0].value, st)
                st.env[acc] = V("nats", "(flat_map (fun f => match call f (map o_id %s) with Some r => [r] | None => [] end) %s)"
                                % (objs.e, it.e))
                return self.tr(rest, st, ind)
        _fail(s, "unsupported loop body")

    # ------------------------------------------------------------------ conditions
    def if_(self, s, rest, st, ind):
        pad = "  " * ind
        t, neg = s.test, False
        while isinstance(t, ast.UnaryOp) and isinstance(t.op, ast.Not):
            t, neg = t.operand, not neg
        yes, no = (s.orelse, s.body) if neg else (s.body, s.orelse)      # branches for "t holds" / "t fails"

        def go(stmts, st2, extra=1):
            return self.tr(list(stmts) + list(rest), st2, ind + extra)

        # isinstance(x, str) / isinstance(x, super)
        if isinstance(t, ast.Call) and isinstance(t.func, ast.Name) and t.func.id == "isinstance" and len(t.args) == 2 \
                and isinstance(t.args[0], ast.Name) and isinstance(t.args[1], ast.Name) and not t.keywords:
            x, cls = t.args[0].id, t.args[1].id
            v = self.expr(t.args[0], st)
            if cls == "str" and v.kind == "namearg":
                var = self.fresh("v_%s_s" % x)
                s_yes = st.copy()
                s_yes.env[x] = V("str", var)
                s_no = st.copy()
                s_no.env[x] = V("notastring")
                return "%smatch %s with\n%s| NotAString =>\n%s\n%s| NStr %s =>\n%s\n%send" % (
                    pad, v.e, pad, go(no, s_no), pad, var, go(yes, s_yes), pad)
            if cls == "str" and v.kind == "str":
                return go(yes, st, 0)
            if cls == "super" and v.kind == "obj":
                var = self.fresh("v_%s_self" % x)
                s_yes = st.copy()
                s_yes.supers[v.e] = var
                return "%smatch o_super_of %s with\n%s| Some %s =>\n%s\n%s| None =>\n%s\n%send" % (
                    pad, v.e, pad, var, go(yes, s_yes), pad, go(no, st), pad)
            _fail(s, "unsupported isinstance test")
        if isinstance(t, ast.Compare) and len(t.ops) == 1 and len(t.comparators) == 1:
            op, l, r = t.ops[0], t.left, t.comparators[0]
            if isinstance(op, (ast.Is, ast.IsNot)) and isinstance(l, ast.Name):
                if isinstance(op, ast.IsNot):
                    yes, no = no, yes
                v = self.expr(l, st)
                rv = self.expr(r, st)
                x = l.id
                if rv.kind == "sentinel" and v.kind == "tri":
                    var = self.fresh("v_" + x)
                    s_hit = st.copy()
                    s_hit.env[x] = V(v.inner[0], var, of=v.inner[1]) if v.inner[0] == "opt" else V(v.inner[0], var)
                    s_miss = st.copy()
                    s_miss.env[x] = V("sentinel")
                    return "%smatch %s with\n%s| None =>\n%s\n%s| Some %s =>\n%s\n%send" % (
                        pad, v.e, pad, go(yes, s_miss), pad, var, go(no, s_hit), pad)
                if rv.kind == "sentinel" and v.kind in ("opt", "val", "none", "pairs", "values"):
                    return go(no, st, 0)
                if rv.kind == "none":
                    if v.kind == "none":
                        return go(yes, st, 0)
                    if v.kind in ("val", "nat"):
                        return go(no, st, 0)
                    if v.kind == "opt":
                        var = self.fresh("v_" + x)
                        s_some = st.copy()
                        s_some.env[x] = V("val" if v.of == "value" else "nat", var)
                        s_none = st.copy()
                        s_none.env[x] = V("none")
                        return "%smatch %s with\n%s| None =>\n%s\n%s| Some %s =>\n%s\n%send" % (
                            pad, v.e, pad, go(yes, s_none), pad, var, go(no, s_some), pad)
                    if v.kind == "ospec":
                        var = self.fresh("v_" + x)
                        return "%smatch %s with\n%s| None =>\n%s\n%s| Some %s =>\n%s\n%send" % (
                            pad, v.e, pad, go(yes, st), pad, var, go(no, st), pad)
                _fail(s, "unsupported identity test (%s is %s)" % (v.kind, rv.kind))
            if isinstance(op, ast.Eq) and isinstance(l, ast.Call) and isinstance(l.func, ast.Name) and l.func.id == "len" \
                    and len(l.args) == 1 and isinstance(r, ast.Constant) and r.value == 1:
                v = self.expr(l.args[0], st)
                if v.kind != "speclist":
                    _fail(s, "len() of something that is not the required sequence")
                return "%sif Nat.eqb (length %s) 1 then\n%s\n%selse\n%s" % (pad, v.e, go(yes, st), pad, go(no, st))
        if isinstance(t, ast.Name):
            v = self.expr(t, st)
            if v.kind == "str":
                return "%sif str_truthy %s then\n%s\n%selse\n%s" % (pad, v.e, go(yes, st), pad, go(no, st))
        _fail(s, "unsupported condition")


def _strip_doc(body):
    if body and isinstance(body[0], ast.Expr) and isinstance(body[0].value, ast.Constant) and isinstance(body[0].value.value, str):
        return body[1:]
    return body


def _same_text(fn, pinned):
    want = ast.parse(pinned).body[0]
    a = ast.dump(ast.Module(body=_strip_doc(fn.body), type_ignores=[]))
    b = ast.dump(ast.Module(body=_strip_doc(want.body), type_ignores=[]))
    return a == b and ast.dump(fn.args) == ast.dump(want.args) and not fn.decorator_list


def _check_uncached(cls):
    """every _uncached_* runs self._subscribe(*required) exactly once, unconditionally, before its only return"""
    for name in UNCACHED:
        fn = _method(cls, name)
        body = _strip_doc(fn.body)
        req = fn.args.args[1].arg if len(fn.args.args) > 1 else None
        rets = [n for n in ast.walk(fn) if isinstance(n, ast.Return)]
        subs = [n for n in ast.walk(fn) if isinstance(n, ast.Call) and isinstance(n.func, ast.Attribute)
                and n.func.attr == "_subscribe"]
        ok = (len(body) >= 3 and len(rets) == 1 and body[-1] is rets[0] and len(subs) == 1
              and isinstance(body[-2], ast.Expr) and body[-2].value is subs[0] and _self_attr(subs[0].func)
              and len(subs[0].args) == 1 and isinstance(subs[0].args[0], ast.Starred)
              and isinstance(subs[0].args[0].value, ast.Name) and subs[0].args[0].value.id == req and not subs[0].keywords
              and not any(isinstance(n, (ast.Raise, ast.Yield, ast.YieldFrom)) for n in ast.walk(fn)))
        # 'required' may only be rebound to tuple(required)
        for n in ast.walk(fn):
            if isinstance(n, ast.Assign) and any(isinstance(t, ast.Name) and t.id == req for t in n.targets):
                v = n.value
                if not (isinstance(v, ast.Call) and isinstance(v.func, ast.Name) and v.func.id == "tuple" and len(v.args) == 1
                        and isinstance(v.args[0], ast.Name) and v.args[0].id == req):
                    ok = False
        if not ok:
            _fail(fn, "%s does not end with 'self._subscribe(*required); return ...'" % name)


def _class(module, name):
    found = [n for n in module.body if isinstance(n, ast.ClassDef) and n.name == name]
    if len(found) != 1:
        raise TranslationError("expected exactly one module-level class %s" % name)
    return found[0]


def _method(cls, name):
    found = [n for n in cls.body if isinstance(n, ast.FunctionDef) and n.name == name]
    if len(found) != 1:
        raise TranslationError("expected exactly one method %s.%s" % (cls.name, name))
    return found[0]


def _params(fn, kinds):
    a = fn.args
    if a.vararg or a.kwarg or a.kwonlyargs or getattr(a, "posonlyargs", None) or fn.decorator_list:
        _fail(fn, "unexpected parameter list")
    names = [x.arg for x in a.args]
    if len(names) != len(kinds) + 1 or names[0] != "self":
        _fail(fn, "unexpected parameters %r" % names)
    # defaults: name='' and default=None (and changed(ignored=None))
    want = [{"namearg": "", "default": None, "ignored": None}[k] for k in kinds if k in ("namearg", "default", "ignored")]
    got = [d.value if isinstance(d, ast.Constant) else _fail(d, "non-constant default") for d in a.defaults]
    if got != want:
        _fail(fn, "unexpected default values %r (expected %r)" % (got, want))
    return names[1:]


def translate_source(text, origin="adapter.py"):
    module = ast.parse(text)
    classes = {"LookupBase": _class(module, "LookupBase"), "AdapterLookupBase": _class(module, "AdapterLookupBase")}
    # the MRO the model assumes: AdapterLookup(AdapterLookupBase, LookupBase)
    al = _class(module, "AdapterLookup")
    if [b.id for b in al.bases if isinstance(b, ast.Name)] != ["AdapterLookupBase", "LookupBase"] or len(al.bases) != 2:
        _fail(al, "AdapterLookup bases changed")
    for cname, cls in classes.items():
        translated = {m for c, m, _g, _p, _r in METHODS if c == cname}
        for n in cls.body:
            if isinstance(n, ast.FunctionDef) and n.name in BY_NAME and n.name not in translated and n.name != "__init__":
                _fail(n, "%s overrides %s" % (cname, n.name))
    _check_uncached(classes["AdapterLookupBase"])
    # VerifyingBase: every path into the caches runs self._verify() first (lookup / lookup1 / adapter_hook reach
    # them through _getcache only, which the translation above establishes for LookupBase); nothing else overridden
    vb = _class(module, "VerifyingBase")
    allowed = {"changed", "_verify", "_getcache", "lookupAll", "subscriptions"}
    for n in vb.body:
        if isinstance(n, ast.FunctionDef) and n.name not in allowed:
            _fail(n, "VerifyingBase defines %s" % n.name)
    for want in ast.parse(PINNED_VERIFYING).body:
        if not _same_text(_method(vb, want.name), ast.unparse(want)):
            _fail(_method(vb, want.name), "VerifyingBase.%s differs from 'self._verify(); return LookupBaseFallback.%s(...)'"
                  % (want.name, want.name))
    out = ["(* GENERATED by harness/translate/lookup_py.py from %s -- do not edit." % origin,
           "   Regenerated on every run; Proofs/LookupGen.v re-proves it equal to Model/Lookup.v. *)",
           "From Coq Require Import List Arith Bool.", "Import ListNotations.",
           "From ZI Require Import Model.Ro Model.Adapter Model.Lookup Model.CLookup Model.LookupPrims.", "",
           "Section GenPy.",
           "  Variable u_lookup : list spec -> spec -> Adapter.name -> option value.",
           "  Variable u_lookupAll : list spec -> spec -> list (Adapter.name * value).",
           "  Variable u_subscriptions : list spec -> option spec -> list value.",
           "  Variable call : value -> list nat -> option nat.", ""]
    for cname, mname, gname, kinds, ret in METHODS:
        fn = _method(classes[cname], mname)
        out.append("  (* %s.%s, line %d *)" % (cname, mname, fn.lineno))
        if mname == "_subscribe":
            if not _same_text(fn, PINNED_SUBSCRIBE):
                _fail(fn, "_subscribe differs from the accepted text")
            out += ["  Definition py_subscribe (c : caches) (v_required : list spec) : caches :=",
                    "    set_required c (fold_left (fun refs r => if mem r refs then refs else refs ++ [r]) v_required (c_required c)).", ""]
            continue
        if gname == "py_changed":
            if not _same_text(fn, PINNED_CHANGED):
                _fail(fn, "AdapterLookupBase.changed differs from the accepted text")
            out += ["  Definition py_changed (c : caches) : caches :=", "    set_required (py_lb_changed c) [].", ""]
            continue
        names = _params(fn, kinds)
        tr = _Tr(gname, ret)
        env, sig = {}, []
        for nm, k in zip(names, kinds):
            if k == "default":
                env[nm] = V("default")
            elif k == "ignored":
                env[nm] = V("ignored")
            else:
                env[nm] = V(k, "v_" + nm)
                sig.append("(v_%s : %s)" % (nm, COQ_TYPE[k]))
        body = tr.tr(list(fn.body), St(env, "c"), 2)
        head = "(c : caches) " if ret != "handle" else ""
        out.append("  Definition %s %s%s : %s :=" % (gname, head, " ".join(sig), RET_TYPE[ret]))
        out.append(body + ".")
        out.append("")
    out += ["End GenPy.", ""]
    return "\n".join(out)


def translate_file(path):
    with open(path) as fh:
        return translate_source(fh.read(), origin=path)


def regenerate(repo=None):
    """Write coq/Gen/LookupPy.v; -> list of error strings (refusal = pinned kernel + error)."""
    path = os.path.join(repo or C.REPO, SOURCE)
    try:
        C.write_if_changed(OUT, translate_file(path))
        return []
    except Exception as e:  # noqa: refuse, report, keep the pipeline alive on the pinned kernel
        C.write_if_changed(OUT, open(PINNED).read())
        return ["harness/translate/lookup_py.py refused %s (%s: %s); coq/Gen/LookupPy.v holds the pinned kernel, so the "
                "generated-kernel theorems are NOT about the current source" % (path, type(e).__name__, e)]


if __name__ == "__main__":  # python -m harness.translate.lookup_py [/repo]
    import sys
    print(translate_file(os.path.join(sys.argv[1] if len(sys.argv) > 1 else C.REPO, SOURCE)))
