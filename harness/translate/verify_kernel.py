"""Fail-closed translator: ``zope/interface/verify.py`` (``_verify``, ``_verify_element``,
``verifyClass``, ``verifyObject``) and ``zope/interface/interface.py`` (``fromMethod`` and the
default ``imlevel`` of ``fromFunction``)  ->  ``coq/Gen/VerifyKernel.v``.

The output is Gallina over the vocabulary of ``coq/Model/Verify.v``: an interface element is
``(n, d, a) : elem`` (name number, description, what ``getattr(candidate, name)`` gives), every
Python test on an object becomes one of the vocabulary predicates

    vtype == 'c'                         vtype_is_c vt
    isinstance(desc, Method)             desc_is_method d
    getattr(candidate, name) raising     getattr_raises a          (the try/except AttributeError)
    inspect.ismethoddescriptor(attr)     attr_ismethoddescriptor a
    inspect.isbuiltin(attr)              attr_isbuiltin a
    isinstance(attr, FunctionType)       attr_is_FunctionType a
    isinstance(attr, MethodTypes)        attr_is_MethodTypes a
    type(attr.__func__) is FunctionType  attr_func_is_FunctionType a
    isinstance(attr, property)           attr_is_property a
    callable(attr)                       attr_callable a
    isinstance(candidate, type)          cand_is_type
    tester(candidate)                    implemented_by / provided_by (whichever was selected)

statements become an expression of type ``option err`` (``_verify_element``: None = returns) or
``outcome`` (``_verify``); ``raise X(...)`` becomes the matching constructor after the argument
list has been checked; the for/try/except-append loop becomes ``collect``.

Only the AST shapes handled below are accepted.  Anything else raises ``TranslationError``.
What is NOT translated (stays hand-modelled in Model/Verify.v): the arithmetic inside
``fromFunction`` (``from_function``; C18 regenerates it in its own vocabulary), the meaning of
the vocabulary predicates on the candidate description, and ``namesAndDescriptions`` (C15).
"""
import ast

from .incompat import TranslationError

NOT_A_METHOD = "implementation is not a method"


def _fail(node, why):
    raise TranslationError("%s: %s: %s" % (
        getattr(node, "lineno", "?"), why, ast.dump(node)[:240] if isinstance(node, ast.AST) else node))


def _is_name(node, ident=None):
    return isinstance(node, ast.Name) and isinstance(node.ctx, ast.Load) and (ident is None or node.id == ident)


def _const(node, value):
    return isinstance(node, ast.Constant) and type(node.value) is type(value) and node.value == value


def _strip_doc(stmts):
    stmts = list(stmts)
    if stmts and isinstance(stmts[0], ast.Expr) and isinstance(stmts[0].value, ast.Constant) \
            and isinstance(stmts[0].value.value, str):
        return stmts[1:]
    return stmts


def _plain_params(fn, names, defaults):
    """positional-or-keyword parameters exactly ``names`` with trailing literal ``defaults``"""
    a = fn.args
    if a.vararg or a.kwarg or a.kwonlyargs or a.kw_defaults or getattr(a, "posonlyargs", None) or fn.decorator_list:
        _fail(fn, "unexpected parameter kinds / decorators on %s" % fn.name)
    if [x.arg for x in a.args] != list(names):
        _fail(fn, "parameters of %s are not %r" % (fn.name, names))
    if len(a.defaults) != len(defaults):
        _fail(fn, "defaults of %s changed" % fn.name)
    for d, want in zip(a.defaults, defaults):
        if not (isinstance(d, ast.Constant) and type(d.value) is type(want) and d.value == want):
            _fail(fn, "defaults of %s changed" % fn.name)


# --------------------------------------------------------------------------- module environment

VERIFY_IMPORTS = {
    # name -> (module, original name) that must be bound exactly once, by this import
    "FunctionType": ("types", "FunctionType"),
    "MethodType": ("types", "MethodType"),
    "BrokenImplementation": ("zope.interface.exceptions", "BrokenImplementation"),
    "BrokenMethodImplementation": ("zope.interface.exceptions", "BrokenMethodImplementation"),
    "DoesNotImplement": ("zope.interface.exceptions", "DoesNotImplement"),
    "Invalid": ("zope.interface.exceptions", "Invalid"),
    "MultipleInvalid": ("zope.interface.exceptions", "MultipleInvalid"),
    "Method": ("zope.interface.interface", "Method"),
    "fromFunction": ("zope.interface.interface", "fromFunction"),
    "fromMethod": ("zope.interface.interface", "fromMethod"),
}
BUILTINS_USED = ["isinstance", "getattr", "callable", "property", "type", "len", "AttributeError", "True", "False"]
FUNCS = ["_verify", "_verify_element", "verifyClass", "verifyObject", "_incompat"]


def _bindings(module, allow_global=False):
    """every name bound anywhere in the module -> number of binding sites"""
    count = {}

    def add(n):
        count[n] = count.get(n, 0) + 1

    for node in ast.walk(module):
        if isinstance(node, ast.Name) and not isinstance(node.ctx, ast.Load):
            add(node.id)
        elif isinstance(node, (ast.FunctionDef, ast.AsyncFunctionDef, ast.ClassDef)):
            add(node.name)
        elif isinstance(node, (ast.Import, ast.ImportFrom)):
            for al in node.names:
                add((al.asname or al.name).split(".")[0])
        elif isinstance(node, ast.arg):
            add(node.arg)
        elif isinstance(node, (ast.Global, ast.Nonlocal)):
            if not allow_global:
                _fail(node, "global/nonlocal statement")
            for n in node.names:      # a rebinding from inside a function: count it twice
                add(n)
                add(n)
        elif isinstance(node, ast.ExceptHandler) and node.name:
            add(node.name)
    return count


def _check_verify_module(module):
    count = _bindings(module)
    imported = {}
    inspect_ok = False
    for node in module.body:
        if isinstance(node, ast.ImportFrom) and node.level == 0:
            for al in node.names:
                imported[al.asname or al.name] = (node.module, al.name)
        elif isinstance(node, ast.Import):
            for al in node.names:
                if al.name == "inspect" and al.asname is None:
                    inspect_ok = True
    for name, origin in VERIFY_IMPORTS.items():
        if imported.get(name) != origin or count.get(name) != 1:
            raise TranslationError("verify.py: %s is not (only) 'from %s import %s'" % (name, origin[0], origin[1]))
    if not inspect_ok or count.get("inspect") != 1:
        raise TranslationError("verify.py: 'import inspect' missing or inspect rebound")
    for b in BUILTINS_USED:
        if count.get(b):
            raise TranslationError("verify.py: builtin %s is shadowed" % b)
    for f in FUNCS:
        if count.get(f) != 1:
            raise TranslationError("verify.py: %s is not defined exactly once" % f)
    # MethodTypes = (MethodType, )
    mt = [n for n in module.body if isinstance(n, ast.Assign) and len(n.targets) == 1
          and isinstance(n.targets[0], ast.Name) and n.targets[0].id == "MethodTypes"]
    if len(mt) != 1 or count.get("MethodTypes") != 1:
        raise TranslationError("verify.py: MethodTypes is not assigned exactly once at module level")
    v = mt[0].value
    if not (isinstance(v, ast.Tuple) and len(v.elts) == 1 and _is_name(v.elts[0], "MethodType")):
        _fail(mt[0], "MethodTypes is not (MethodType,)")
    return {n.name: n for n in module.body if isinstance(n, ast.FunctionDef) and n.name in FUNCS}


# --------------------------------------------------------------------------- _verify_element

class _Element:
    """roles of the parameters: iface, name, desc, candidate, vtype (by position)"""

    PARAMS = ("iface", "name", "desc", "candidate", "vtype")

    def __init__(self, fn, default_imlevel):
        _plain_params(fn, self.PARAMS, ())
        self.fn = fn
        self.default_imlevel = default_imlevel

    # -- booleans
    def boolean(self, node, env):
        if isinstance(node, ast.BoolOp):
            op = {ast.And: "andb", ast.Or: "orb"}.get(type(node.op))
            parts = [self.boolean(v, env) for v in node.values]
            out = parts[-1]
            for p in reversed(parts[:-1]):
                out = "(%s %s %s)" % (op, p, out)
            return out
        if isinstance(node, ast.UnaryOp) and isinstance(node.op, ast.Not):
            return "(negb %s)" % self.boolean(node.operand, env)
        if isinstance(node, ast.Compare) and len(node.ops) == 1:
            l, op, r = node.left, node.ops[0], node.comparators[0]
            if isinstance(op, ast.Eq) and _is_name(l, "vtype") and (_const(r, "c") or _const(r, "o")):
                return "(vtype_is_%s vt)" % r.value
            if isinstance(op, ast.NotEq) and _is_name(l, "vtype") and (_const(r, "c") or _const(r, "o")):
                return "(negb (vtype_is_%s vt))" % r.value
            if (isinstance(op, ast.Is) and isinstance(l, ast.Call) and _is_name(l.func, "type")
                    and len(l.args) == 1 and not l.keywords
                    and isinstance(l.args[0], ast.Attribute) and l.args[0].attr == "__func__"
                    and self.is_attr(l.args[0].value, env) and _is_name(r, "FunctionType")):
                return "(attr_func_is_FunctionType a)"
            _fail(node, "unsupported comparison")
        if isinstance(node, ast.Call) and not node.keywords:
            f, args = node.func, node.args
            if _is_name(f, "isinstance") and len(args) == 2:
                if _is_name(args[0], "desc") and _is_name(args[1], "Method"):
                    return "(desc_is_method d)"
                if _is_name(args[0], "candidate") and _is_name(args[1], "type"):
                    return "cand_is_type"
                if self.is_attr(args[0], env):
                    for py, coq in (("FunctionType", "attr_is_FunctionType"), ("MethodTypes", "attr_is_MethodTypes"),
                                    ("property", "attr_is_property")):
                        if _is_name(args[1], py):
                            return "(%s a)" % coq
                _fail(node, "unsupported isinstance test")
            if _is_name(f, "callable") and len(args) == 1 and self.is_attr(args[0], env):
                return "(attr_callable a)"
            if (isinstance(f, ast.Attribute) and _is_name(f.value, "inspect") and len(args) == 1
                    and self.is_attr(args[0], env) and f.attr in ("ismethoddescriptor", "isbuiltin")):
                return "(attr_%s a)" % f.attr
        _fail(node, "unsupported condition in _verify_element")

    def is_attr(self, node, env):
        if _is_name(node, "attr"):
            if not env.get("attr"):
                _fail(node, "attr used before the getattr succeeded")
            return True
        return False

    # -- signatures
    def sig_expr(self, node, env):
        """X.getSignatureInfo() for X the description or the computed method"""
        if (isinstance(node, ast.Call) and not node.args and not node.keywords
                and isinstance(node.func, ast.Attribute) and node.func.attr == "getSignatureInfo"):
            if _is_name(node.func.value, "desc"):
                return "(desc_sig d)"
            if _is_name(node.func.value, "meth") and env.get("meth"):
                return "v_meth"
        _fail(node, "unsupported signature expression")

    def method_expr(self, node, env):
        """fromFunction(attr, iface, name=name[, imlevel=k]) / fromMethod(attr, iface, name)"""
        if not isinstance(node, ast.Call):
            _fail(node, "meth is not computed by fromFunction/fromMethod")
        if _is_name(node.func, "fromFunction"):
            if not (len(node.args) == 2 and self.is_attr(node.args[0], env) and _is_name(node.args[1], "iface")):
                _fail(node, "unexpected positional arguments of fromFunction")
            kw = {k.arg: k.value for k in node.keywords}
            if len(kw) != len(node.keywords) or not set(kw) <= {"name", "imlevel"} or "name" not in kw \
                    or not _is_name(kw["name"], "name"):
                _fail(node, "unexpected keyword arguments of fromFunction")
            lvl = self.default_imlevel
            if "imlevel" in kw:
                v = kw["imlevel"]
                if not (isinstance(v, ast.Constant) and type(v.value) is int and v.value >= 0):
                    _fail(node, "imlevel is not a literal natural number")
                lvl = v.value
            return "(from_function (attr_raw a) %d)" % lvl
        if _is_name(node.func, "fromMethod"):
            if not (len(node.args) == 3 and not node.keywords and self.is_attr(node.args[0], env)
                    and _is_name(node.args[1], "iface") and _is_name(node.args[2], "name")):
                _fail(node, "unexpected arguments of fromMethod")
            return "(gen_from_method (attr_raw a))"
        _fail(node, "meth is not computed by fromFunction/fromMethod")

    # -- raise
    def raised(self, node, env):
        exc = node.exc
        if node.cause is not None or not isinstance(exc, ast.Call) or exc.keywords:
            _fail(node, "unsupported raise")
        args = exc.args
        if _is_name(exc.func, "BrokenImplementation"):
            if len(args) == 3 and _is_name(args[0], "iface") and _is_name(args[1], "desc") and _is_name(args[2], "candidate"):
                return "Some (EBrokenImplementation n)"
        if _is_name(exc.func, "BrokenMethodImplementation"):
            if (len(args) == 5 and _is_name(args[0], "desc") and self.is_attr(args[2], env)
                    and _is_name(args[3], "iface") and _is_name(args[4], "candidate")):
                if _const(args[1], NOT_A_METHOD):
                    return "Some (ENotAMethod n)"
                if _is_name(args[1], "mess") and env.get("mess_index"):
                    return "Some (EBrokenMethod n %s)" % env["mess_index"]
        _fail(node, "unsupported exception construction")

    # -- statements; result type option err
    def stmts(self, stmts, env, ind):
        pad = "  " * ind
        if not stmts:
            return pad + "None"
        st, rest = stmts[0], stmts[1:]
        if isinstance(st, ast.Return):
            if st.value is not None and not _const_none(st.value):
                _fail(st, "_verify_element returns a value")
            return pad + "None"
        if isinstance(st, ast.Raise):
            return pad + self.raised(st, env)
        if isinstance(st, ast.Try):
            ok = (len(st.body) == 1 and isinstance(st.body[0], ast.Assign) and len(st.body[0].targets) == 1
                  and isinstance(st.body[0].targets[0], ast.Name) and st.body[0].targets[0].id == "attr"
                  and isinstance(st.body[0].value, ast.Call) and _is_name(st.body[0].value.func, "getattr")
                  and len(st.body[0].value.args) == 2 and not st.body[0].value.keywords
                  and _is_name(st.body[0].value.args[0], "candidate") and _is_name(st.body[0].value.args[1], "name")
                  and len(st.handlers) == 1 and _is_name(st.handlers[0].type, "AttributeError")
                  and st.handlers[0].name is None and not st.orelse and not st.finalbody and not env.get("attr"))
            if not ok:
                _fail(st, "unsupported try statement")
            handler = st.handlers[0].body
            if not _always_exits(handler):
                _fail(st, "the AttributeError handler can fall through with attr unbound")
            env2 = dict(env, attr=True)
            return "%sif getattr_raises a then\n%s\n%selse\n%s" % (
                pad, self.stmts(handler, env, ind + 1), pad, self.stmts(rest, env2, ind + 1))
        if isinstance(st, ast.If):
            if _is_name(st.test, "mess") and env.get("mess"):
                # truth value of _incompat's result: a non-empty message or None
                if not _always_exits(st.body):
                    _fail(st, "'if mess:' body falls through")
                env2 = dict(env, mess_index="m")
                return "%smatch v_mess with\n%s| Some m =>\n%s\n%s| None =>\n%s\n%send" % (
                    pad, pad, self.stmts(st.body, env2, ind + 1), pad,
                    self.stmts(list(st.orelse) + rest, env, ind + 1), pad)
            test = self.boolean(st.test, env)
            body = list(st.body) if _always_exits(st.body) else list(st.body) + rest
            orelse = list(st.orelse) if (st.orelse and _always_exits(st.orelse)) else list(st.orelse) + rest
            return "%sif %s then\n%s\n%selse\n%s" % (pad, test, self.stmts(body, env, ind + 1), pad,
                                                    self.stmts(orelse, env, ind + 1))
        if isinstance(st, ast.Assign) and len(st.targets) == 1 and isinstance(st.targets[0], ast.Name):
            tgt = st.targets[0].id
            if tgt == "meth":
                e = self.method_expr(st.value, env)
                return "%slet v_meth := %s in\n%s" % (pad, e, self.stmts(rest, dict(env, meth=True), ind))
            if tgt == "mess":
                v = st.value
                if not (isinstance(v, ast.Call) and _is_name(v.func, "_incompat") and len(v.args) == 2 and not v.keywords):
                    _fail(st, "mess is not computed by _incompat(a, b)")
                e = "(incompat %s %s)" % (self.sig_expr(v.args[0], env), self.sig_expr(v.args[1], env))
                return "%slet v_mess := %s in\n%s" % (pad, e, self.stmts(rest, dict(env, mess=True), ind))
        if isinstance(st, ast.Expr) and isinstance(st.value, ast.Constant) and isinstance(st.value.value, str):
            return self.stmts(rest, env, ind)
        _fail(st, "unsupported statement in _verify_element")

    def translate(self):
        body = self.stmts(_strip_doc(self.fn.body), {}, 1)
        return ("Definition gen_verify_element (vt : vtype) (cand_is_type : bool) (e : elem) : option err :=\n"
                "  let '(n, d, a) := e in\n%s.\n" % body)


def _const_none(node):
    return isinstance(node, ast.Constant) and node.value is None


def _always_exits(stmts):
    if not stmts:
        return False
    last = stmts[-1]
    if isinstance(last, (ast.Return, ast.Raise)):
        return True
    if isinstance(last, ast.If):
        return bool(last.orelse) and _always_exits(last.body) and _always_exits(last.orelse)
    return False


# --------------------------------------------------------------------------- _verify

class _Verify:
    PARAMS = ("iface", "candidate", "tentative", "vtype")

    def __init__(self, fn):
        _plain_params(fn, self.PARAMS, (False, None))
        self.fn = fn

    def boolean(self, node, env):
        if isinstance(node, ast.BoolOp):
            op = {ast.And: "andb", ast.Or: "orb"}.get(type(node.op))
            parts = [self.boolean(v, env) for v in node.values]
            out = parts[-1]
            for p in reversed(parts[:-1]):
                out = "(%s %s %s)" % (op, p, out)
            return out
        if isinstance(node, ast.UnaryOp) and isinstance(node.op, ast.Not):
            return "(negb %s)" % self.boolean(node.operand, env)
        if _is_name(node, "tentative"):
            return "tentative"
        if _is_name(node, "excs") and env.get("excs"):
            return "(negb (is_nil v_excs))"
        if isinstance(node, ast.Compare) and len(node.ops) == 1 and isinstance(node.ops[0], ast.Eq):
            l, r = node.left, node.comparators[0]
            if _is_name(l, "vtype") and (_const(r, "c") or _const(r, "o")):
                return "(vtype_is_%s vt)" % r.value
            if (isinstance(l, ast.Call) and _is_name(l.func, "len") and len(l.args) == 1 and not l.keywords
                    and _is_name(l.args[0], "excs") and env.get("excs")
                    and isinstance(r, ast.Constant) and type(r.value) is int and r.value >= 0):
                return "(Nat.eqb (length v_excs) %d)" % r.value
        if (isinstance(node, ast.Call) and _is_name(node.func, "tester") and env.get("tester")
                and len(node.args) == 1 and not node.keywords and _is_name(node.args[0], "candidate")):
            return "v_tester"
        _fail(node, "unsupported condition in _verify")

    def tester_of(self, stmts):
        """[tester = iface.implementedBy | iface.providedBy]"""
        if len(stmts) == 1 and isinstance(stmts[0], ast.Assign) and len(stmts[0].targets) == 1 \
                and isinstance(stmts[0].targets[0], ast.Name) and stmts[0].targets[0].id == "tester":
            v = stmts[0].value
            if isinstance(v, ast.Attribute) and _is_name(v.value, "iface") and v.attr in ("implementedBy", "providedBy"):
                return {"implementedBy": "implemented_by", "providedBy": "provided_by"}[v.attr]
        return None

    def append_of(self, st):
        """excs.append(X) -> X"""
        if (isinstance(st, ast.Expr) and isinstance(st.value, ast.Call) and not st.value.keywords
                and isinstance(st.value.func, ast.Attribute) and st.value.func.attr == "append"
                and _is_name(st.value.func.value, "excs") and len(st.value.args) == 1):
            return st.value.args[0]
        return None

    def raised(self, st, env):
        exc = st.exc
        if st.cause is not None or not env.get("excs"):
            _fail(st, "unsupported raise in _verify")
        if (isinstance(exc, ast.Subscript) and _is_name(exc.value, "excs") and _const(_index(exc), 0)):
            return "Single (first_err v_excs)"
        if (isinstance(exc, ast.Call) and _is_name(exc.func, "MultipleInvalid") and not exc.keywords
                and len(exc.args) == 3 and _is_name(exc.args[0], "iface") and _is_name(exc.args[1], "candidate")
                and _is_name(exc.args[2], "excs")):
            return "Multiple v_excs"
        _fail(st, "unsupported raise in _verify")

    def stmts(self, stmts, env, ind):
        pad = "  " * ind
        if not stmts:
            _fail(self.fn, "_verify can fall off its end (returns None, which is falsy)")
        st, rest = stmts[0], stmts[1:]
        if isinstance(st, ast.Return):
            if not _const(st.value, True):
                _fail(st, "_verify returns something other than True")
            return pad + "Ok"
        if isinstance(st, ast.Raise):
            return pad + self.raised(st, env)
        if isinstance(st, ast.If):
            a, b = self.tester_of(st.body), self.tester_of(st.orelse)
            if a and b and not env.get("tester"):
                return "%slet v_tester := if %s then %s else %s in\n%s" % (
                    pad, self.boolean(st.test, env), a, b, self.stmts(rest, dict(env, tester=True), ind))
            if len(st.body) == 1 and not st.orelse and self.append_of(st.body[0]) is not None and env.get("excs"):
                x = self.append_of(st.body[0])
                if not (isinstance(x, ast.Call) and _is_name(x.func, "DoesNotImplement") and not x.keywords
                        and len(x.args) == 2 and _is_name(x.args[0], "iface") and _is_name(x.args[1], "candidate")):
                    _fail(st, "unsupported value appended to excs")
                return "%slet v_excs := if %s then v_excs ++ [EDoesNotImplement] else v_excs in\n%s" % (
                    pad, self.boolean(st.test, env), self.stmts(rest, env, ind))
            test = self.boolean(st.test, env)
            body = list(st.body) if _always_exits(st.body) else list(st.body) + rest
            orelse = list(st.orelse) if (st.orelse and _always_exits(st.orelse)) else list(st.orelse) + rest
            return "%sif %s then\n%s\n%selse\n%s" % (pad, test, self.stmts(body, env, ind + 1), pad,
                                                    self.stmts(orelse, env, ind + 1))
        if isinstance(st, ast.Assign) and len(st.targets) == 1 and isinstance(st.targets[0], ast.Name) \
                and st.targets[0].id == "excs" and isinstance(st.value, ast.List) and not st.value.elts \
                and not env.get("excs"):
            return "%slet v_excs := (@nil err) in\n%s" % (pad, self.stmts(rest, dict(env, excs=True), ind))
        if isinstance(st, ast.For):
            self.check_loop(st, env)
            return "%slet v_excs := collect (gen_verify_element vt cand_is_type) elems v_excs in\n%s" % (
                pad, self.stmts(rest, env, ind))
        _fail(st, "unsupported statement in _verify")

    def check_loop(self, st, env):
        """for name, desc in iface.namesAndDescriptions(all=True):
               try: _verify_element(iface, name, desc, candidate, vtype)
               except Invalid as e: excs.append(e)"""
        t, it = st.target, st.iter
        ok = (env.get("excs") and not st.orelse and isinstance(t, ast.Tuple) and len(t.elts) == 2
              and all(isinstance(x, ast.Name) for x in t.elts) and [x.id for x in t.elts] == ["name", "desc"]
              and isinstance(it, ast.Call) and not it.args and isinstance(it.func, ast.Attribute)
              and it.func.attr == "namesAndDescriptions" and _is_name(it.func.value, "iface")
              and len(it.keywords) == 1 and it.keywords[0].arg == "all" and _const(it.keywords[0].value, True)
              and len(st.body) == 1 and isinstance(st.body[0], ast.Try))
        if not ok:
            _fail(st, "unsupported loop")
        tr = st.body[0]
        ok = (len(tr.body) == 1 and isinstance(tr.body[0], ast.Expr) and isinstance(tr.body[0].value, ast.Call)
              and _is_name(tr.body[0].value.func, "_verify_element") and not tr.body[0].value.keywords
              and [a.id if _is_name(a) else None for a in tr.body[0].value.args] == list(_Element.PARAMS)
              and len(tr.handlers) == 1 and _is_name(tr.handlers[0].type, "Invalid") and tr.handlers[0].name
              and not tr.orelse and not tr.finalbody and len(tr.handlers[0].body) == 1)
        if not ok:
            _fail(tr, "unsupported loop body")
        x = self.append_of(tr.handlers[0].body[0])
        if x is None or not _is_name(x, tr.handlers[0].name):
            _fail(tr, "the handler does not append the caught exception to excs")

    def translate(self):
        body = self.stmts(_strip_doc(self.fn.body), {}, 1)
        return ("Definition gen_verify (vt : vtype) (tentative implemented_by provided_by cand_is_type : bool)\n"
                "    (elems : list elem) : outcome :=\n%s.\n" % body)


def _index(sub):
    sl = sub.slice
    if isinstance(sl, ast.Index):  # pragma: no cover (python < 3.9)
        sl = sl.value
    return sl


def _wrapper(fn, coq_name):
    """def verifyX(iface, candidate, tentative=False): return _verify(iface, candidate, tentative, vtype='c'|'o')"""
    _plain_params(fn, ("iface", "candidate", "tentative"), (False,))
    body = _strip_doc(fn.body)
    if len(body) != 1 or not isinstance(body[0], ast.Return) or not isinstance(body[0].value, ast.Call):
        _fail(fn, "%s is not a single 'return _verify(...)'" % fn.name)
    c = body[0].value
    ok = (_is_name(c.func, "_verify") and [a.id if _is_name(a) else None for a in c.args] == ["iface", "candidate", "tentative"]
          and len(c.keywords) == 1 and c.keywords[0].arg == "vtype"
          and (_const(c.keywords[0].value, "c") or _const(c.keywords[0].value, "o")))
    if not ok:
        _fail(fn, "unexpected arguments of _verify in %s" % fn.name)
    vt = {"c": "VClass", "o": "VObject"}[c.keywords[0].value.value]
    return ("Definition %s (tentative implemented_by provided_by cand_is_type : bool) (elems : list elem) : outcome :=\n"
            "  gen_verify %s tentative implemented_by provided_by cand_is_type elems.\n" % (coq_name, vt))


# --------------------------------------------------------------------------- interface.py

def _interface_part(text):
    """-> (default imlevel of fromFunction, imlevel fromMethod passes)"""
    module = ast.parse(text)
    count = _bindings(module, allow_global=True)
    fns = {n.name: n for n in module.body if isinstance(n, ast.FunctionDef) and n.name in ("fromFunction", "fromMethod")}
    for f in ("fromFunction", "fromMethod"):
        if f not in fns or count.get(f) != 1:
            raise TranslationError("interface.py: %s is not defined exactly once at module level" % f)
    mt = [n for n in module.body if isinstance(n, ast.ImportFrom) and n.module == "types"
          and any((al.asname or al.name) == "MethodType" and al.name == "MethodType" for al in n.names)]
    if len(mt) != 1 or count.get("MethodType") != 1 or count.get("isinstance"):
        raise TranslationError("interface.py: MethodType is not (only) 'from types import MethodType'")
    ff = fns["fromFunction"]
    _plain_params(ff, ("func", "interface", "imlevel", "name"), (None, 0, None))
    default_imlevel = ff.args.defaults[1].value
    fm = fns["fromMethod"]
    _plain_params(fm, ("meth", "interface", "name"), (None, None))
    body = _strip_doc(fm.body)
    # if isinstance(meth, MethodType): func = meth.__func__  else: func = meth
    ok = (len(body) == 2 and isinstance(body[0], ast.If) and isinstance(body[0].test, ast.Call)
          and _is_name(body[0].test.func, "isinstance") and len(body[0].test.args) == 2 and not body[0].test.keywords
          and _is_name(body[0].test.args[0], "meth") and _is_name(body[0].test.args[1], "MethodType")
          and len(body[0].body) == 1 and len(body[0].orelse) == 1)
    if ok:
        a, b = body[0].body[0], body[0].orelse[0]
        ok = (isinstance(a, ast.Assign) and isinstance(b, ast.Assign)
              and [t.id if isinstance(t, ast.Name) else None for t in a.targets] == ["func"]
              and [t.id if isinstance(t, ast.Name) else None for t in b.targets] == ["func"]
              and isinstance(a.value, ast.Attribute) and a.value.attr == "__func__" and _is_name(a.value.value, "meth")
              and _is_name(b.value, "meth"))
    if not ok or not isinstance(body[1], ast.Return) or not isinstance(body[1].value, ast.Call):
        _fail(fm, "unsupported shape of fromMethod")
    c = body[1].value
    kw = {k.arg: k.value for k in c.keywords}
    ok = (_is_name(c.func, "fromFunction") and [x.id if _is_name(x) else None for x in c.args] == ["func", "interface"]
          and set(kw) == {"imlevel", "name"} and len(c.keywords) == 2 and _is_name(kw["name"], "name")
          and isinstance(kw["imlevel"], ast.Constant) and type(kw["imlevel"].value) is int and kw["imlevel"].value >= 0)
    if not ok:
        _fail(fm, "unsupported call of fromFunction in fromMethod")
    return default_imlevel, kw["imlevel"].value


# --------------------------------------------------------------------------- driver

def translate_sources(verify_text, interface_text, origin="verify.py / interface.py"):
    default_imlevel, method_imlevel = _interface_part(interface_text)
    module = ast.parse(verify_text)
    fns = _check_verify_module(module)
    parts = [
        "(* GENERATED by harness/translate/verify_kernel.py from %s" % origin,
        "   (_verify_element, _verify, verifyClass, verifyObject; fromMethod) -- do not edit.",
        "   Regenerated on every run; Proofs/VerifyKernel.v proves it equal to Model/Verify.v. *)",
        "From Coq Require Import List Arith Bool.",
        "Import ListNotations.",
        "From ZI Require Import Spec.Binds Model.Verify Gen.Incompat.",
        "",
        "(* interface.py: def fromFunction(func, interface=None, imlevel=%d, name=None) *)" % default_imlevel,
        "Definition gen_from_function_default_imlevel : nat := %d." % default_imlevel,
        "(* interface.py: fromMethod -> fromFunction(func, interface, imlevel=%d, name=name) *)" % method_imlevel,
        "Definition gen_from_method (raw : sig) : sig := from_function raw %d." % method_imlevel,
        "",
        _Element(fns["_verify_element"], default_imlevel).translate(),
        _Verify(fns["_verify"]).translate(),
        _wrapper(fns["verifyClass"], "gen_verifyClass"),
        _wrapper(fns["verifyObject"], "gen_verifyObject"),
    ]
    return "\n".join(parts)


def translate_files(verify_path, interface_path):
    with open(verify_path) as fh:
        v = fh.read()
    with open(interface_path) as fh:
        i = fh.read()
    return translate_sources(v, i, origin="%s, %s" % (verify_path, interface_path))


def pinned():
    import os
    here = os.path.dirname(os.path.abspath(__file__))
    with open(os.path.join(here, "verify_kernel_pinned_verify.py.txt")) as fh:
        v = fh.read()
    with open(os.path.join(here, "verify_kernel_pinned_interface.py.txt")) as fh:
        i = fh.read()
    return translate_sources(v, i, origin="<pinned copies in harness/translate/>")


if __name__ == "__main__":  # python -m harness.translate.verify_kernel <verify.py> <interface.py>
    import sys
    print(translate_files(sys.argv[1], sys.argv[2]))
