"""Fail-closed extractor: ``IB__call__`` and ``IB__adapt__`` of
``zope/interface/_zope_interface_coptimizations.c`` -> ``coq/Gen/AdaptC.v``.

The two functions are tokenised, parsed with a small recursive-descent parser for the C subset
they use (declarations without initialisers, assignments, ``if``/``else``, one ``for`` loop,
``return``, one forward ``goto``), and every statement / call is mapped through the tables below
to the statement language of ``coq/Model/CKernel.v`` (whose interpreter fixes the meaning of each
API call over the vocabulary of ``coq/Model/Adapt.v``).

  * reference counting (``Py_INCREF`` / ``Py_DECREF`` / ``Py_XDECREF`` of a local or ``Py_None``) is dropped;
  * the inlined provided-check of ``IB__adapt__`` (from ``decl = providedBy(module, obj);`` up to the label
    ``checked:``) is compared token by token with the pinned text below and becomes the single
    statement ``KInlineProvided`` (its semantics -- ``self in providedBy(obj)._implied`` -- is C10's subject);
  * ``if (FLAG) { ...; goto L; } REST1 L: REST2`` becomes ``if (FLAG) {...} else {REST1}; REST2``.

Anything not in the tables (an unknown callee, operator, statement form, a second loop, a backward
goto, a declaration with initialiser ...) raises ``ExtractionError``: the caller reports a broken
tie and falls back to the pinned text; it never guesses.
"""
import re


class ExtractionError(Exception):
    pass


def _fail(why, tok=None):
    raise ExtractionError("_zope_interface_coptimizations.c: %s%s" % (why, "" if tok is None else " near %r" % (tok,)))


# --------------------------------------------------------------------------- tokens

TOKEN = re.compile(r"""
    (?P<ws>\s+)
  | (?P<str>"(?:[^"\\]|\\.)*")
  | (?P<num>\d+)
  | (?P<id>[A-Za-z_][A-Za-z0-9_]*)
  | (?P<op>->|==|!=|<=|>=|&&|\|\||\+\+|--|[(){}\[\];,*&!<>=+\-.:])
""", re.X)


def strip_comments(text):
    text = re.sub(r"/\*.*?\*/", " ", text, flags=re.S)
    return re.sub(r"//[^\n]*", " ", text)


def tokenize(text):
    out = []
    pos = 0
    while pos < len(text):
        m = TOKEN.match(text, pos)
        if not m:
            _fail("cannot tokenise", text[pos:pos + 30])
        pos = m.end()
        if m.lastgroup != "ws":
            out.append((m.lastgroup, m.group()))
    return out


def function_text(text, name, params):
    """Body text (between the outermost braces) of the function `name` with the given parameter list."""
    pat = re.compile(r"^%s\(%s\)\s*\{" % (re.escape(name), params), re.M)
    ms = list(pat.finditer(text))
    if len(ms) != 1:
        _fail("expected exactly one definition of %s, found %d" % (name, len(ms)))
    i = ms[0].end()
    depth = 1
    j = i
    while depth:
        m = TOKEN.match(text, j)
        if not m:
            _fail("cannot tokenise inside %s" % name, text[j:j + 30])
        if m.lastgroup == "op" and m.group() == "{":
            depth += 1
        elif m.lastgroup == "op" and m.group() == "}":
            depth -= 1
        j = m.end()
    body = text[i:j - 1]
    if re.search(r"^\s*#", body, re.M):
        _fail("preprocessor directive inside %s" % name)
    return body


# --------------------------------------------------------------------------- parser (C subset)

TYPE_WORDS = {"PyObject", "PyTypeObject", "int", "static", "char", "Py_ssize_t", "const"}


class Parser:
    def __init__(self, toks):
        self.t = toks
        self.i = 0

    def peek(self, k=0):
        return self.t[self.i + k] if self.i + k < len(self.t) else ("eof", "")

    def next(self):
        tok = self.peek()
        self.i += 1
        return tok

    def expect(self, val):
        tok = self.next()
        if tok[1] != val:
            _fail("expected %r" % val, tok)
        return tok

    # ---- statements
    def block_items(self):
        items = []
        while self.peek()[1] != "}" and self.peek()[0] != "eof":
            items.append(self.item())
        return items

    def item(self):
        kind, val = self.peek()
        if kind == "id" and val in TYPE_WORDS:
            return self.declaration()
        return self.statement()

    def declaration(self):
        toks = []
        while self.peek()[1] != ";":
            if self.peek()[0] == "eof":
                _fail("unterminated declaration")
            toks.append(self.next())
        self.expect(";")
        vals = [v for _k, v in toks]
        if "=" in vals:
            # only: static char* kwlist[] = { "obj", "alternate", NULL };
            if vals[:4] == ["static", "char", "*", "kwlist"] and vals[4:8] == ["[", "]", "=", "{"] and vals[-1] == "}":
                strs = [v for k, v in toks[8:-1] if k == "str"]
                rest = [v for k, v in toks[8:-1] if k != "str" and v != ","]
                if rest != ["NULL"]:
                    _fail("unexpected kwlist initialiser", vals)
                return ("kwlist", [s[1:-1] for s in strs])
            _fail("declaration with initialiser", vals)
        names = []
        for idx, (k, v) in enumerate(toks):
            if k == "id" and v not in TYPE_WORDS:
                names.append(v)
            elif k == "op" and v in ("*", ","):
                pass
            elif k == "id":
                pass
            else:
                _fail("unsupported declarator", vals)
        if not names:
            _fail("declaration without names", vals)
        return ("decl", names)

    def statement(self):
        kind, val = self.peek()
        if val == "{":
            self.next()
            items = self.block_items()
            self.expect("}")
            return ("block", items)
        if val == "if":
            self.next()
            self.expect("(")
            c = self.expr()
            self.expect(")")
            thn = self.statement()
            els = None
            if self.peek()[1] == "else":
                self.next()
                els = self.statement()
            return ("if", c, thn, els)
        if val == "for":
            self.next()
            self.expect("(")
            init = self.expr()
            self.expect(";")
            c = self.expr()
            self.expect(";")
            step = self.expr()
            self.expect(")")
            body = self.statement()
            return ("for", init, c, step, body)
        if val == "return":
            self.next()
            e = self.expr()
            self.expect(";")
            return ("return", e)
        if val == "goto":
            self.next()
            lab = self.next()
            self.expect(";")
            return ("goto", lab[1])
        if val in ("while", "do", "switch", "break", "continue", "case"):
            _fail("unsupported statement keyword", val)
        if kind == "id" and self.peek(1)[1] == ":":
            self.next()
            self.next()
            return ("label", val)
        e = self.expr()
        self.expect(";")
        return ("expr", e)

    # ---- expressions (precedence climbing)
    def expr(self):
        left = self.lor()
        if self.peek()[1] == "=":
            self.next()
            right = self.expr()
            return ("assign", left, right)
        return left

    def lor(self):
        e = self.land()
        while self.peek()[1] == "||":
            self.next()
            e = ("bin", "||", e, self.land())
        return e

    def land(self):
        e = self.equality()
        while self.peek()[1] == "&&":
            self.next()
            e = ("bin", "&&", e, self.equality())
        return e

    def equality(self):
        e = self.relational()
        while self.peek()[1] in ("==", "!="):
            op = self.next()[1]
            e = ("bin", op, e, self.relational())
        return e

    def relational(self):
        e = self.additive()
        while self.peek()[1] in ("<", ">", "<=", ">="):
            op = self.next()[1]
            e = ("bin", op, e, self.additive())
        return e

    def additive(self):
        e = self.unary()
        while self.peek()[1] in ("+", "-"):
            op = self.next()[1]
            e = ("bin", op, e, self.unary())
        return e

    def unary(self):
        val = self.peek()[1]
        if val in ("!", "&"):
            self.next()
            return ("un", val, self.unary())
        if val in ("*", "-", "++", "--"):
            _fail("unsupported unary operator", val)
        return self.postfix()

    def postfix(self):
        e = self.primary()
        while True:
            val = self.peek()[1]
            if val == "(":
                self.next()
                args = []
                if self.peek()[1] != ")":
                    args.append(self.expr())
                    while self.peek()[1] == ",":
                        self.next()
                        args.append(self.expr())
                self.expect(")")
                e = ("call", e, args)
            elif val == "->":
                self.next()
                e = ("arrow", e, self.next()[1])
            elif val == "++":
                self.next()
                e = ("postinc", e)
            elif val in ("[", ".", "--"):
                _fail("unsupported postfix operator", val)
            else:
                return e

    def primary(self):
        kind, val = self.next()
        if kind == "id":
            return ("id", val)
        if kind == "num":
            return ("num", int(val))
        if kind == "str":
            return ("str", val[1:-1])
        if val == "(":
            # a cast would start with a type word: refuse
            if self.peek()[0] == "id" and self.peek()[1] in TYPE_WORDS:
                _fail("cast expression")
            e = self.expr()
            self.expect(")")
            return e
        _fail("unexpected token", (kind, val))


# --------------------------------------------------------------------------- mapping to CKernel terms

FLAGS = {"_CALL_CUSTOM_ADAPT": "FAdapt", "_CALL_CUSTOM_PROVIDEDBY": "FProv"}
XCLASS = {"PyExc_AttributeError": "XAttributeError", "PyExc_TypeError": "XTypeError"}
REFCOUNT = {"Py_INCREF", "Py_DECREF", "Py_XDECREF", "Py_XINCREF"}
BINOPS = {"==": "XEq", "!=": "XNe", "<": "XLt", "||": "XOr", "&&": "XAnd", "+": "XAdd", "-": "XSub"}


def _q(s):
    if not re.match(r"^[A-Za-z_][A-Za-z0-9_]*$", s):
        _fail("not an identifier", s)
    return '"%s"' % s


def _lst(items):
    return "[" + "; ".join(items) + "]"


class Mapper:
    def __init__(self, fname, declared_params):
        self.fname = fname
        self.locals = set(declared_params)
        self.kwlist = None
        self.loops = 0

    def is_id(self, e, name=None):
        return e[0] == "id" and (name is None or e[1] == name)

    def var(self, e):
        if e[0] != "id" or e[1] not in self.locals:
            _fail("%s: not a declared local" % self.fname, e)
        return e[1]

    def is_type_dict_of_self(self, e):
        """self->ob_type->tp_dict   or   Py_TYPE(self)->tp_dict"""
        if e[0] != "arrow" or e[2] != "tp_dict":
            return False
        t = e[1]
        if t[0] == "arrow" and t[2] == "ob_type" and self.is_id(t[1], "self"):
            return True
        return t[0] == "call" and self.is_id(t[1], "Py_TYPE") and len(t[2]) == 1 and self.is_id(t[2][0], "self")

    # ---- pure expressions
    def pure(self, e):
        k = e[0]
        if k == "id":
            if e[1] == "NULL":
                return "XNull"
            if e[1] == "Py_None":
                return "XNone"
            return "(XVar %s)" % _q(self.var(e))
        if k == "num":
            return "(XInt %d)" % e[1]
        if k == "bin":
            if e[1] not in BINOPS:
                _fail("%s: unsupported binary operator" % self.fname, e[1])
            return "(%s %s %s)" % (BINOPS[e[1]], self.pure(e[2]), self.pure(e[3]))
        if k == "un" and e[1] == "!":
            return "(XNot %s)" % self.pure(e[2])
        if k == "call" and e[1][0] == "id":
            f, args = e[1][1], e[2]
            if f == "PyDict_GetItemString" and len(args) == 2 and self.is_type_dict_of_self(args[0]) \
                    and args[1][0] == "str" and args[1][1] in FLAGS:
                return "(XHasFlag %s)" % FLAGS[args[1][1]]
            if f == "PyErr_ExceptionMatches" and len(args) == 1 and args[0][0] == "id" and args[0][1] in XCLASS:
                return "(XErrMatches %s)" % XCLASS[args[0][1]]
            if f == "PyList_GET_ITEM" and len(args) == 2:
                return "(XListItem %s %s)" % (self.pure(args[0]), self.pure(args[1]))
            if f == "PyList_GET_SIZE" and len(args) == 1:
                return "(XListSize %s)" % self.pure(args[0])
        _fail("%s: unsupported expression" % self.fname, e)

    # ---- API calls (right-hand side of an assignment)
    def api(self, e):
        if e[0] != "call" or e[1][0] != "id":
            return None
        f, a = e[1][1], e[2]

        def is_null(x):
            return x[0] == "id" and x[1] == "NULL"

        if f == "PyObject_GetAttr" and len(a) == 2 and self.is_id(a[1], "str__conform__"):
            return "(AGetAttrConform %s)" % self.pure(a[0])
        if f == "PyObject_CallMethodObjArgs" and len(a) == 4 and is_null(a[3]):
            if self.is_id(a[1], "str_call_conform"):
                return "(ACallConformMethod %s %s)" % (self.pure(a[0]), self.pure(a[2]))
            if self.is_id(a[1], "str__adapt__"):
                return "(ACallAdaptMethod %s %s)" % (self.pure(a[0]), self.pure(a[2]))
        if f == "IB__adapt__" and len(a) == 2:
            return "(ABuiltinAdapt %s %s)" % (self.pure(a[0]), self.pure(a[1]))
        if f == "PyObject_CallMethod" and len(a) == 4 and a[1] == ("str", "providedBy") and a[2] == ("str", "(O)"):
            return "(ACallProvidedBy %s %s)" % (self.pure(a[0]), self.pure(a[3]))
        if f == "PyObject_IsTrue" and len(a) == 1:
            return "(AIsTrue %s)" % self.pure(a[0])
        if f == "PyObject_CallObject" and len(a) == 2:
            return "(ACallObject %s %s)" % (self.pure(a[0]), self.pure(a[1]))
        if f == "PyTuple_New" and a == [("num", 2)]:
            return "ATupleNew2"
        if f == "Py_BuildValue" and len(a) == 4 and a[0] == ("str", "sOO") and a[1] == ("str", "Could not adapt"):
            return "(ABuildCouldNotAdapt %s %s)" % (self.pure(a[2]), self.pure(a[3]))
        if f == "_get_adapter_hooks" and len(a) == 1 and a[0][0] == "call" and self.is_id(a[0][1], "Py_TYPE") \
                and len(a[0][2]) == 1 and self.is_id(a[0][2][0], "self"):
            return "AGetHooks"
        return None

    # ---- statements
    def stmts(self, items):
        items = self.restructure_goto(items)
        out = []
        for it in items:
            out.extend(self.stmt(it))
        return out

    def restructure_goto(self, items):
        """if (c) { ...; goto L; }  REST1  L:  REST2   ->   if (c) {...} else {REST1}  REST2"""
        labels = [i for i, it in enumerate(items) if it[0] == "label"]
        if not labels:
            return items
        if len(labels) != 1:
            _fail("%s: several labels" % self.fname)
        li = labels[0]
        lab = items[li][1]
        src = [i for i, it in enumerate(items[:li]) if it[0] == "if" and it[3] is None and it[2][0] == "block"
               and it[2][1] and it[2][1][-1] == ("goto", lab)]
        if len(src) != 1:
            _fail("%s: label %s is not the target of exactly one `if (...) {...; goto %s;}` before it" % (self.fname, lab, lab))
        si = src[0]
        it = items[si]
        new_if = ("if", it[1], ("block", it[2][1][:-1]), ("block", items[si + 1:li]))
        res = items[:si] + [new_if] + items[li + 1:]
        if _count_gotos(res) or _count_labels(res):
            _fail("%s: other goto / label left after restructuring" % self.fname)
        return res

    def as_block(self, st):
        if st is None:
            return []
        if st[0] == "block":
            return self.stmts(st[1])
        return self.stmts([st])

    def stmt(self, it):
        k = it[0]
        if k == "kwlist":
            if self.kwlist is not None:
                _fail("%s: kwlist declared twice" % self.fname)
            self.kwlist = it[1]
            return []
        if k == "decl":
            out = []
            for n in it[1]:
                if n in self.locals:
                    _fail("%s: %s declared twice" % (self.fname, n))
                self.locals.add(n)
                out.append("KDecl %s" % _q(n))
            return out
        if k == "block":
            return self.stmts(it[1])
        if k == "return":
            return ["KReturn %s" % self.pure(it[1])]
        if k in ("goto", "label"):
            _fail("%s: goto/label in an unsupported position" % self.fname, it)
        if k == "if":
            c = it[1]
            # if (!PyArg_ParseTupleAndKeywords(args, kwargs, "O|O", kwlist, &obj, &alternate)) return NULL;
            if c[0] == "un" and c[1] == "!" and c[2][0] == "call" and self.is_id(c[2][1], "PyArg_ParseTupleAndKeywords"):
                a = c[2][2]
                ok = (len(a) == 6 and self.is_id(a[0], "args") and self.is_id(a[1], "kwargs") and a[2] == ("str", "O|O")
                      and self.is_id(a[3], "kwlist") and a[4][0] == "un" and a[4][1] == "&" and a[5][0] == "un" and a[5][1] == "&"
                      and it[3] is None and self.as_block(it[2]) == ["KReturn XNull"])
                if not ok or self.kwlist != ["obj", "alternate"]:
                    _fail("%s: unexpected argument parsing" % self.fname, c)
                return ["KParseArgs %s %s" % (_q(self.var(a[4][2])), _q(self.var(a[5][2])))]
            return ["KIf %s %s %s" % (self.pure(c), _lst(self.as_block(it[2])), _lst(self.as_block(it[3])))]
        if k == "for":
            self.loops += 1
            if self.loops > 1:
                _fail("%s: more than one loop" % self.fname)
            init = self.stmt(("expr", it[1]))
            step = self.stmt(("expr", it[3]))
            return ["KFor %s %s %s %s" % (_lst(init), self.pure(it[2]), _lst(step), _lst(self.as_block(it[4])))]
        if k == "expr":
            return self.expr_stmt(it[1])
        _fail("%s: unsupported statement" % self.fname, it)

    def expr_stmt(self, e):
        if e[0] == "assign":
            # chains a = b = c = NULL
            targets = []
            while e[0] == "assign":
                targets.append(self.var(e[1]))
                e = e[2]
            if len(targets) > 1:
                v = self.pure(e)
                return ["KAssign %s %s" % (_q(t), v) for t in reversed(targets)]
            x = targets[0]
            if x == "module" and e[0] == "call" and self.is_id(e[1], "_get_module"):
                return []          # only used by the inlined provided-check (checked by the caller)
            a = self.api(e)
            if a is not None:
                return ["KCall %s %s" % (_q(x), a)]
            return ["KAssign %s %s" % (_q(x), self.pure(e))]
        if e[0] == "postinc":
            x = self.var(e[1])
            return ["KAssign %s (XAdd (XVar %s) (XInt 1))" % (_q(x), _q(x))]
        if e[0] == "call" and e[1][0] == "id":
            f, a = e[1][1], e[2]
            if f in REFCOUNT and len(a) == 1 and a[0][0] == "id" and (a[0][1] in self.locals or a[0][1] == "Py_None"):
                return []
            if f == "PyErr_Clear" and not a:
                return ["KErrClear"]
            if f == "PyTuple_SET_ITEM" and len(a) == 3 and a[1][0] == "num":
                return ["KTupleSet %s %d %s" % (_q(self.var(a[0])), a[1][1], self.pure(a[2]))]
            if f == "PyErr_SetObject" and len(a) == 2 and self.is_id(a[0], "PyExc_TypeError"):
                return ["KErrSetTypeError %s" % self.pure(a[1])]
            if f == "__inline_provided__" and len(a) == 3:
                return ["KInlineProvided %s %s %s" % (_q(self.var(a[0])), self.pure(a[1]), self.pure(a[2]))]
        _fail("%s: unsupported expression statement" % self.fname, e)


def _walk(items):
    for it in items:
        yield it
        if it[0] == "block":
            yield from _walk(it[1])
        elif it[0] == "if":
            yield from _walk([x for x in (it[2], it[3]) if x is not None])
        elif it[0] == "for":
            yield from _walk([it[4]])


def _count_gotos(items):
    return sum(1 for it in _walk(items) if it[0] == "goto")


def _count_labels(items):
    return sum(1 for it in _walk(items) if it[0] == "label")


# --------------------------------------------------------------------------- the inlined provided-check

INLINE_PROVIDED = r'''
    decl = providedBy(module, obj);
    if (decl == NULL)
        return NULL;

    specification_base_class = _get_specification_base_class(Py_TYPE(self));

    if (PyObject_TypeCheck(decl, specification_base_class) &&
        ((SB*)decl)->_implied != NULL) {
        PyObject* implied;

        implied = ((SB*)decl)->_implied;
        Py_INCREF(implied);
        implements = PySequence_Contains(implied, self);
        Py_DECREF(implied);
        Py_DECREF(decl);
        if (implements < 0)
            return NULL;
    } else {
        PyObject* r;
        r = _foreign_decl_implies(decl, self);
        Py_DECREF(decl);
        if (r == NULL)
            return NULL;
        implements = PyObject_IsTrue(r);
        Py_DECREF(r);
        if (implements < 0)
            return NULL;
    }
'''


def _replace_inline(toks, fname):
    pin = tokenize(INLINE_PROVIDED)
    n = len(pin)
    hits = [i for i in range(len(toks) - n + 1) if toks[i:i + n] == pin]
    if len(hits) != 1:
        _fail("%s: the inlined provided-check differs from the pinned text (found %d exact matches)" % (fname, len(hits)))
    i = hits[0]
    repl = tokenize("__inline_provided__(implements, self, obj);")
    out = toks[:i] + repl + toks[i + n:]
    for name in ("decl", "specification_base_class", "module"):
        uses = [j for j, t in enumerate(out) if t == ("id", name)]
        # remaining occurrences: the declaration, and `module = _get_module(...)`
        allowed = 1 if name != "module" else 2
        if len(uses) > allowed:
            _fail("%s: %s is used outside the inlined provided-check" % (fname, name))
    return out


# --------------------------------------------------------------------------- driver

HEADER = """(* GENERATED by harness/translate/adapt_c.py from %s -- do not edit.
   Regenerated on every run; Proofs/AdaptGen.v and Properties/C14.v are re-checked against it.
   IB__call__ and IB__adapt__ as terms of the statement language of Model/CKernel.v (reference
   counting dropped; the inlined provided-check is the single statement KInlineProvided). *)
From Coq Require Import List String.
Import ListNotations.
From ZI Require Import Model.PyKernel Model.CKernel.
Local Open Scope string_scope.
"""


def extract_source(text, origin="_zope_interface_coptimizations.c"):
    text = strip_comments(text)
    for s in ("__conform__", "_call_conform", "__adapt__"):
        if not re.search(r"DEFINE_STATIC_STRING\(\s*%s\s*\)" % re.escape(s), text):
            _fail("DEFINE_STATIC_STRING(%s) not found" % s)
    out = {}
    for fname, params, declared in (
            ("IB__adapt__", r"PyObject\*\s*self,\s*PyObject\*\s*obj", ["self", "obj"]),
            ("IB__call__", r"PyObject\*\s*self,\s*PyObject\*\s*args,\s*PyObject\*\s*kwargs", ["self"])):
        body = function_text(text, fname, params)
        toks = tokenize(body)
        if fname == "IB__adapt__":
            toks = _replace_inline(toks, fname)
        p = Parser(toks)
        items = p.block_items()
        if p.peek()[0] != "eof":
            _fail("%s: trailing tokens" % fname, p.peek())
        m = Mapper(fname, declared)
        stmts = m.stmts(items)
        if fname == "IB__adapt__" and m.loops != 1:
            _fail("IB__adapt__: expected exactly one loop")
        if fname == "IB__call__" and m.loops != 0:
            _fail("IB__call__: unexpected loop")
        out[fname] = _lst(stmts)
    # the tp_call slot and the method table must point at these functions
    if not re.search(r"\{\s*\"__adapt__\"\s*,\s*\(PyCFunction\)\s*IB__adapt__\s*,\s*METH_O", text):
        _fail("IB__adapt__ is not registered as METH_O method __adapt__")
    if not re.search(r"\.tp_call\s*=\s*\(ternaryfunc\)\s*IB__call__", text) or \
            not re.search(r"\{\s*Py_tp_call\s*,\s*IB__call__\s*\}", text):
        _fail("IB__call__ is not the tp_call slot")
    return "\n".join([HEADER % origin,
                      "Definition c_adapt_body : list cstmt :=\n  %s.\n" % out["IB__adapt__"],
                      "Definition c_call_body : list cstmt :=\n  %s.\n" % out["IB__call__"]])


def extract_file(path):
    with open(path) as fh:
        return extract_source(fh.read(), origin=path)


# The text this framework was developed against (only what the extractor reads); see adapt_py.py.
PINNED_SOURCE = r'''
    DEFINE_STATIC_STRING(__conform__);
    DEFINE_STATIC_STRING(_call_conform);
    DEFINE_STATIC_STRING(__adapt__);

static PyObject*
IB__adapt__(PyObject* self, PyObject* obj)
{
    PyObject *decl;
    PyObject *args;
    PyObject *adapter;
    PyObject *module;
    PyObject *adapter_hooks;
    PyTypeObject *specification_base_class;
    int implements;
    int i;

    module = _get_module(Py_TYPE(self));

    if (PyDict_GetItemString(Py_TYPE(self)->tp_dict,
                             "_CALL_CUSTOM_PROVIDEDBY")) {
        PyObject* r;
        r = PyObject_CallMethod(self, "providedBy", "(O)", obj);
        if (r == NULL)
            return NULL;
        implements = PyObject_IsTrue(r);
        Py_DECREF(r);
        if (implements < 0)
            return NULL;
        goto checked;
    }
''' + INLINE_PROVIDED + r'''
checked:
    if (implements) {
        Py_INCREF(obj);
        return obj;
    }

    args = PyTuple_New(2);
    if (args == NULL) { return NULL; }

    Py_INCREF(self);
    PyTuple_SET_ITEM(args, 0, self);

    Py_INCREF(obj);
    PyTuple_SET_ITEM(args, 1, obj);

    adapter_hooks = _get_adapter_hooks(Py_TYPE(self));
    for (i = 0; i < PyList_GET_SIZE(adapter_hooks); i++) {
        PyObject* hook;

        hook = PyList_GET_ITEM(adapter_hooks, i);
        Py_INCREF(hook);
        adapter = PyObject_CallObject(hook, args);
        Py_DECREF(hook);
        if (adapter == NULL || adapter != Py_None) {
            Py_DECREF(args);
            return adapter;
        }
        Py_DECREF(adapter);
    }

    Py_DECREF(args);

    Py_INCREF(Py_None);
    return Py_None;
}

static PyObject*
IB__call__(PyObject* self, PyObject* args, PyObject* kwargs)
{
    PyObject *conform, *obj, *alternate, *adapter;
    static char* kwlist[] = { "obj", "alternate", NULL };
    conform = obj = alternate = adapter = NULL;

    if (!PyArg_ParseTupleAndKeywords(
          args, kwargs, "O|O", kwlist, &obj, &alternate))
        return NULL;

    conform = PyObject_GetAttr(obj, str__conform__);
    if (conform == NULL) {
        if (!PyErr_ExceptionMatches(PyExc_AttributeError)) {
            return NULL;
        }
        PyErr_Clear();

        Py_INCREF(Py_None);
        conform = Py_None;
    }

    if (conform != Py_None) {
        adapter =
          PyObject_CallMethodObjArgs(self, str_call_conform, conform, NULL);
        Py_DECREF(conform);
        if (adapter == NULL || adapter != Py_None)
            return adapter;
        Py_DECREF(adapter);
    } else {
        Py_DECREF(conform);
    }

    if (PyDict_GetItemString(self->ob_type->tp_dict, "_CALL_CUSTOM_ADAPT")) {
        adapter = PyObject_CallMethodObjArgs(self, str__adapt__, obj, NULL);
    } else {
        adapter = IB__adapt__(self, obj);
    }

    if (adapter == NULL || adapter != Py_None) {
        return adapter;
    }
    Py_DECREF(adapter);

    if (alternate != NULL) {
        Py_INCREF(alternate);
        return alternate;
    }

    adapter = Py_BuildValue("sOO", "Could not adapt", obj, self);
    if (adapter != NULL) {
        PyErr_SetObject(PyExc_TypeError, adapter);
        Py_DECREF(adapter);
    }
    return NULL;
}

    { "__adapt__", (PyCFunction)IB__adapt__, METH_O, IB__adapt____doc__},
    .tp_call            = (ternaryfunc)IB__call__,
    {Py_tp_call,        IB__call__},
'''


def pinned():
    return extract_source(PINNED_SOURCE, origin="<pinned copy in harness/translate/adapt_c.py>")


if __name__ == "__main__":  # python -m harness.translate.adapt_c /repo/src/zope/interface/_zope_interface_coptimizations.c
    import sys
    print(extract_file(sys.argv[1]))
